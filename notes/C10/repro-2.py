"""C10 repro 2 -- a Handle Value Confirmation is answered with an Error Response.

Server.on_att_handle_value_confirmation calls set_result() on the future of the pending indication without looking
at its state.  When a peer sends two confirmations back to back (both are dispatched before the task that awaits
the first one gets to run and clears the slot), the second set_result() raises asyncio.InvalidStateError into
Server.on_gatt_pdu, whose catch-all answers with an ATT_ERROR_RSP naming opcode 0x1E and re-raises into the L2CAP
receive path.  A confirmation must never be answered (Vol 3 Part F 3.4.7.3; statement of C10).

Exit status: 1 = defect present, 0 = not present.
Run:  PYTHONPATH=<bumble tree> python repro-2.py
"""
import asyncio
import sys

from bumble import att
from bumble.gatt import Characteristic, Service
from bumble.gatt_server import Server


class FakeDevice:
    def __init__(self):
        self.sent = []

    def send_l2cap_pdu(self, connection_handle, cid, pdu):
        self.sent.append(bytes(pdu))


class FakeConnection:
    def __init__(self, handle, att_mtu):
        self.handle = handle
        self.att_mtu = att_mtu
        self.encryption = 0
        self.authenticated = False

    def is_encrypted(self):
        return False


async def main():
    device = FakeDevice()
    server = Server(device)
    c = Characteristic('2A00', Characteristic.Properties.READ | Characteristic.Properties.INDICATE, Characteristic.READABLE, b'abc')
    server.add_service(Service('1800', [c]))
    bearer = FakeConnection(0x0040, att.ATT_DEFAULT_MTU)

    task = asyncio.ensure_future(server.indicate_subscriber(bearer, c, b'abc', force=True))
    await asyncio.sleep(0.01)  # the indication is on the wire, the task awaits the confirmation
    assert len(device.sent) == 1 and device.sent[0][0] == att.Opcode.ATT_HANDLE_VALUE_INDICATION, device.sent
    confirmation = bytes(att.ATT_Handle_Value_Confirmation())
    escaped = None
    try:
        # two confirmations arrive in the same chunk of HCI data: both are dispatched before `task` resumes
        server.on_gatt_pdu(bearer, att.ATT_PDU.from_bytes(confirmation))
        server.on_gatt_pdu(bearer, att.ATT_PDU.from_bytes(confirmation))
    except Exception as error:  # noqa: BLE001
        escaped = error
    await task
    answers = device.sent[1:]
    print('PDUs sent after the indication:', [p.hex() for p in answers], ' exception into the receive path:', repr(escaped))
    if answers or escaped is not None:
        print('DEFECT: a confirmation was answered / raised')
        return 1
    return 0


sys.exit(asyncio.run(main()))
