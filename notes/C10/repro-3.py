"""C10 repro 3 (known finding, no fix proposed) -- a request with too few parameter octets is never answered.

Two bumble devices over the in-process LocalLink; the client side sends the raw ATT PDU 0A 01 (Read Request, one
parameter octet instead of two) on the ATT fixed channel and waits.  The server's Device.on_gatt_pdu calls
ATT_PDU.from_bytes, struct.unpack_from raises, nothing catches it: no Error Response (Vol 3 Part F 3.4.1.1 asks for
Invalid PDU), and the exception travels up the receive path.  A well-formed Read Request on the same link is answered.

Exit status: 1 = defect present (no reply to the malformed request), 0 = it was answered.
Run:  PYTHONPATH=<bumble tree> python repro-3.py
"""
import asyncio
import logging
import sys

from bumble import att
from bumble.controller import Controller
from bumble.core import PhysicalTransport
from bumble.device import Device
from bumble.gatt import Characteristic, Service
from bumble.hci import Address
from bumble.host import Host
from bumble.link import LocalLink
from bumble.transport.common import AsyncPipeSink


async def main():
    logging.disable(logging.CRITICAL)
    link = LocalLink()
    addresses = ['F0:F0:F0:F0:F0:F0', 'F1:F1:F1:F1:F1:F1']
    controllers = [Controller(f'C{i}', link=link, public_address=addresses[i]) for i in range(2)]
    devices = [Device(address=Address(addresses[i]), host=Host(controllers[i], AsyncPipeSink(controllers[i]))) for i in range(2)]
    server, client = devices[1], devices[0]
    c = Characteristic('2A00', Characteristic.Properties.READ, Characteristic.READABLE, b'hello')
    server.add_service(Service('1800', [c]))
    for d in devices:
        await d.power_on()
    await server.start_advertising(advertising_interval_min=1.0)
    connection = await client.connect(server.random_address)

    # what the client side receives on the ATT channel
    received = []
    client.l2cap_channel_manager.register_fixed_channel(att.ATT_CID, lambda handle, pdu: received.append(bytes(pdu)))

    def send(pdu):
        received.clear()
        client.send_l2cap_pdu(connection.handle, att.ATT_CID, pdu)

    send(bytes(att.ATT_Read_Request(attribute_handle=c.handle)))
    await asyncio.sleep(0.2)
    print('well-formed Read Request ->', [p.hex() for p in received])
    ok = len(received) == 1

    try:
        send(bytes([att.Opcode.ATT_READ_REQUEST, 0x01]))
        await asyncio.sleep(0.5)
    except Exception as error:  # noqa: BLE001  (LocalLink delivers synchronously: the server's exception may surface here)
        print('exception from the receive path:', repr(error))
    print('Read Request with 1 parameter octet ->', [p.hex() for p in received])
    if not ok:
        print('unexpected: the well-formed request was not answered')
        return 2
    if not received:
        print('DEFECT: a malformed request gets no reply (the client would time out after 30 s)')
        return 1
    return 0


sys.exit(asyncio.run(main()))
