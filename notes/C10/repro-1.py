"""C10 repro 1 -- Read Multiple Variable Response longer than ATT_MTU.

Server.on_att_read_multiple_variable_request appends each (length, value) tuple *before* it looks at the space left
(and cuts a value to ATT_MTU-3, not to the space left), so the response can exceed the bearer's ATT_MTU:
two readable characteristic values of 10 and 20 octets at the default ATT_MTU of 23 give a 35-octet PDU.

Exit status: 1 = defect present (a PDU longer than ATT_MTU was handed to L2CAP), 0 = not present.
Run:  PYTHONPATH=<bumble tree> python repro-1.py
"""
import asyncio
import sys

from bumble import att
from bumble.gatt import Characteristic, Service
from bumble.gatt_server import Server


class FakeDevice:
    """what Server needs from a Device: somewhere to send L2CAP PDUs"""

    def __init__(self):
        self.sent = []

    def send_l2cap_pdu(self, connection_handle, cid, pdu):
        self.sent.append((connection_handle, cid, bytes(pdu)))


class FakeConnection:
    """an un-enhanced ATT bearer: a connection handle and the current ATT_MTU"""

    def __init__(self, handle, att_mtu):
        self.handle = handle
        self.att_mtu = att_mtu
        self.encryption = 0
        self.authenticated = False

    def is_encrypted(self):
        return False


async def main():
    device = FakeDevice()
    server = Server(device)
    c1 = Characteristic('2A00', Characteristic.Properties.READ, Characteristic.READABLE, bytes(range(10)))
    c2 = Characteristic('2A01', Characteristic.Properties.READ, Characteristic.READABLE, bytes(range(20)))
    server.add_service(Service('1800', [c1, c2]))
    bearer = FakeConnection(0x0040, att.ATT_DEFAULT_MTU)
    request = att.ATT_Read_Multiple_Variable_Request(set_of_handles=[c1.handle, c2.handle])
    server.on_gatt_pdu(bearer, att.ATT_PDU.from_bytes(bytes(request)))
    await asyncio.sleep(0.05)  # let the handler task run
    if len(device.sent) != 1:
        print(f'unexpected: {len(device.sent)} PDUs sent')
        return 2
    pdu = device.sent[0][2]
    print(f'ATT_MTU={bearer.att_mtu}  response opcode=0x{pdu[0]:02X}  length={len(pdu)}')
    if len(pdu) > bearer.att_mtu:
        print('DEFECT: the response is longer than ATT_MTU')
        return 1
    # the first ATT_MTU-1 octets of the tuple list, each length field still the full value length (3.4.4.12)
    response = att.ATT_PDU.from_bytes(pdu)
    print('ok:', [(n, len(v)) for n, v in response.length_value_tuple_list])
    return 0


sys.exit(asyncio.run(main()))
