"""Defect 2: after the HCI transport is lost (or Host.flush) the device has dropped all its connections but the host
still holds them, and the data queued for them: host and device disagree on the set of live connections, the stale
Connection objects are still found by handle / address.  Obligations Host.on_transport_lost/post#no-connection-left,
post#every-data-queue-emptied, Host.flush/post#...  exit 1 = defect present."""
import asyncio
import sys

from _pair import connected_pair, settle


async def main():
    devices, controllers, conns = await connected_pair()
    d0 = devices[0]
    handle = conns[0].handle
    # queue more data than the controller has buffers for, so that something waits in the queue
    controllers[0].hc_total_num_le_acl_data_packets = 1
    q = d0.host.le_acl_packet_queue or d0.host.acl_packet_queue
    q.max_in_flight = 1
    for _ in range(5):
        d0.host.send_l2cap_pdu(handle, 4, bytes(20))
    queued_before = len(q._packets)
    d0.host.on_transport_lost()
    await settle()
    print('device connections:', sorted(d0.connections), '| host connections:', sorted(d0.host.connections),
          '| packets still queued:', len(q._packets), 'of', queued_before, '| per-connection queue state:', sorted(q._connection_state))
    ok = not d0.connections and not d0.host.connections and len(q._packets) == 0 and not q._connection_state
    return 0 if ok else 1


sys.exit(asyncio.run(main()))
