"""Defect 1: Host.on_transport_lost raises InvalidStateError and never emits 'flush' when the pending HCI response
future is already finished (the response arrived in the same loop iteration in which the transport reports its loss;
the waiter in _send_command has not resumed yet).  Obligation Host.on_transport_lost/exc#InvalidStateError.
exit 1 = defect present."""
import asyncio
import sys

from bumble.host import Host


async def main():
    host = Host()
    flushed = []
    host.on('flush', lambda: flushed.append(1))
    host.pending_response = asyncio.get_running_loop().create_future()
    host.pending_response.set_result('the response that just arrived')
    try:
        host.on_transport_lost()
        raised = None
    except Exception as e:  # noqa: BLE001
        raised = e
    print('on_transport_lost raised:', repr(raised), '| flush events:', len(flushed))
    return 0 if raised is None and len(flushed) == 1 else 1


sys.exit(asyncio.run(main()))
