"""Defect 3: Device.on_flush (transport lost) tells every connection 'disconnection' and forgets them, but does not
hand them to the GATT server (subscriptions / indication state of the dead connections stay forever) and keeps its SCO
and CIS link tables.  Obligations Device.on_flush/inv-preserved#2#loop0 (gatt server told), post#no-sco-link-left,
post#no-cis-link-left.  exit 1 = defect present."""
import asyncio
import sys

from _pair import connected_pair, settle
from bumble.gatt import Characteristic, Service


async def main():
    devices, controllers, conns = await connected_pair()
    server_dev = devices[1]
    conn = conns[1]
    # the peer subscribed to something: a row in Server.subscribers for this connection
    server_dev.gatt_server.subscribers[conn] = {3: b'\x01\x00'}
    server_dev.sco_links[0x123] = object()
    server_dev.host.on_transport_lost()
    await settle()
    print('connections:', sorted(server_dev.connections), '| GATT rows of dead connections:', len(server_dev.gatt_server.subscribers),
          '| sco links:', sorted(server_dev.sco_links))
    return 0 if not server_dev.connections and not server_dev.gatt_server.subscribers and not server_dev.sco_links else 1


sys.exit(asyncio.run(main()))
