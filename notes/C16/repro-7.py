"""Defect 7: ChannelManager.update_connection_parameters awaits its (manager-wide) response future bare.  If the link
drops before the peer answers the caller waits forever, and the slot stays occupied: every later request, on any
connection, is refused with 'request already pending'.
Obligation ChannelManager.update_connection_parameters/waiter-released#await0.  exit 1 = defect present."""
import asyncio
import sys

from _pair import connected_pair, settle
from bumble import core


async def main():
    devices, controllers, conns = await connected_pair()
    periph = devices[1]
    mgr = periph.l2cap_channel_manager
    devices[0].l2cap_channel_manager.on_control_frame = lambda *a: None  # the central never answers
    task = asyncio.create_task(mgr.update_connection_parameters(conns[1], 6, 12, 0, 100))
    await settle()
    controllers[1].on_le_disconnected(controllers[1].find_le_connection_by_handle(conns[1].handle), 0x08)
    await settle(30)
    done = task.done()
    stuck = mgr.connection_parameters_update_response is not None
    print('request ended:', done, '| slot still occupied:', stuck)
    task.cancel()
    return 0 if done and not stuck else 1


sys.exit(asyncio.run(main()))
