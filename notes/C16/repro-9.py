"""Defect 9: procedures of Device that wait for a controller event about one connection await a local future bare
(get_remote_le_features, get_remote_classic_features, the Channel Sounding procedures, accept_cis_request; create_big /
create_big_sync for the transport): if the link (or the transport) goes away first they wait forever.
Obligations Device.<procedure>/waiter-released#await1.  exit 1 = defect present."""
import asyncio
import sys

from _pair import connected_pair, settle


async def main():
    devices, controllers, conns = await connected_pair()
    d0, conn = devices[0], conns[0]
    controllers[0].on_hci_le_read_remote_features_command = lambda command: controllers[0]._send_hci_command_status(0, command.op_code)  # accepted, completion never comes
    task = asyncio.create_task(d0.get_remote_le_features(conn))
    await settle()
    controllers[0].on_le_disconnected(controllers[0].find_le_connection_by_handle(conn.handle), 0x08)
    await settle(30)
    print('connection gone:', conn.handle not in d0.connections, '| get_remote_le_features ended:', task.done())
    ok = task.done()
    task.cancel()
    return 0 if ok else 1


sys.exit(asyncio.run(main()))
