"""Finding 10 (not fixed, see known_findings.txt): the connection request an LE credit-based channel registers in
ChannelManager.le_coc_requests (one table for all connections, keyed by the 8-bit identifier) is not removed when the
link is lost while the request is outstanding: connect() is released (cancelled) but the entry stays; the next request
that gets the same identifier -- on any connection, identifiers restart at 1 for a new connection -- is refused with
'too many concurrent connection requests', and a late response would be matched to the dead request.
Obligation LeCreditBasedChannel.connect/raises-CancelledError#1.  exit 1 = defect present."""
import asyncio
import sys

from _pair import connected_pair, settle
from bumble import l2cap


async def main():
    devices, controllers, conns = await connected_pair()
    mgr = devices[0].l2cap_channel_manager
    devices[1].l2cap_channel_manager.on_control_frame = lambda *a: None  # the peer does not answer
    task = asyncio.create_task(conns[0].create_l2cap_channel(l2cap.LeCreditBasedChannelSpec(psm=0x81)))
    await settle()
    controllers[0].on_le_disconnected(controllers[0].find_le_connection_by_handle(conns[0].handle), 0x08)
    await settle(30)
    print('connect() ended:', task.done(), '| stale entries in le_coc_requests:', sorted(mgr.le_coc_requests))
    ok = task.done() and not mgr.le_coc_requests
    task.cancel()
    return 0 if ok else 1


sys.exit(asyncio.run(main()))
