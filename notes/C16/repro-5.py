"""Defect 5: LeCreditBasedChannel.abort calls set_result on a disconnection_result that is already finished (the caller
of disconnect() gave up: wait_for timeout / task cancelled) -> InvalidStateError out of ChannelManager.on_disconnection:
the remaining channels are not aborted, pending requests not cancelled, and the exception propagates through
Host.emit('disconnection') so the host never removes the connection either.
Obligation le_coc_channel_abort/exc#InvalidStateError.  exit 1 = defect present."""
import asyncio
import sys

from _pair import connected_pair, settle
from bumble import l2cap


async def main():
    devices, controllers, conns = await connected_pair()
    server = devices[1].create_l2cap_server(l2cap.LeCreditBasedChannelSpec(psm=0x81))
    ch1 = await conns[0].create_l2cap_channel(l2cap.LeCreditBasedChannelSpec(psm=0x81))
    ch2 = await conns[0].create_l2cap_channel(l2cap.LeCreditBasedChannelSpec(psm=0x81))
    await settle()
    # the application gives up waiting for the disconnection of ch1 (e.g. asyncio.wait_for timed out)
    devices[1].l2cap_channel_manager.on_control_frame = lambda *a: None  # the peer does not answer
    t = asyncio.create_task(ch1.disconnect())
    await settle()
    t.cancel()
    await settle()
    handle = conns[0].handle
    # now the link drops
    try:
        controllers[0].on_le_disconnected(controllers[0].find_le_connection_by_handle(handle), 0x08)
        await settle(30)
        raised = None
    except Exception as e:  # noqa: BLE001
        raised = e
    await settle(30)
    d0 = devices[0]
    print('raised:', repr(raised), '| host connections:', sorted(d0.host.connections), '| device connections:', sorted(d0.connections),
          '| ch2 state:', ch2.state.name, '| l2cap tables:', dict(d0.l2cap_channel_manager.channels))
    ok = raised is None and not d0.host.connections and ch2.state == l2cap.LeCreditBasedChannel.State.DISCONNECTED
    return 0 if ok else 1


sys.exit(asyncio.run(main()))
