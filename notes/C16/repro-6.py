"""Defect 6: an indication is waiting for its confirmation when the connection goes away.  Server.on_disconnection drops
the per-bearer state, but when the wait ends (GATT_REQUEST_TIMEOUT) the `finally` of _indicate_single_bearer writes
pending_confirmations[bearer] = None again: the closed connection is back in the server's tables for good.
Obligation Server._indicate_single_bearer/raises-TimeoutError#0.  exit 1 = defect present."""
import asyncio
import sys

from _pair import connected_pair, settle
from bumble import gatt_server
from bumble.gatt import Characteristic, Service


async def main():
    gatt_server.GATT_REQUEST_TIMEOUT = 0.05
    devices, controllers, conns = await connected_pair()
    srv_dev = devices[1]
    ch = Characteristic('2A19', Characteristic.Properties.INDICATE, Characteristic.READABLE, bytes([1]))
    srv_dev.add_service(Service('180F', [ch]))
    conn = conns[1]
    srv_dev.gatt_server.send_gatt_pdu = lambda *a: None  # the indication is lost on the air: no confirmation will come
    task = asyncio.create_task(srv_dev.gatt_server.indicate_subscriber(conn, ch, bytes([2]), force=True))
    await settle()
    # the link drops while the indication is unconfirmed
    controllers[1].on_le_disconnected(controllers[1].find_le_connection_by_handle(conn.handle), 0x08)
    await settle(30)
    gone_right_after = conn not in srv_dev.gatt_server.pending_confirmations
    await asyncio.sleep(0.2)
    outcome = repr(task.exception()) if task.done() and not task.cancelled() else ('cancelled' if task.cancelled() else 'still waiting')
    back = conn in srv_dev.gatt_server.pending_confirmations
    print('state gone right after the disconnection:', gone_right_after, '| indicate ended with:', outcome, '| closed connection back in pending_confirmations:', back)
    return 1 if back or not task.done() else 0


sys.exit(asyncio.run(main()))
