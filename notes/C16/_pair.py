"""Two real devices (Device / Host / virtual Controller) on a LocalLink with one LE connection (as tests/test_utils.py)."""
import asyncio
import functools
import logging

from bumble.controller import Controller
from bumble.device import Device
from bumble.hci import Address
from bumble.host import Host
from bumble.link import LocalLink
from bumble.transport.common import AsyncPipeSink

logging.disable(logging.CRITICAL)


async def settle(n=10):
    for _ in range(n):
        await asyncio.sleep(0)


async def connected_pair(eatt=False):
    link = LocalLink()
    addresses = [':'.join([f'F{i}'] * 6) for i in range(2)]
    controllers = [Controller(f'C{i}', link=link, public_address=addresses[i]) for i in range(2)]
    devices = [Device(address=Address(addresses[i]), host=Host(controllers[i], AsyncPipeSink(controllers[i]))) for i in range(2)]
    conns = {}
    for i, d in enumerate(devices):
        d.on(d.EVENT_CONNECTION, functools.partial(conns.__setitem__, i))
        if eatt:
            d.config.eatt_enabled = True
            d.gatt_server.register_eatt()
        await d.power_on()
    await devices[1].start_advertising(advertising_interval_min=1.0)
    await devices[0].connect(devices[1].random_address)
    await settle()
    return devices, controllers, conns
