"""Defect 8: the GATT server keeps the subscriptions / indication state of an EATT bearer (an LE credit-based channel)
after the channel -- and even the whole connection -- is closed: nobody calls Server.on_disconnection for it.
Obligations eatt_bearer_closed/assert#eatt-subscriptions-dropped, assert#eatt-indication-state-dropped.
exit 1 = defect present."""
import asyncio
import sys

from _pair import connected_pair, settle
from bumble import gatt_client, l2cap


async def main():
    devices, controllers, conns = await connected_pair(eatt=True)
    client = await gatt_client.Client.connect_eatt(conns[0])
    await settle()
    srv = devices[1].gatt_server
    mgr = devices[1].l2cap_channel_manager
    bearers = [c for c in mgr.le_coc_channels.get(conns[1].handle, {}).values()]
    assert bearers, 'no EATT bearer on the server side'
    bearer = bearers[0]
    srv.subscribers[bearer] = {3: b'\x02\x00'}  # what write_cccd records when the client subscribes over this bearer
    # the whole link goes away
    controllers[1].on_le_disconnected(controllers[1].find_le_connection_by_handle(conns[1].handle), 0x08)
    await settle(30)
    print('connections:', sorted(devices[1].connections), '| bearer state:', bearer.state.name, '| rows of closed bearers in Server.subscribers:', len(srv.subscribers))
    return 0 if not srv.subscribers else 1


sys.exit(asyncio.run(main()))
