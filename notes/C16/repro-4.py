"""Defect 4: ClassicChannel.disconnect awaits disconnection_result bare and ClassicChannel.abort (link loss) neither
resolves it nor closes a channel in WAIT_DISCONNECT: a task in `await channel.disconnect()` hangs forever when the ACL
link drops before the peer answers.  Obligations classic_channel_abort/assert#disconnect-waiter-released,
ClassicChannel.disconnect/waiter-released#await0.  exit 1 = defect present."""
import asyncio
import sys

from _pair import settle
from bumble import l2cap


class Conn:
    handle = 0x40
    peer_address = 'peer'


class Host:
    def on(self, *a):
        pass

    def send_acl_sdu(self, *a):
        pass

    send_l2cap_pdu = send_acl_sdu


async def main():
    mgr = l2cap.ChannelManager()
    mgr._host = Host()
    mgr.send_control_frame = lambda *a: None
    conn = Conn()
    ch = l2cap.ClassicChannel(mgr, conn, l2cap.L2CAP_SIGNALING_CID, 0x1001, 0x40, l2cap.ClassicChannelSpec())
    mgr.channels[conn.handle] = {0x40: ch}
    ch.state = l2cap.ClassicChannel.State.OPEN
    ch.destination_cid = 0x41
    closed = []
    ch.on('close', lambda: closed.append(1))
    task = asyncio.create_task(ch.disconnect())
    await settle()
    mgr.on_disconnection(conn.handle, 0x13)  # the link is lost before the Disconnection Response arrives
    await settle()
    print('disconnect() finished:', task.done(), '| state:', ch.state.name, '| close events:', len(closed), '| tables:', mgr.channels)
    ok = task.done() and len(closed) == 1
    task.cancel()
    return 0 if ok else 1


sys.exit(asyncio.run(main()))
