"""C15 defect 1 -- JsonKeyStore.load, default-namespace branch, returns (namespace_name, key_map) instead of (db, key_map).

A store created without a namespace adopts the only namespace of the file (class docstring).  In that branch `load`
returns `next(iter(db.items()))`, i.e. the pair (name of the namespace, its key map).  `get`/`get_all` only use the second
component and work; `update`/`delete`/`delete_all` pass the first component to `save`, which therefore writes the
*namespace name* -- a JSON string -- over the whole file: every namespace and every key in the file is lost, and the
next `load` operates on a str.

Witness found by PyVC: obligations C15/bumble.keys:JsonKeyStore.load/post#db-is-the-parsed-file-plus-the-namespace,
.../JsonKeyStore.update/post#entry-is-exactly-the-given-keys, .../delete/post#entry-is-gone,
.../delete_all/post#namespace-is-empty (decisions: file exists, namespace not in db, namespace == DEFAULT, len(db) == 1).

exit 1: defect present, exit 0: absent.
"""
import asyncio
import json
import os
import sys
import tempfile

from bumble.keys import JsonKeyStore, PairingKeys


async def main():
    with tempfile.TemporaryDirectory() as d:
        fn = os.path.join(d, 'keys.json')
        ltk = PairingKeys.Key(bytes(range(16)))
        # a file with exactly one (named) namespace holding one peer
        await JsonKeyStore('AA:BB:CC:DD:EE:FF', fn).update('peer-1', PairingKeys(ltk=ltk))
        before = json.load(open(fn))
        assert before == {'AA:BB:CC:DD:EE:FF': {'peer-1': PairingKeys(ltk=ltk).to_dict()}}
        # a default-namespace store on the same file adopts that namespace ...
        store = JsonKeyStore(None, fn)
        assert (await store.get('peer-1')) == PairingKeys(ltk=ltk)
        # ... and any mutation through it destroys the file
        await store.update('peer-2', PairingKeys(irk=PairingKeys.Key(bytes(16))))
        after = json.load(open(fn))
        print('file before:', before)
        print('file after :', repr(after))
        ok = isinstance(after, dict) and after.get('AA:BB:CC:DD:EE:FF', {}).get('peer-1') == before['AA:BB:CC:DD:EE:FF']['peer-1'] \
            and 'peer-2' in after.get('AA:BB:CC:DD:EE:FF', {})
        if not ok:
            print('DEFECT: the database file was overwritten by', repr(after))
            return 1
        return 0


sys.exit(asyncio.run(main()))
