"""C15 defect 2 -- JsonKeyStore.update merges the new keys into the stored entry instead of replacing it.

`key_map.setdefault(name, {}).update(keys.to_dict())` keeps every field of the previous entry that the new PairingKeys
does not have.  After `update(name, k)` the store therefore does not return k (MemoryKeyStore does): e.g. re-pairing a
peer with LE legacy pairing (ltk_central / ltk_peripheral) after a Secure Connections pairing (ltk) leaves the stale `ltk`
in the entry, and Device.get_long_term_key prefers `keys.ltk` -- the stale key is used.

Witness found by PyVC: obligation C15/bumble.keys:JsonKeyStore.update/post#entry-is-exactly-the-given-keys
(decisions: file exists, namespace in db, peer already has an entry).

exit 1: defect present, exit 0: absent.
"""
import asyncio
import os
import sys
import tempfile

from bumble.keys import JsonKeyStore, MemoryKeyStore, PairingKeys


async def main():
    with tempfile.TemporaryDirectory() as d:
        old = PairingKeys(address_type=1, ltk=PairingKeys.Key(bytes([0x11] * 16), authenticated=True))
        new = PairingKeys(
            ltk_central=PairingKeys.Key(bytes([0x22] * 16), ediv=7, rand=bytes(8)),
            ltk_peripheral=PairingKeys.Key(bytes([0x33] * 16), ediv=9, rand=bytes(8)),
        )
        js, ms = JsonKeyStore('ns', os.path.join(d, 'keys.json')), MemoryKeyStore()
        for s in (js, ms):
            await s.update('peer', old)
            await s.update('peer', new)
        got_m, got_j = await ms.get('peer'), await js.get('peer')
        print('MemoryKeyStore.get ==', got_m == new)
        print('JsonKeyStore.get   ==', got_j == new, '(stale ltk:', got_j.ltk, ', stale address_type:', got_j.address_type, ')')
        return 0 if got_j == new else 1


sys.exit(asyncio.run(main()))
