"""Helpers for the native reproducers: two real RFCOMM multiplexers joined by a pair of fake, order-preserving L2CAP
channels, and a fake DLC for the HFP protocol objects.  Run with the bumble tree under test first on PYTHONPATH."""
import asyncio
import collections

from bumble import rfcomm


class FakeL2capChannel:
    EVENT_CLOSE = 'close'

    def __init__(self, loop, peer_mtu=1024):
        self.peer_mtu = peer_mtu
        self.peer = None
        self.sink = None
        self.loop = loop
        self.connection = None

    def on(self, *a, **k):
        pass

    def write(self, pdu):
        # order-preserving, asynchronous delivery
        self.loop.call_soon(self.peer.sink, bytes(pdu))


async def open_pair(max_frame_size=100, initial_credits=7, channel=3, acceptor_sink=None):
    """-> (initiator DLC, acceptor DLC) after a real PN / SABM / UA handshake"""
    loop = asyncio.get_running_loop()
    ca, cb = FakeL2capChannel(loop), FakeL2capChannel(loop)
    ca.peer, cb.peer = cb, ca
    ma = rfcomm.Multiplexer(ca, rfcomm.Multiplexer.Role.INITIATOR)
    mb = rfcomm.Multiplexer(cb, rfcomm.Multiplexer.Role.RESPONDER)
    mb.acceptor = lambda ch: (max_frame_size, initial_credits)
    accepted = []
    mb.on(mb.EVENT_DLC, accepted.append)
    ma.state = mb.state = rfcomm.Multiplexer.State.CONNECTED
    a = await asyncio.wait_for(ma.open_dlc(channel, max_frame_size, initial_credits), 2)
    for _ in range(20):
        await asyncio.sleep(0)
    return a, accepted[0], ma, mb


async def settle(n=200):
    for _ in range(n):
        await asyncio.sleep(0)


class FakeDlc:
    """stand-in for the DLC under an HFP protocol object: records what is written"""

    def __init__(self):
        self.lines = []
        self.sink = None
        self.multiplexer = type('M', (), {'l2cap_channel': type('C', (), {'EVENT_CLOSE': 'close', 'on': lambda *a, **k: None})()})()

    def write(self, text):
        self.lines.append(text if isinstance(text, str) else text.decode())


def finals(lines):
    return [l for l in lines if l in ('\r\nOK\r\n', '\r\nERROR\r\n') or l.startswith('\r\n+CME ERROR')]
