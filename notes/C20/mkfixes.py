import subprocess, sys
R='/work/r-C20'; OUT='/work/v-C20/notes/C20'
def sh(*a): return subprocess.run(a, cwd=R, check=True, capture_output=True, text=True).stdout
FIX = {}
rf='bumble/rfcomm.py'; hf='bumble/hfp.py'
FIX[1]=[(rf,'''    def on_disc_frame(self, _frame: RFCOMM_Frame) -> None:
        # TODO: handle all states
        self.send_frame(RFCOMM_Frame.ua(c_r=1 - self.c_r, dlci=self.dlci))
''','''    def on_disc_frame(self, _frame: RFCOMM_Frame) -> None:
        # TODO: handle all states
        self.send_frame(RFCOMM_Frame.ua(c_r=1 - self.c_r, dlci=self.dlci))
        if self.state == DLC.State.CONNECTED:
            # The peer closed the DLC: this end is disconnected too
            self.change_state(DLC.State.DISCONNECTED)
            self.multiplexer.on_dlc_disconnection(self)
            self.emit(self.EVENT_CLOSE)
''')]
FIX[2]=[(rf,'''        self._sink = sink
        # Dump queued packets to sink
        if sink:
            for packet in self._enqueued_rx_packets:
                sink(packet)  # pylint: disable=not-callable
            self._enqueued_rx_packets.clear()
''','''        self._sink = sink
        # Dump queued packets to sink
        if sink:
            had_queued_packets = len(self._enqueued_rx_packets) > 0
            for packet in self._enqueued_rx_packets:
                sink(packet)  # pylint: disable=not-callable
            self._enqueued_rx_packets.clear()
            if had_queued_packets:
                # Release the rx credits that were held back while packets were queued
                self.process_tx()
'''),(rf,'''    def rx_credits_needed(self) -> int:
        if self.rx_credits <= self.rx_credits_threshold:
''','''    def rx_credits_needed(self) -> int:
        if self._enqueued_rx_packets:
            # Flow control: no new credits while received packets wait for a sink,
            # so that the (bounded) queue cannot overflow
            return 0

        if self.rx_credits <= self.rx_credits_threshold:
''')]
FIX[3]=[(hf,"import enum\nimport logging\nimport re\n","import enum\nimport inspect\nimport logging\nimport re\n"),(hf,'''            if handler := getattr(self, handler_name, None):
                handler(*command.parameters)
            else:
''','''            if handler := getattr(self, handler_name, None):
                try:
                    inspect.signature(handler).bind(*command.parameters)
                except TypeError:
                    logger.warning(
                        'Unexpected parameters %s for %s',
                        command.parameters,
                        handler_name,
                    )
                    self.send_error()
                    continue
                handler(*command.parameters)
            else:
''')]
FIX[4]=[(hf,'''        if operation not in self.supported_ag_call_hold_operations:
            logger.error(f'Unsupported operation: {operation_code.decode()}')
            self.send_cme_error(CmeError.OPERATION_NOT_SUPPORTED)

        if call_index is not None and not any(
            call.index == call_index for call in self.calls
        ):
            logger.error(f'No matching call {call_index}')
            self.send_cme_error(CmeError.INVALID_INDEX)
''','''        if operation not in self.supported_ag_call_hold_operations:
            logger.error(f'Unsupported operation: {operation_code.decode()}')
            self.send_cme_error(CmeError.OPERATION_NOT_SUPPORTED)
            return

        if call_index is not None and not any(
            call.index == call_index for call in self.calls
        ):
            logger.error(f'No matching call {call_index}')
            self.send_cme_error(CmeError.INVALID_INDEX)
            return
'''),(hf,'''        if (
            int(mode) != 3
            or (keypad and int(keypad))
            or (display and int(display))
            or int(indicator) not in (0, 1)
        ):
            logger.error(
                f'Unexpected values: mode={mode!r}, keypad={keypad!r}, '
                f'display={display!r}, indicator={indicator!r}'
            )
            self.send_cme_error(CmeError.INVALID_INDEX)

        self.indicator_report_enabled = bool(int(indicator))
        self.send_ok()
''','''        # An omitted <ind> defaults to 0 (3GPP TS 27.007, 8.10)
        indicator_value = int(indicator) if indicator else 0
        if (
            int(mode) != 3
            or (keypad and int(keypad))
            or (display and int(display))
            or indicator_value not in (0, 1)
        ):
            logger.error(
                f'Unexpected values: mode={mode!r}, keypad={keypad!r}, '
                f'display={display!r}, indicator={indicator!r}'
            )
            self.send_cme_error(CmeError.INVALID_INDEX)
            return

        self.indicator_report_enabled = bool(indicator_value)
        self.send_ok()
''')]
FIX[5]=[(hf,"self._remained_slc_setup_features.remove(HfFeature.THREE_WAY_CALLING)","self._remained_slc_setup_features.discard(HfFeature.THREE_WAY_CALLING)"),
        (hf,"self._remained_slc_setup_features.remove(HfFeature.HF_INDICATORS)","self._remained_slc_setup_features.discard(HfFeature.HF_INDICATORS)")]
FIX[6]=[(hf,'''                if indicator in self.hf_indicators:
                    self.hf_indicators[indicator].enabled = True
''','''                if indicator in self.hf_indicators:
                    self.hf_indicators[indicator].enabled = enabled
''')]
FIX[7]=[(hf,'''        for indicator in self.hf_indicators:
            self.send_response(f'+BIND: {indicator.value},1')
''','''        for indicator, state in self.hf_indicators.items():
            self.send_response(
                f'+BIND: {indicator.value},{1 if state.enabled else 0}'
            )
'''),(hf,'''                indicator: HfIndicatorState(indicator=indicator)
                for indicator in self.supported_hf_indicators.intersection(
                    peer_supported_indicators
                )''','''                # Indicators supported by both sides are enabled (see _on_bind_read)
                indicator: HfIndicatorState(
                    indicator=indicator, supported=True, enabled=True
                )
                for indicator in self.supported_hf_indicators.intersection(
                    peer_supported_indicators
                )''')]
def apply(ns):
    sh('git','checkout','--','.')
    for n in ns:
        for (f,old,new) in FIX[n]:
            p=f'{R}/{f}'; s=open(p).read(); assert s.count(old)==1,(n,old[:40]); open(p,'w').write(s.replace(old,new))
if __name__=='__main__':
    if sys.argv[1]=='diffs':
        for n in FIX:
            apply([n]); open(f'{OUT}/fix-{n}.diff','w').write(sh('git','diff'))
        apply(list(FIX)); open(f'{OUT}/fix-all.diff','w').write(sh('git','diff'))
    elif sys.argv[1]=='apply':
        apply([int(x) for x in sys.argv[2:]] or list(FIX))
    elif sys.argv[1]=='clean':
        sh('git','checkout','--','.')
