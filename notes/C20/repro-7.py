"""Defect 7: AgProtocol._on_bind_read reports every HF indicator as enabled ("+BIND: n,1") while its own
hf_indicators[n].enabled is False: the two ends hold different views (obligation AgProtocol._on_bind_read/post#reports-own-state-then-OK).
exit 1 = defect present."""
import re
import sys

from _link import FakeDlc
from bumble import hfp

dlc = FakeDlc()
ag = hfp.AgProtocol(dlc, hfp.AgConfiguration(supported_ag_features=[hfp.AgFeature.HF_INDICATORS], supported_ag_indicators=[hfp.AgIndicatorState.call()],
                                             supported_hf_indicators=[hfp.HfIndicator.ENHANCED_SAFETY, hfp.HfIndicator.BATTERY_LEVEL],
                                             supported_ag_call_hold_operations=[], supported_audio_codecs=[]))
for line in (b'AT+BRSF=256\r', b'AT+BIND=1,2\r', b'AT+BIND?\r'):
    ag._read_at(line)
reported = {int(m.group(1)): m.group(2) == '1' for m in (re.match(r'\r\n\+BIND: (\d+),(\d)\r\n', l) for l in dlc.lines) if m}
held = {int(i): s.enabled for i, s in ag.hf_indicators.items()}
print('reported to the HF:', reported, '| held by the AG:', held)
sys.exit(0 if reported == held and reported else 1)
