"""Defect 4: _on_chld and _on_cmer go on after sending +CME ERROR/ERROR and send OK as well (two or three final result codes
for one command); AT+CMER with the <ind> parameter omitted raises ValueError (int(b'')) before any final result
(obligations _read_at@_on_chld/inv-preserved#0#loop0, _read_at@_on_cmer/inv-preserved#0#loop0, _read_at@_on_cmer/exc#ValueError).
exit 1 = defect present."""
import sys

from _link import FakeDlc, finals
from bumble import hfp

bad = 0
for line in (b'AT+CHLD=2\r', b'AT+CHLD=13\r', b'AT+CMER=1,0,0,1\r', b'AT+CMER=3\r', b'AT+CMER=3,0,0\r', b'AT+CMER=3,0,0,1\r'):
    dlc = FakeDlc()
    ag = hfp.AgProtocol(dlc, hfp.AgConfiguration(supported_ag_features=[hfp.AgFeature.THREE_WAY_CALLING], supported_ag_indicators=[hfp.AgIndicatorState.call()],
                                                 supported_hf_indicators=[], supported_ag_call_hold_operations=[hfp.CallHoldOperation.RELEASE_ALL_HELD_CALLS],
                                                 supported_audio_codecs=[]))
    try:
        ag._read_at(line)
        exc = None
    except Exception as e:  # noqa: BLE001
        exc = e
    f = finals(dlc.lines)
    print(line, '->', 'exception ' + repr(exc) if exc else '', 'final results:', f)
    if exc is not None or len(f) != 1:
        bad += 1
sys.exit(1 if bad else 0)
