#!/bin/bash
# usage: mutant.sh <file-in-repo> <python-regex-or-literal old> <new> <only-substr> [prop-check-args]
# applies ONE literal replacement (must match exactly once) in /work/r-C20, runs the check, reverts.
R=/work/r-C20
F="$1"; OLD="$2"; NEW="$3"; ONLY="$4"
cd $R && git checkout -- . || exit 9
python3 - "$R/$F" "$OLD" "$NEW" <<'PY' || exit 9
import sys
p, old, new = sys.argv[1:4]
s = open(p).read()
n = s.count(old)
if n != 1:
    print(f'mutant: pattern matches {n} times', file=sys.stderr); sys.exit(1)
open(p, 'w').write(s.replace(old, new))
PY
cd /work/v-C20 && VERIF_REPO=$R PYVC_PROCS=3 ./check C20 --no-evidence --only "$ONLY" 2>&1 | grep -v 'conda' | grep -E 'VIOLATION|UNDECIDED|CHECKER|exit=' | cut -c1-260 | head -${LINES_MAX:-8}
cd $R && git checkout -- .
