#!/bin/bash
# usage: mutant.sh <file-in-repo> <literal old> <literal new> <only-substr>
# scratch tree /work/r-C20: clean -> all candidate fixes (notes/C20/fix-all.diff) -> ONE literal replacement (must match
# exactly once) -> check restricted to the contracts named by <only-substr> -> clean again.
R=/work/r-C20
F="$1"; OLD="$2"; NEW="$3"; ONLY="$4"
cd $R && git checkout -- . && git apply /work/v-C20/notes/C20/fix-all.diff || exit 9
python3 - "$R/$F" "$OLD" "$NEW" <<'PY' || { cd $R; git checkout -- .; exit 9; }
import sys
p, old, new = sys.argv[1:4]
s = open(p).read()
n = s.count(old)
if n != 1:
    print(f'mutant: pattern matches {n} times', file=sys.stderr); sys.exit(1)
open(p, 'w').write(s.replace(old, new))
PY
cd /work/v-C20 && VERIF_REPO=$R PYVC_PROCS=3 ./check C20 --no-evidence --only "$ONLY" 2>&1 | grep -v 'conda' | grep -E 'VIOLATION|UNDECIDED|CHECKER|exit=' | cut -c1-230 | head -${LINES_MAX:-4}
cd $R && git checkout -- .
