"""Defect 1: DLC.on_disc_frame ignores the state -- after one end closes a data link the other end stays CONNECTED and
registered in its multiplexer (obligation DLC.on_disc_frame/post#connected->disconnected).  exit 1 = defect present."""
import asyncio
import sys

from _link import open_pair, settle
from bumble import rfcomm


async def main():
    a, b, ma, mb = await open_pair()
    assert a.state == b.state == rfcomm.DLC.State.CONNECTED
    closed = []
    b.on('close', lambda: closed.append(1))
    await asyncio.wait_for(a.disconnect(), 2)
    await settle()
    print('initiator:', a.state.name, 'dlcs', list(ma.dlcs), '| acceptor:', b.state.name, 'dlcs', list(mb.dlcs), 'close events', len(closed))
    ok = b.state == rfcomm.DLC.State.DISCONNECTED and a.state == rfcomm.DLC.State.DISCONNECTED and not mb.dlcs and not ma.dlcs and len(closed) == 1
    return 0 if ok else 1


sys.exit(asyncio.run(main()))
