"""Defect 5: AT+BIND? / AT+CHLD=? outside the first pass of the SLC set-up (or when the HF did not announce the feature in
AT+BRSF) send OK and then raise KeyError from set.remove() out of the DLC sink: the exception skips the credit
bookkeeping of DLC.on_uih_frame (obligations _read_at@_on_chld_test/exc#KeyError, _read_at@_on_bind_read/exc#KeyError).
exit 1 = defect present."""
import sys

from _link import FakeDlc, finals
from bumble import hfp

bad = 0
for lines in ((b'AT+BRSF=0\r', b'AT+CHLD=?\r'), (b'AT+BRSF=0\r', b'AT+BIND?\r'), (b'AT+BRSF=767\r', b'AT+BIND?\r', b'AT+BIND?\r')):
    dlc = FakeDlc()
    ag = hfp.AgProtocol(dlc, hfp.AgConfiguration(supported_ag_features=[hfp.AgFeature.THREE_WAY_CALLING, hfp.AgFeature.HF_INDICATORS],
                                                 supported_ag_indicators=[hfp.AgIndicatorState.call()], supported_hf_indicators=[hfp.HfIndicator.BATTERY_LEVEL],
                                                 supported_ag_call_hold_operations=[], supported_audio_codecs=[]))
    exc = None
    for line in lines:
        try:
            ag._read_at(line)
        except Exception as e:  # noqa: BLE001
            exc = e
    f = finals(dlc.lines)
    print(lines, '->', 'exception ' + repr(exc) if exc else '', 'final results:', len(f))
    if exc is not None or len(f) != len(lines):
        bad += 1
sys.exit(1 if bad else 0)
