"""Defect 3: an AT command with a number of parameters its handler does not accept raises TypeError out of
AgProtocol._read_at before any final result code is sent (obligations AgProtocol._read_at@_on_*/exc#TypeError).
exit 1 = defect present."""
import sys

from _link import FakeDlc, finals
from bumble import hfp

bad = 0
for line in (b'AT+BRSF=1,2\r', b'AT+BRSF=\r', b'AT+CHUP=1\r', b'AT+VGS=\r', b'AT+BIEV=1\r', b'AT+CMER=3,0,0,1,5\r', b'AT+CIND?1\r'):
    dlc = FakeDlc()
    ag = hfp.AgProtocol(dlc, hfp.AgConfiguration(supported_ag_features=[], supported_ag_indicators=[hfp.AgIndicatorState.call()], supported_hf_indicators=[],
                                                 supported_ag_call_hold_operations=[], supported_audio_codecs=[]))
    try:
        ag._read_at(line)
        exc = None
    except Exception as e:  # noqa: BLE001
        exc = e
    f = finals(dlc.lines)
    print(line, '->', 'exception ' + repr(exc) if exc else '', 'final results:', f)
    if exc is not None or len(f) != 1:
        bad += 1
sys.exit(1 if bad else 0)
