"""Defect 2: the receive queue of a DLC without sink is bounded (deque(maxlen=32)) but credits keep being granted, so a peer
that respects its credits overflows it and the oldest bytes are silently dropped: bytes received != bytes written
(obligations DLC.process_tx/inv-entry#11 'credits granted while packets wait', DLC.sink/post#withheld-credits-released).
exit 1 = defect present."""
import asyncio
import sys

from _link import open_pair, settle


async def main():
    a, b, ma, mb = await open_pair(max_frame_size=30, initial_credits=7)
    written = b''
    for i in range(60):  # 60 frames of 20 bytes, the acceptor has no sink yet
        chunk = bytes([i]) * 20
        written += chunk
        a.write(chunk)
        await settle(20)
    got = bytearray()
    b.sink = got.extend  # the application attaches its sink late
    await settle()
    print(f'written {len(written)} bytes, received {len(got)} bytes, still waiting at the sender {len(a.tx_buffer)}')
    # exact stream: what was received is a prefix of what was written, and the rest still waits at the sender
    ok = bytes(got) + a.tx_buffer == written or (written.startswith(bytes(got)) and len(got) + len(a.tx_buffer) == len(written))
    if ok:
        # and the transfer completes once the sink is there
        await settle(2000)
        ok = bytes(got) == written
        print('after draining: received', len(got))
    return 0 if ok else 1


sys.exit(asyncio.run(main()))
