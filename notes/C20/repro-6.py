"""Defect 6: HfProtocol.initiate_slc stores enabled=True for every HF indicator listed by +BIND?, whatever value the AG
reported (obligation HfProtocol.initiate_slc/post#enabled-as-reported).  exit 1 = defect present."""
import asyncio
import sys

from _link import FakeDlc
from bumble import hfp

HFI = hfp.HfIndicator


async def main():
    dlc = FakeDlc()
    hf = hfp.HfProtocol(dlc, hfp.HfConfiguration(supported_hf_features=[hfp.HfFeature.HF_INDICATORS], supported_hf_indicators=[HFI.ENHANCED_SAFETY, HFI.BATTERY_LEVEL],
                                                 supported_audio_codecs=[hfp.AudioCodec.CVSD]))
    answers = {'AT+BRSF': ['+BRSF: %d' % hfp.AgFeature.HF_INDICATORS], 'AT+CIND=?': ['+CIND: ("call",(0,1))'], 'AT+CIND?': ['+CIND: 0'], 'AT+CMER': [],
               'AT+BIND=?': ['+BIND: (1,2)'], 'AT+BIND?': ['+BIND: 1,0', '+BIND: 2,1'], 'AT+BIND=': []}

    async def ag():
        seen = 0
        while True:
            await asyncio.sleep(0)
            if len(dlc.lines) > seen:
                cmd = dlc.lines[seen].strip()
                seen += 1
                key = max((k for k in answers if cmd.startswith(k)), key=len)
                for a in answers[key] + ['OK']:
                    hf._read_at(f'\r\n{a}\r\n'.encode())

    t = asyncio.create_task(ag())
    await asyncio.wait_for(hf.initiate_slc(), 5)
    t.cancel()
    got = {i.name: s.enabled for i, s in hf.hf_indicators.items()}
    print('AG reported ENHANCED_SAFETY disabled (0), BATTERY_LEVEL enabled (1); HF holds', got)
    return 0 if got == {'ENHANCED_SAFETY': False, 'BATTERY_LEVEL': True} else 1


sys.exit(asyncio.run(main()))
