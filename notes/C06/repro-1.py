"""C06 defect 1: LocalLink.send_acl_data names the sender's *random* address as the source of every LE ACL PDU.
A central that connected with its PUBLIC own address is stored at the peripheral under that public address, so the
peripheral's look-up (Controller.on_link_acl_data -> le_connections.get(sender_address)) finds nothing and every PDU
the central sends is dropped ("!!! no connection for ..."); the reverse direction still works.

Exit 1 with the defect (the peripheral never receives the central's payload), 0 without.
Run:  PYTHONPATH=<repo> python notes/C06/repro-1.py
"""
import asyncio
import sys

from bumble import hci
from bumble.controller import Controller
from bumble.device import Device
from bumble.host import Host
from bumble.link import LocalLink
from bumble.transport.common import AsyncPipeSink

FIXED_CID = 0x40  # any fixed L2CAP channel: payloads go straight to the registered callback


async def barrier(n=30):
    for _ in range(n):
        await asyncio.sleep(0)


async def main():
    link = LocalLink()
    c0 = Controller('C0', link=link, public_address='F0:F0:F0:F0:F0:F0')
    c1 = Controller('C1', link=link, public_address='F1:F1:F1:F1:F1:F1')
    d0 = Device(address=hci.Address('F0:F0:F0:F0:F0:F0'), host=Host(c0, AsyncPipeSink(c0)))
    d1 = Device(address=hci.Address('F1:F1:F1:F1:F1:F1'), host=Host(c1, AsyncPipeSink(c1)))
    await d0.power_on()
    await d1.power_on()

    got = {0: [], 1: []}
    d0.l2cap_channel_manager.register_fixed_channel(FIXED_CID, lambda handle, pdu: got[0].append(bytes(pdu)))
    d1.l2cap_channel_manager.register_fixed_channel(FIXED_CID, lambda handle, pdu: got[1].append(bytes(pdu)))

    peripheral_connection = asyncio.get_running_loop().create_future()
    d1.once(d1.EVENT_CONNECTION, peripheral_connection.set_result)
    await d1.start_advertising(advertising_interval_min=1.0)
    # the central connects with its PUBLIC own address (the tests only ever use the default, RANDOM)
    conn0 = await d0.connect(d1.random_address, own_address_type=hci.OwnAddressType.PUBLIC)
    conn1 = await peripheral_connection
    print('central   :', conn0, ' self_address =', conn0.self_address)
    print('peripheral:', conn1, ' peer_address =', conn1.peer_address)

    d0.l2cap_channel_manager.send_pdu(conn0, FIXED_CID, b'central->peripheral')
    d1.l2cap_channel_manager.send_pdu(conn1, FIXED_CID, b'peripheral->central')
    await barrier()
    print('peripheral received:', got[1])
    print('central received   :', got[0])
    ok = got[1] == [b'central->peripheral'] and got[0] == [b'peripheral->central']
    print('OK' if ok else 'DEFECT: a PDU sent on the connection was not delivered to its peer')
    return 0 if ok else 1


if __name__ == '__main__':
    sys.exit(asyncio.run(main()))
