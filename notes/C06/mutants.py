"""C06 mutants: deliberate property-breaking edits of the real functions, applied one at a time to the scratch tree
(/work/r-C06 = /repo + notes/C06/fix-1.diff + fix-3.diff, on which `./check C06` exits 0) and checked with
`VERIF_REPO=/work/r-C06 ./check C06 --no-evidence --only <entry>`.  Each must end in exit 1 (or 2), never 0.

usage: python notes/C06/mutants.py [name ...]
"""
import os
import subprocess
import sys

REPO = '/work/r-C06'
VERIF = os.path.dirname(os.path.dirname(os.path.dirname(os.path.abspath(__file__))))

M = [
    # (name, file, old, new, --only filter, what it does)
    ('M01-handle-scan-skips-classic', 'bumble/controller.py',
     "                self.le_connections.values(),\n                self.classic_connections.values(),\n                self.sco_links.values(),",
     "                self.le_connections.values(),\n                self.sco_links.values(),",
     'allocate_connection_handle', 'allocate_connection_handle ignores the BR/EDR table: an LE and a BR/EDR connection may share a handle'),
    ('M02-handle-range-from-0', 'bumble/controller.py',
     "for handle in range(0x0001, 0xEFF + 1)", "for handle in range(0x0000, 0xEFF + 1)",
     'allocate_connection_handle', 'off by one: handle 0 (the placeholder of pending BR/EDR links) can be allocated'),
    ('M03-bystander-accepts', 'bumble/controller.py',
     "            self.le_legacy_advertiser.address == packet.advertiser_address\n            and self.le_legacy_advertiser.enabled",
     "            self.le_legacy_advertiser.enabled",
     'on_le_connect_ind', 'any enabled legacy advertiser accepts a CONNECT_IND, whatever advertiser address it names'),
    ('M04-disabled-advertiser-accepts', 'bumble/controller.py',
     "            self.le_legacy_advertiser.address == packet.advertiser_address\n            and self.le_legacy_advertiser.enabled",
     "            self.le_legacy_advertiser.address == packet.advertiser_address",
     'on_le_connect_ind', 'a device that stopped advertising still accepts'),
    ('M05-peripheral-own-address-wrong', 'bumble/controller.py',
     "            role=hci.Role.PERIPHERAL,\n            self_address=packet.advertiser_address,",
     "            role=hci.Role.PERIPHERAL,\n            self_address=self.random_address,",
     'on_le_connect_ind', 'the peripheral records its random address as own address although it advertised with the public one'),
    ('M06-central-keyed-by-own-address', 'bumble/controller.py',
     "        self.le_connections[peer_address] = connection\n        logger.debug(f'New CENTRAL connection handle",
     "        self.le_connections[self_address] = connection\n        logger.debug(f'New CENTRAL connection handle",
     'create_le_connection', 'wrong key: the central stores the connection under its own address'),
    ('M07-acl-delivered-on-wrong-table', 'bumble/controller.py',
     "        if transport == PhysicalTransport.LE:\n            connection = self.le_connections.get(sender_address)\n        else:\n            connection = self.classic_connections.get(sender_address)",
     "        if transport == PhysicalTransport.LE:\n            connection = self.classic_connections.get(sender_address)\n        else:\n            connection = self.le_connections.get(sender_address)",
     'on_link_acl_data', 'swapped branches: LE data is looked up in the BR/EDR table'),
    ('M08-find-by-peer-address', 'bumble/link.py',
     "                if connection.self_address == address:", "                if connection.peer_address == address:",
     'find_le_controller', 'routing by the wrong field: the controller that is connected TO that address is returned (the sender itself)'),
    ('M09-source-is-public-address', 'bumble/link.py',
     "                connection.self_address\n                if connection\n                else sender_controller.random_address",
     "                sender_controller.public_address\n                if connection\n                else sender_controller.random_address",
     'send_acl_data@le', 'the dual of defect 1: always the public address as LE source'),
    ('M10-sender-hears-itself', 'bumble/link.py',
     "            if c != sender_controller:", "            if c == sender_controller:",
     'send_advertising_pdu', 'the advertising PDU goes back to the sender only'),
    ('M11-disconnect-removes-wrong-entry', 'bumble/controller.py',
     "        del self.le_connections[connection.peer_address]\n\n    def create_le_connection",
     "        del self.le_connections[connection.self_address]\n\n    def create_le_connection",
     'on_le_disconnected', 'the entry is removed under the wrong key (KeyError or another connection is dropped)'),
    ('M12-terminate-from-peer-address', 'bumble/controller.py',
     "                sender_address=self.self_address,\n                receiver_address=self.peer_address,",
     "                sender_address=self.peer_address,\n                receiver_address=self.peer_address,",
     'Connection.send_ll_control_pdu', 'LL control PDUs name the peer as their sender: the receiver finds no connection, a disconnection is not reported to the other side'),
    ('M13-adv-report-without-data', 'bumble/controller.py',
     "                    event_type=hci.HCI_LE_Advertising_Report_Event.EventType.ADV_IND,\n                    address_type=pdu.advertiser_address.address_type,\n                    address=pdu.advertiser_address,\n                    data=pdu.data,",
     "                    event_type=hci.HCI_LE_Advertising_Report_Event.EventType.ADV_IND,\n                    address_type=pdu.advertiser_address.address_type,\n                    address=pdu.advertiser_address,\n                    data=pdu.data[:31],",
     'on_advertising_pdu@AdvInd', 'advertising data truncated to 31 bytes in the legacy report'),
    ('M14-connect-to-any-advertiser', 'bumble/controller.py',
     "        ) and pending_le_connection.peer_address == pdu.advertiser_address:",
     "        ):",
     'on_advertising_pdu@AdvInd', 'a pending LE Create Connection connects to whoever advertises first'),
    ('M15-classic-complete-keeps-handle-0', 'bumble/controller.py',
     "            if connection := self.classic_connections.get(peer_address):\n                connection.handle = connection_handle",
     "            if connection := self.classic_connections.get(peer_address):\n                pass",
     'on_classic_connection_complete', 'dropped assignment: the table entry keeps the placeholder handle 0 while the host is told the new handle'),
    ('M16-connect-le-any-central', 'bumble/device.py',
     "                and peer_address\n                in (connection.peer_address, connection.peer_resolvable_address)\n",
     "",
     'connect_le', 'connect_le resolved by any LE central connection, whatever its peer'),
    ('M17-connect-classic-any-peer', 'bumble/device.py',
     "                connection.transport == PhysicalTransport.BR_EDR\n                and connection.peer_address == peer_address\n            ):\n                pending_connection.set_result(connection)\n\n        def on_connection_failure(error: core.ConnectionError):\n            if (\n                # match BR/EDR connection failure event against peer address",
     "                connection.transport == PhysicalTransport.BR_EDR\n            ):\n                pending_connection.set_result(connection)\n\n        def on_connection_failure(error: core.ConnectionError):\n            if (\n                # match BR/EDR connection failure event against peer address",
     'connect_classic', 'connect_classic resolved by any BR/EDR connection'),
    ('M18-lmp-to-le-controller', 'bumble/link.py',
     "        if not (receiver_controller := self.find_classic_controller(receiver_address)):\n            raise core.InvalidArgumentError(",
     "        if not (receiver_controller := self.find_le_controller(receiver_address)):\n            raise core.InvalidArgumentError(",
     'send_lmp_packet', 'LMP packets routed with the LE look-up'),
]


def run(name, file, old, new, only, what):
    path = os.path.join(REPO, file)
    src = open(path).read()
    if src.count(old) != 1:
        return name, 'NOT-APPLIED', f'pattern found {src.count(old)} times', what
    open(path, 'w').write(src.replace(old, new, 1))
    try:
        env = dict(os.environ, VERIF_REPO=REPO, PYVC_PROCS='3')
        p = subprocess.run(['./check', 'C06', '--no-evidence', '--only', only], cwd=VERIF, env=env, capture_output=True, text=True, timeout=1800)
        lines = [l.strip() for l in p.stdout.splitlines()]
        hits = [l.split('obligation ', 1)[1] for l in lines if l.startswith('obligation ')]
        hits += [l.split(': ', 1)[1].split(':')[0] for l in lines if l.startswith('UNDECIDED: ')]
        hits += [l for l in lines if l.startswith('CHECKER-ERROR')]
        return name, p.returncode, '; '.join(h.replace('C06/', '') for h in hits[:3]), what
    finally:
        open(path, 'w').write(src)


if __name__ == '__main__':
    want = set(sys.argv[1:])
    for m in M:
        if want and m[0] not in want and m[0].split('-')[0] not in want:
            continue
        r = run(*m)
        print(f'| {r[0]} | {r[3]} | {r[1]} | {r[2]} |', flush=True)
