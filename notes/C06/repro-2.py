"""C06 defect 2 (finding): the scan-response data of an advertiser never reaches a scanner.
Controller.on_advertising_pdu builds the SCAN_RSP advertising report from the *advertising* data of the PDU
(`data=pdu.data`): the advertiser's scan-response data is stored by the controller
(on_hci_le_set_scan_response_data_command) but is not put on the virtual link at all.  The SCAN_RSP report is also
produced when scanning passively.

Exit 1 with the defect, 0 without.   Run:  PYTHONPATH=<repo> python notes/C06/repro-2.py
"""
import asyncio
import sys

from bumble import hci
from bumble.controller import Controller
from bumble.core import AdvertisingData
from bumble.device import Device
from bumble.host import Host
from bumble.link import LocalLink
from bumble.transport.common import AsyncPipeSink

ADV = bytes(AdvertisingData([(AdvertisingData.COMPLETE_LOCAL_NAME, b'adv-data')]))
RSP = bytes(AdvertisingData([(AdvertisingData.MANUFACTURER_SPECIFIC_DATA, b'\xff\xffscan-response')]))


def make(link, i):
    addr = ':'.join([f'F{i}'] * 6)
    c = Controller(f'C{i}', link=link, public_address=addr)
    return c, Device(address=hci.Address(addr), host=Host(c, AsyncPipeSink(c)))


async def scan(active):
    link = LocalLink()
    c0, advertiser = make(link, 0)
    c1, scanner = make(link, 1)
    await advertiser.power_on()
    await scanner.power_on()
    reports = []
    orig = c1.send_hci_packet

    def spy(packet):
        if isinstance(packet, hci.HCI_LE_Advertising_Report_Event):
            reports.extend((int(r.event_type), bytes(r.data)) for r in packet.reports)
        orig(packet)

    c1.send_hci_packet = spy
    advertiser.advertising_data = ADV
    advertiser.scan_response_data = RSP
    await scanner.start_scanning(active=active)
    await advertiser.start_advertising(advertising_interval_min=1.0)
    await asyncio.sleep(0.05)
    return reports


async def main():
    ADV_IND, SCAN_RSP = 0, 4
    bad = False
    for active in (True, False):
        reports = await scan(active)
        adv = [d for t, d in reports if t == ADV_IND]
        rsp = [d for t, d in reports if t == SCAN_RSP]
        print(f'active={active}: ADV_IND data {sorted(set(adv))}  SCAN_RSP data {sorted(set(rsp))}')
        if not adv or any(d != ADV for d in adv):
            bad = True
        if active and (not rsp or any(d != RSP for d in rsp)):
            print('  DEFECT: the scan response report does not carry the scan-response data')
            bad = True
        if not active and rsp:
            print('  DEFECT: a scan response is reported although scanning passively')
            bad = True
    return 1 if bad else 0


if __name__ == '__main__':
    sys.exit(asyncio.run(main()))
