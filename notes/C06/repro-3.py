"""C06 defect 3: the pending Device.connect_le is resolved by ANY 'connection' event of the device.
A device that advertises and, at the same time, has an outgoing LE connect pending (central and peripheral at once)
hands its caller the INCOMING connection: connect(B) returns a connection whose peer is C, in the peripheral role.

Three devices on one link.  A advertises and calls connect(B); B is not advertising (the connect stays pending);
C connects to A.  Exit 1 with the defect (connect(B) returned the connection to C), 0 without (connect(B) is still
pending after C connected, and completes with a connection to B once B advertises).
Run:  PYTHONPATH=<repo> python notes/C06/repro-3.py
"""
import asyncio
import sys

from bumble import hci
from bumble.controller import Controller
from bumble.device import Device
from bumble.host import Host
from bumble.link import LocalLink
from bumble.transport.common import AsyncPipeSink


def make(link, i):
    addr = ':'.join([f'F{i}'] * 6)
    c = Controller(f'C{i}', link=link, public_address=addr)
    return Device(address=hci.Address(addr), host=Host(c, AsyncPipeSink(c)))


async def main():
    link = LocalLink()
    a, b, c = make(link, 0), make(link, 1), make(link, 2)
    for d in (a, b, c):
        await d.power_on()

    await a.start_advertising(advertising_interval_min=1.0)
    pending = asyncio.ensure_future(a.connect(b.random_address))  # B does not advertise yet
    await asyncio.sleep(0.05)
    assert not pending.done()

    await c.connect(a.random_address)  # an incoming connection at A while A's own connect is pending
    await asyncio.sleep(0.05)

    if pending.done():
        conn = pending.result()
        print('connect(B) returned:', conn)
        wrong = conn.peer_address != b.random_address or conn.role != hci.Role.CENTRAL
        print('DEFECT: the caller of connect(B) was handed the incoming connection from C' if wrong else 'OK')
        return 1 if wrong else 0

    # not resolved by the incoming connection: it must still complete for B
    await b.start_advertising(advertising_interval_min=1.0)
    conn = await asyncio.wait_for(pending, 2.0)
    print('connect(B) returned:', conn)
    ok = conn.peer_address == b.random_address and conn.role == hci.Role.CENTRAL
    print('OK' if ok else 'DEFECT')
    return 0 if ok else 1


if __name__ == '__main__':
    sys.exit(asyncio.run(main()))
