#!/usr/bin/env python3
"""C19 defect 3 -- avctp.MessageAssembler.on_pdu reads a 2-byte profile identifier at offset 1 of CONTINUE and END
packets.  AVCTP 6.1 (figures 6.2/6.3; AOSP AVCT_HDR_LEN_CONT = AVCT_HDR_LEN_END = 1): only the single / start packet
carries the PID, continue / end packets have a one-octet header.  A message fragmented by a conforming peer is
therefore dropped ("PID does not match") -- or, when its bytes happen to equal the PID, delivered with two bytes
missing per fragment; a continue / end packet with fewer than 2 message bytes raises struct.error.

Obligations: C19/bumble.avctp:MessageAssembler.on_pdu/post#continue-extends-without-pid, post#complete-delivered-exact,
post#delivered-once-iff-single-or-complete, post#continue-kept-below-count, exc#error.
Usage: PYTHONPATH=<repo> python repro-3.py   -> exit 1 if the defect is present, 0 otherwise
"""
import logging
import struct
import sys

from bumble import avctp

logging.disable(logging.CRITICAL)


def fragment(label, c_r, ipid, pid, message, size):
    """AVCTP 6.1 sender: PID in the start packet only"""
    b0 = lambda ptype: label << 4 | ptype << 2 | c_r << 1 | ipid
    parts = [message[i : i + size] for i in range(0, len(message), size)] or [b'']
    if len(parts) == 1:
        return [bytes([b0(0)]) + struct.pack('>H', pid) + message]
    out = [bytes([b0(1), len(parts)]) + struct.pack('>H', pid) + parts[0]]
    for p in parts[1:-1]:
        out.append(bytes([b0(2)]) + p)
    out.append(bytes([b0(3)]) + parts[-1])
    return out


failures = []
for message, size in ((bytes(range(40)), 16), (b'\x11\x0e' * 12, 8), (bytes(range(17)), 16)):
    got = []
    assembler = avctp.MessageAssembler(lambda *a: got.append(a))
    try:
        for pdu in fragment(3, 1, 0, 0x110E, message, size):
            assembler.on_pdu(pdu)
    except Exception as e:  # noqa: BLE001
        failures.append(f'{len(message)} bytes in fragments of {size}: {e!r} escaped on_pdu')
        continue
    want = [(3, False, False, 0x110E, message)]
    if got != want:
        failures.append(f'{len(message)} bytes in fragments of {size}: delivered {[(g[0], g[3], g[4].hex()) for g in got]}, expected the whole message once')

for f in failures:
    print(f)
print('DEFECT' if failures else 'ok')
sys.exit(1 if failures else 0)
