#!/usr/bin/env python3
"""C19 finding -- sdp.Server keeps ONE `channel` and ONE `current_response` for all clients.

  (a) two clients connect (two L2CAP channels on the SDP PSM); the first one sends a request: the response is
      written to the channel of the client that connected LAST;
  (b) client 1 starts a transaction that needs continuation, client 2 makes a request of its own, client 1
      continues: client 1 receives the remainder of client 2's answer (or INVALID_CONTINUATION_STATE).

Obligations: C19/sdp_two_clients_response_channel/post#0, post#1; C19/sdp_two_clients_continuation_state/post#...
Usage: PYTHONPATH=<repo> python repro-4.py   -> exit 1 if the defect is present, 0 otherwise
"""
import logging
import sys

from bumble import sdp
from bumble.core import UUID

logging.disable(logging.CRITICAL)


class Channel:
    """what the server uses of an l2cap.ClassicChannel"""

    def __init__(self, name, mtu=48):
        self.name = name
        self.peer_mtu = mtu
        self.sink = None
        self.received = []

    def write(self, pdu):
        self.received.append(sdp.SDP_PDU.from_bytes(bytes(pdu)))


def record(handle, uuid, text):
    return [
        sdp.ServiceAttribute(sdp.SDP_SERVICE_RECORD_HANDLE_ATTRIBUTE_ID, sdp.DataElement.unsigned_integer_32(handle)),
        sdp.ServiceAttribute(sdp.SDP_SERVICE_CLASS_ID_LIST_ATTRIBUTE_ID, sdp.DataElement.sequence([sdp.DataElement.uuid(uuid)])),
        sdp.ServiceAttribute(0x0100, sdp.DataElement.text_string(text)),
    ]


server = sdp.Server(None)
server.service_records = {0x10001: record(0x10001, UUID('1101'), b'A' * 200), 0x10002: record(0x10002, UUID('1102'), b'B' * 200)}
all_attributes = sdp.DataElement.sequence([sdp.DataElement.unsigned_integer_32(0x0000FFFF)])


def attribute_request(tid, handle, continuation=bytes([0])):
    return bytes(sdp.SDP_ServiceAttributeRequest(transaction_id=tid, service_record_handle=handle, maximum_attribute_byte_count=0xFFFF,
                                                 attribute_id_list=all_attributes, continuation_state=continuation))


failures = []
c1, c2 = Channel('client 1'), Channel('client 2')
server.on_connection(c1)
server.on_connection(c2)

# (a) client 1 asks; who gets the answer?
c1.sink(attribute_request(1, 0x10001))
if not (len(c1.received) == 1 and len(c2.received) == 0):
    failures.append(f'(a) request from client 1: client 1 received {len(c1.received)} PDUs, client 2 received {len(c2.received)}')

# (b) interleaved transactions (read whatever channel the answers land on)
got = lambda: (c1.received + c2.received)
n0 = len(got())
full_1 = bytes(sdp.Server.get_service_attributes(server.service_records[0x10001], all_attributes.value))
c1.sink(attribute_request(2, 0x10001))
first = [p for p in got() if p.transaction_id == 2][0]
c2.sink(attribute_request(3, 0x10002))
c1.sink(attribute_request(4, 0x10001, first.continuation_state))
second = [p for p in got() if p.transaction_id == 4][0]
expected = full_1[len(first.attribute_list) : len(first.attribute_list) + 39]
if not (isinstance(second, sdp.SDP_ServiceAttributeResponse) and second.attribute_list == expected):
    what = second.attribute_list.hex() if isinstance(second, sdp.SDP_ServiceAttributeResponse) else second
    failures.append(f'(b) continuation of client 1 after a request of client 2: got {what}, expected {expected.hex()}')

for f in failures:
    print(f)
print('DEFECT' if failures else 'ok')
sys.exit(1 if failures else 0)
