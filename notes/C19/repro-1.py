#!/usr/bin/env python3
"""C19 defect 1 -- avdtp.Protocol.send_message: a message whose payload is exactly peer_mtu - 2 bytes is sent as a
SINGLE packet that carries only the first peer_mtu - 3 bytes, followed by a stray END packet with the last byte.
The receiving MessageAssembler delivers the truncated message.

Obligation: C19/bumble.avdtp:Protocol.send_message/inv-entry#5#loop0 (a single packet only if the whole payload fits).
Usage: PYTHONPATH=<repo> python repro-1.py   -> exit 1 if the defect is present, 0 otherwise
"""
import logging
import sys

from bumble import avdtp

logging.disable(logging.CRITICAL)


class Channel:
    def __init__(self, mtu):
        self.peer_mtu = mtu
        self.out = []

    def write(self, pdu):
        self.out.append(bytes(pdu))


bad = []
for mtu in (48, 64, 672):
    for n in (mtu - 4, mtu - 3, mtu - 2, mtu - 1, mtu, 3 * (mtu - 3), 3 * (mtu - 3) + 1):
        protocol = avdtp.Protocol.__new__(avdtp.Protocol)
        protocol.l2cap_channel = Channel(mtu)
        message = avdtp.Message()
        message.payload = bytes((i * 7 + 1) & 0xFF for i in range(n))
        message.message_type = avdtp.Message.MessageType.COMMAND
        message.signal_identifier = avdtp.SignalIdentifier(0x20)  # no registered subclass: payload is opaque
        protocol.send_message(5, message)
        packets = protocol.l2cap_channel.out
        delivered = []
        assembler = avdtp.MessageAssembler(lambda label, m: delivered.append((label, m.payload)))
        for packet in packets:
            assembler.on_pdu(packet)
        types = [(p[0] >> 2) & 3 for p in packets]
        ok = all(len(p) <= mtu for p in packets) and delivered == [(5, message.payload)]
        if not ok:
            bad.append((mtu, n, types, [len(d[1]) for d in delivered]))

for mtu, n, types, got in bad:
    print(f'peer_mtu={mtu} payload={n} bytes: packet types {types}, delivered payload lengths {got} (expected [{n}])')
print('DEFECT' if bad else 'ok')
sys.exit(1 if bad else 0)
