#!/usr/bin/env python3
"""C19 defect 4 -- sdp.Server.match_services returns a record as soon as ONE UUID of the search pattern is found in
it.  Core Vol 3 Part B 2.5.1 / 4.5.1 (and the statement of C19): a service search pattern matches a record only if
EVERY UUID of the pattern is contained in some attribute value of the record.

Obligations: C19/bumble.sdp:Server.match_services@concrete/post#matched-iff-both-uuids-contained (replayed),
             C19/bumble.sdp:Server.match_services@r1 and @r2 (unbounded pattern / attribute count)
Usage: PYTHONPATH=<repo> python repro-5.py   -> exit 1 if the defect is present, 0 otherwise
"""
import logging
import sys

from bumble import sdp
from bumble.core import UUID

logging.disable(logging.CRITICAL)
A, B, C = UUID('1101'), UUID('1105'), UUID('110A')


def record(handle, *uuids):
    return [
        sdp.ServiceAttribute(sdp.SDP_SERVICE_RECORD_HANDLE_ATTRIBUTE_ID, sdp.DataElement.unsigned_integer_32(handle)),
        sdp.ServiceAttribute(sdp.SDP_SERVICE_CLASS_ID_LIST_ATTRIBUTE_ID, sdp.DataElement.sequence([sdp.DataElement.uuid(u) for u in uuids])),
    ]


server = sdp.Server(None)
server.service_records = {1: record(1, A), 2: record(2, A, B), 3: record(3, B, C), 4: record(4, C)}


def search(*uuids):
    return sorted(server.match_services(sdp.DataElement.sequence([sdp.DataElement.uuid(u) for u in uuids])).keys())


failures = []
for pattern, want in (((A,), [1, 2]), ((A, B), [2]), ((B, A), [2]), ((A, C), []), ((B, C), [3]), ((A, B, C), [])):
    got = search(*pattern)
    if got != want:
        failures.append(f'pattern {[str(u) for u in pattern]}: matched records {got}, expected {want}')

for f in failures:
    print(f)
print('DEFECT' if failures else 'ok')
sys.exit(1 if failures else 0)
