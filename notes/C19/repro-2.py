#!/usr/bin/env python3
"""C19 defect 2 -- avdtp.MessageAssembler counts packets it does not accept (and forgets the start packet after a
reset), so a broken fragment sequence does not only discard its own message:

  (a) START of message A never terminated, then a complete fragmented message B (START, END): B is lost
      (reset() inside the START branch zeroes packet_count after it was incremented for this very packet);
  (b) a stray packet while idle (empty PDU, or a CONTINUE/END with another label), then a complete fragmented
      message B: B is lost (packet_count was incremented while idle; `if self.packet_count == 0` is a dead guard);
  (c) START(NOSP=3), a CONTINUE of *another* transaction label, END: the mislabelled packet is ignored but counted,
      so the END is packet number 3 and a message made of the first and last fragment only is delivered (corrupt).

Obligations: C19/bumble.avdtp:MessageAssembler.on_pdu/post#wf and post#stray-or-short-dropped.
Usage: PYTHONPATH=<repo> python repro-2.py   -> exit 1 if the defect is present, 0 otherwise
"""
import logging
import sys

from bumble import avdtp

logging.disable(logging.CRITICAL)
SINGLE, START, CONTINUE, END = 0, 1, 2, 3
SID = 0x20


def hdr(label, ptype, mtype=0):
    return label << 4 | ptype << 2 | mtype


def run(pdus):
    delivered = []
    assembler = avdtp.MessageAssembler(lambda label, m: delivered.append((label, bytes(m.payload))))
    for pdu in pdus:
        assembler.on_pdu(pdu)
    return delivered


B = [bytes([hdr(2, START), SID, 2]) + b'hello ', bytes([hdr(2, END)]) + b'world']
B_MSG = (2, b'hello world')
failures = []

got = run([bytes([hdr(1, START), SID, 3]) + b'AAAA'] + B)
if got != [B_MSG]:
    failures.append(f'(a) unterminated message, then a complete one: delivered {got}, expected {[B_MSG]}')

for name, stray in (('empty PDU', b''), ('CONTINUE of label 7', bytes([hdr(7, CONTINUE)]) + b'zz'), ('END of label 7', bytes([hdr(7, END)]) + b'zz')):
    got = run([stray] + B)
    if got != [B_MSG]:
        failures.append(f'(b) stray {name} while idle, then a complete message: delivered {got}, expected {[B_MSG]}')

got = run([bytes([hdr(1, START), SID, 3]) + b'first-', bytes([hdr(9, CONTINUE)]) + b'OTHER-', bytes([hdr(1, END)]) + b'last'])
if got != []:
    failures.append(f'(c) START(3), mislabelled CONTINUE, END: delivered {got}, expected nothing (a fragment is missing)')

for f in failures:
    print(f)
print('DEFECT' if failures else 'ok')
sys.exit(1 if failures else 0)
