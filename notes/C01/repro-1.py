"""C01 defect 1: the ISO Packet_Status_Flag is a 2-bit field in bits 14-15 of the SDU-length word (Core Vol 4 Part E
5.4.5), bumble reads/writes a 1-bit flag at bit 15: a well-formed ISO data packet whose flag is 0b01 ("possibly invalid
data") parses with packet_status_flag == 0 and does not re-serialise to the same bytes.

usage: PYTHONPATH=<tree> python notes/C01/repro-1.py     exit 1: defect present, 0: absent"""
import sys

from bumble import hci

# type 5, handle 0x000 / PB=0b10 (complete SDU) / TS=0, data load length 5,
# packet sequence number 7, ISO_SDU_Length 1, Packet_Status_Flag 0b01, one byte of SDU
raw = bytes([0x05, 0x00, 0x20, 0x05, 0x00, 0x07, 0x00, 0x01, 0x40, 0xAA])
pkt = hci.HCI_Packet.from_bytes(raw)
again = bytes(pkt)
ok = again == raw and pkt.packet_status_flag == 0b01
print('parsed packet_status_flag =', pkt.packet_status_flag, '(wire says 0b01)')
print('re-serialised', again.hex(), 'expected', raw.hex())
# the other direction: building the spec value 0b10 ("lost data") / 0b11 must not raise and must land in bits 14-15
try:
    built = bytes(hci.HCI_IsoDataPacket(connection_handle=0, data_total_length=4, iso_sdu_fragment=b'', pb_flag=2,
                                        packet_sequence_number=0, iso_sdu_length=0, packet_status_flag=2))
    ok = ok and built[-1] == 0x80
except Exception as e:  # noqa: BLE001
    print('building packet_status_flag=2 raised', repr(e))
    ok = False
sys.exit(0 if ok else 1)
