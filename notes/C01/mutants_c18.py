import os, subprocess
REPO='/work/r-C01'
M=[('att parse fields from offset 0','bumble/att.py',"instance = subclass(**HCI_Object.dict_from_bytes(pdu, 1, subclass.fields))","instance = subclass(**HCI_Object.dict_from_bytes(pdu, 0, subclass.fields))",'fields/att/ATT_Write_Request'),
   ('l2cap length field + 1','bumble/l2cap.py',"struct.pack('<BBH', self.code, self.identifier, len(self.payload))","struct.pack('<BBH', self.code, self.identifier, len(self.payload) + 1)",'fields/l2cap/L2CAP_Disconnection_Request'),
   ('smp cached payload keeps the code byte','bumble/smp.py',"        instance.payload = pdu[1:]\n        return instance","        instance.payload = pdu\n        return instance",'fields/smp/SMP_Pairing_Failed_Command'),
   ('sdp header little-endian on build','bumble/sdp.py',"struct.pack('>BHH', self.pdu_id, self.transaction_id, len(parameters))","struct.pack('<BHH', self.pdu_id, self.transaction_id, len(parameters))",'fields/sdp/SDP_ErrorResponse'),
   ('l2cap identifier taken from the length byte','bumble/l2cap.py','code, identifier, length = struct.unpack_from("<BBH", pdu)','code, length, identifier = struct.unpack_from("<BHB", pdu)','fields/l2cap/L2CAP_Echo_Request')]
def sh(c, **k): return subprocess.run(c, shell=True, capture_output=True, text=True, **k)
for name, f, old, new, only in M:
    sh(f'git -C {REPO} checkout -- .'); sh(f'git -C {REPO} apply /work/v-C01/notes/C01/fix-1.diff')
    p=f'{REPO}/{f}'; s=open(p).read(); assert s.count(old)==1, (name, s.count(old)); open(p,'w').write(s.replace(old,new))
    r=sh(f"./check C18 --no-evidence --only '{only}'", env=dict(os.environ, VERIF_REPO=REPO, PYVC_PROCS='3'), cwd='/work/v-C01')
    bad=next((l.strip() for l in r.stdout.splitlines() if l.startswith('    obligation') or l.startswith('UNDECIDED') or l.startswith('CHECKER')), '')
    print(f'{name} | {only} | exit {r.returncode} | {bad[:150]}', flush=True)
sh(f'git -C {REPO} checkout -- .'); sh(f'git -C {REPO} apply /work/v-C01/notes/C01/fix-1.diff')
