"""C01 mutants: deliberate breaking edits of the real functions, one at a time, in the scratch tree /work/r-C01
(on top of notes/C01/fix-1.diff).  usage: python notes/C01/mutants.py [name-substring]      (run from /work/v-C01)"""
import os
import subprocess
import sys

REPO = '/work/r-C01'
F = f'{REPO}/bumble/hci.py'

# (name, old text, new text, --only filter that selects lemmas able to see it)
MUTANTS = [
    ('M01 parse u24: pad with two zero bytes (off by one)', "padded = data[offset : offset + 3] + bytes([0])", "padded = data[offset : offset + 2] + bytes([0, 0])", 'cmd/HCI_Inquiry_Command'),
    ('M02 serialize s8 as unsigned', "return struct.pack('b', field_value)", "return struct.pack('B', field_value)", 'kind/int8s'),
    ('M03 array parse: item count byte not skipped', "                item_count = data[offset]\n                offset += 1\n", "                item_count = data[offset]\n", 'evt/HCI_Number_Of_Completed_Packets_Event'),
    ('M04 command header: length byte off by one', "struct.pack('<BHB', HCI_COMMAND_PACKET, self.op_code, len(parameters))", "struct.pack('<BHB', HCI_COMMAND_PACKET, self.op_code, len(parameters) + 1)", 'cmd/HCI_Disconnect_Command'),
    ('M05 event parse: surplus bytes kept', "parameters = packet[3 : 3 + parameters_length]", "parameters = packet[3:]", 'generic/event-surplus'),
    ('M06 LE meta event: fields parsed from offset 0', "event = cls(**HCI_Object.dict_from_bytes(parameters, 1, cls.fields))", "event = cls(**HCI_Object.dict_from_bytes(parameters, 0, cls.fields))", 'le/HCI_LE_Connection_Update_Complete_Event'),
    ('M07 ACL: PB flag masked to one bit', "        pb_flag = (h >> 12) & 3\n        bc_flag = (h >> 14) & 3\n", "        pb_flag = (h >> 12) & 1\n        bc_flag = (h >> 14) & 3\n", 'data/acl'),
    ('M08 address type read from the wrong byte', "address_type = AddressType(data[offset - 1])", "address_type = AddressType(data[offset])", 'le/HCI_LE_Connection_Complete_Event'),
    ('M09 status short form on success instead of error', "        if status != HCI_ErrorCode.SUCCESS:\n            # Don't parse further", "        if status == HCI_ErrorCode.SUCCESS:\n            # Don't parse further", 'rp/HCI_Read_BD_ADDR_Command'),
    ('M10 flag parser uses the opposite byte order', "class SpecableFlag(enum.IntFlag):\n    @classmethod\n    def type_spec(cls, size: int, byteorder: Literal['little', 'big'] = 'little'):\n        return {\n            'serializer': lambda x: x.to_bytes(size, byteorder),\n            'parser': lambda data, offset: (\n                offset + size,\n                cls(int.from_bytes(data[offset : offset + size], byteorder)),", "class SpecableFlag(enum.IntFlag):\n    @classmethod\n    def type_spec(cls, size: int, byteorder: Literal['little', 'big'] = 'little'):\n        return {\n            'serializer': lambda x: x.to_bytes(size, byteorder),\n            'parser': lambda data, offset: (\n                offset + size,\n                cls(int.from_bytes(data[offset : offset + size], 'big' if byteorder == 'little' else 'little')),", 'kind/int16u-little[SpecableFlag]'),
    ('M11 Command Complete: return parameters taken from offset 2', "return_parameters_bytes = parameters[3:]", "return_parameters_bytes = parameters[2:]", 'rp/HCI_Read_BD_ADDR_Command'),
    ('M12 symmetric: u16 big-endian in both directions', None, None, 'kind/int16u-little[2]'),
    ('M13 unknown opcode: parameters dropped', "return HCI_Command(parameters, op_code=op_code)", "return HCI_Command(b'', op_code=op_code)", 'generic/unknown-command'),
    ('M14 length-prefixed: length byte counts the prefix', "return bytes([len(data)]) + data + padding", "return bytes([prefixed_size]) + data + padding", 'cmd/HCI_LE_Set_Advertising_Data_Command'),
    ('M15 array serialise: count taken from the last column', "item_count = len(hci_object[object_field[0][0]])", "item_count = len(hci_object[object_field[-1][0]]) - 1", 'evt/HCI_Number_Of_Completed_Packets_Event'),
    ('M16 SCO: packet status not shifted', "h = (self.packet_status << 12) | self.connection_handle", "h = (self.packet_status << 11) | self.connection_handle", 'data/sco'),
    ('M17 CodingFormat: vendor id parsed signed', "            '<BHH', data, offset\n", "            '<BHh', data, offset\n", 'kind/coding'),
    ('M18 variable-length field: length byte included in the value', "                offset += 1\n                field_value = data[offset : offset + field_length]\n                return (field_value, field_length + 1)", "                field_value = data[offset : offset + field_length + 1]\n                return (field_value, field_length + 1)", 'kind/var'),
    ('M19 ext scan parameters: row stride 4 instead of 5', "scan_types.append(parameters[3 + (5 * i)])", "scan_types.append(parameters[3 + (4 * i)])", 'Set_Extended_Scan_Parameters_Command/fields[phys_bits=2]'),
    ('M20 ISO: time stamp read as 16 bits', "time_stamp, *_ = struct.unpack_from('<I', packet, pos)", "time_stamp, *_ = struct.unpack_from('<H', packet, pos)", 'data/iso'),
]


def sh(cmd, **kw):
    return subprocess.run(cmd, shell=True, capture_output=True, text=True, **kw)


def reset():
    sh(f'git -C {REPO} checkout -- .')
    r = sh(f'git -C {REPO} apply /work/v-C01/notes/C01/fix-1.diff')
    assert r.returncode == 0, r.stderr


def main():
    flt = sys.argv[1] if len(sys.argv) > 1 else ''
    rows = []
    for name, old, new, only in MUTANTS:
        if flt and flt not in name:
            continue
        reset()
        s = open(F).read()
        if old is None:  # M12: both directions
            for o, n in (("return (struct.unpack_from('<H', data, offset)[0], 2)", "return (struct.unpack_from('>H', data, offset)[0], 2)"), ("return struct.pack('<H', field_value)", "return struct.pack('>H', field_value)")):
                assert s.count(o) == 1, o
                s = s.replace(o, n)
        else:
            assert s.count(old) == 1, (name, s.count(old))
            s = s.replace(old, new)
        open(F, 'w').write(s)
        env = dict(os.environ, VERIF_REPO=REPO, PYVC_PROCS='3')
        r = sh(f"./check C01 --no-evidence --only '{only}'", env=env, cwd='/work/v-C01')
        last = r.stdout.strip().splitlines()[-1] if r.stdout.strip() else r.stderr[-300:]
        code = r.returncode
        first_bad = next((l.strip() for l in r.stdout.splitlines() if l.startswith('    obligation') or l.startswith('UNDECIDED') or l.startswith('CHECKER-ERROR')), '')
        rows.append((name, only, code, first_bad[:160]))
        print(f'{name} | {only} | exit {code} | {first_bad[:160]}', flush=True)
    reset()
    surv = [r for r in rows if r[2] == 0]
    print(f'{len(rows)} mutants, {len(surv)} survived')


if __name__ == '__main__':
    main()
