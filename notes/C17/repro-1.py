"""C17 repro 1: a malformed AT line wedges the HFP AT stream for good (both roles).

`HfProtocol._read_at` / `AgProtocol._read_at` parse the first complete line of `read_buffer` BEFORE removing it from the
buffer.  When the parser raises (AtParsingError, HfpProtocolError, UnicodeDecodeError) the line stays at the head of the
buffer; every later chunk finds the same line first and raises again: no later, well-formed line is ever processed.

Obligations: C17/bumble.hfp:HfProtocol._read_at/raises-*#1, C17/bumble.hfp:AgProtocol._read_at/raises-*#1
exit 1 = defect present, 0 = absent.   Run: PYTHONPATH=<repo> python repro-1.py
"""
import asyncio
import sys

from bumble import hfp


class Dlc:
    def __init__(self):
        self.written = []

    def write(self, data):
        self.written.append(data)


def hf():
    p = hfp.HfProtocol.__new__(hfp.HfProtocol)
    p.read_buffer = bytearray()
    p.pending_command = None
    p.response_queue = asyncio.Queue()
    p.unsolicited_queue = asyncio.Queue()
    return p


def ag():
    p = hfp.AgProtocol.__new__(hfp.AgProtocol)
    p.read_buffer = bytearray()
    p.dlc = Dlc()
    return p


def feed(p, data):
    try:
        p._read_at(data)
        return None
    except Exception as e:  # the DLC's caller chain ends in the transport's try/except
        return type(e).__name__


defects = []

# HF role: a response line with a quote after a regular character, then a well-formed unsolicited RING
for bad in (b'\r\n+CIND: a"b\r\n', b'\r\n+X\xff\r\n'):
    p = hf()
    first = feed(p, bad)
    second = feed(p, b'\r\nRING\r\n')
    got = p.unsolicited_queue.qsize()
    print(f'HF bad={bad!r}: first={first} second={second} queued={got} buffer={bytes(p.read_buffer)!r}')
    if first is None:
        print('  (the malformed line did not raise: witness no longer applies)')
    elif second is not None or got != 1:
        defects.append(('HF', bad))

# AG role: a line that is not an AT command, a line that does not decode, unbalanced parenthesis; then AT+CHUP
for bad in (b'HELLO\r', b'AT+X\xff\r', b'AT+BIND=(1\r'):
    p = ag()
    handled = []
    p._on_chup = lambda: handled.append('chup')
    first = feed(p, bad)
    second = feed(p, b'AT+CHUP\r')
    print(f'AG bad={bad!r}: first={first} second={second} handled={handled} buffer={bytes(p.read_buffer)!r}')
    if first is None:
        print('  (the malformed line did not raise: witness no longer applies)')
    elif second is not None or handled != ['chup']:
        defects.append(('AG', bad))

if defects:
    print('DEFECT: the AT stream is wedged after a malformed line:', defects)
    sys.exit(1)
print('ok: a well-formed line after a malformed one is processed')
sys.exit(0)
