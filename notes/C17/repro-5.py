"""C17 repro 5: when the sink of an LE credit based channel raises, the SDU that was being delivered stays in the reassembly
buffer, and the NEXT SDU -- however well-formed -- is thrown away as an "SDU overflow".

`LeCreditBasedChannel.on_pdu` resets in_sdu / in_sdu_length only after `self.sink(...)` returned.  On an enhanced ATT (EATT)
bearer the sink parses the SDU with ATT_PDU.from_bytes, which raises struct.error / IndexError / InvalidPacketError on a
malformed ATT PDU (contracts/c17_pdus.py).  K-frames have no start marker, so the stale buffer is only discovered by the next
frame: it is appended, the total exceeds the announced length, both are dropped.  The request after a malformed one is
never answered.

Obligation: C17/bumble.l2cap:LeCreditBasedChannel.on_pdu@raising-sink/raises-SinkFailure#1
exit 1 = defect present, 0 = absent.   Run: PYTHONPATH=<repo> python repro-5.py
"""
import sys

from bumble import att, l2cap


class Manager:
    def next_identifier(self, connection):
        return 1

    def send_control_frame(self, connection, cid, frame):
        pass


class Connection:
    handle = 1


ch = l2cap.LeCreditBasedChannel(
    manager=Manager(), connection=Connection(), psm=0x27, source_cid=0x40, destination_cid=0x41, mtu=64, mps=64, credits=10,
    peer_mtu=64, peer_mps=64, peer_credits=10, connected=True,
)
requests = []
ch.sink = lambda pdu: requests.append(att.ATT_PDU.from_bytes(pdu))  # what gatt_server / gatt_client install on an EATT bearer


def k_frame(sdu):
    return len(sdu).to_bytes(2, 'little') + sdu


try:
    ch.on_pdu(k_frame(b'\x0a'))  # ATT Read Request cut short: from_bytes raises
    print('the malformed PDU did not raise: witness no longer applies')
except Exception as e:  # noqa: BLE001
    print('malformed ATT PDU:', type(e).__name__, '-- in_sdu left behind:', ch.in_sdu)
ch.on_pdu(k_frame(bytes(att.ATT_Read_Request(attribute_handle=3))))  # a well-formed Read Request
ch.on_pdu(k_frame(bytes(att.ATT_Read_Request(attribute_handle=4))))
print('requests that reached the ATT layer:', [r.attribute_handle for r in requests])
if [r.attribute_handle for r in requests] != [3, 4]:
    print('DEFECT: the well-formed request following a malformed one is dropped')
    sys.exit(1)
print('ok: every well-formed request after the malformed one is delivered')
sys.exit(0)
