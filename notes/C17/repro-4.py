"""C17 repro 4: every RFCOMM frame whose delivery raises in the DLC sink is lost from the receive-credit ledger; after
rx_credits_threshold + 1 of them (17 with the defaults) the peer ends up with no credit and is never given one: the direction
peer -> us of the channel is dead.

`DLC.on_uih_frame` calls the sink first and only afterwards decrements `rx_credits` and runs `process_tx()` (which sends the
credit frame when the peer is at or below the threshold).  If the sink raises -- HFP's `_read_at` raises AtParsingError /
HfpProtocolError / UnicodeDecodeError on every malformed AT line, also with fix-1 applied -- both steps are skipped.  The
peer has spent a credit, the DLC still believes it holds it: each failure adds one to the gap.  Once the gap exceeds the
threshold, the peer reaches 0 credits while `rx_credits` is still above the threshold, so no credit frame is ever sent.

Obligations: C17/bumble.rfcomm:DLC.on_uih_frame@raising-sink/raises-SinkFailure#8, #9
exit 1 = defect present, 0 = absent.   Run: PYTHONPATH=<repo> python repro-4.py
"""
import asyncio
import sys

from bumble import hfp, rfcomm


class L2capChannel:
    peer_mtu = 1024


class Mux:
    role = rfcomm.Multiplexer.Role.RESPONDER
    l2cap_channel = L2capChannel()

    def __init__(self):
        self.frames = []

    def send_frame(self, frame):
        self.frames.append(frame)


async def main():
    mux = Mux()
    dlc = rfcomm.DLC(mux, dlci=2, tx_max_frame_size=128, tx_initial_credits=7, rx_max_frame_size=128, rx_initial_credits=7)
    dlc.state = rfcomm.DLC.State.CONNECTED

    # the audio gateway's AT reader as the sink (constructed without the SLC machinery): raises on a malformed line
    ag = hfp.AgProtocol.__new__(hfp.AgProtocol)
    ag.read_buffer = bytearray()
    ag.dlc = dlc
    ag._on_chup = lambda: None  # a well-formed AT+CHUP is accepted silently
    dlc.sink = ag._read_at

    peer = {'credits': 7, 'sent': 0}  # an honest peer: sends only while it holds a credit

    def send(line):
        if peer['credits'] == 0:
            return False
        peer['credits'] -= 1
        peer['sent'] += 1
        before = len(mux.frames)
        try:
            dlc.on_uih_frame(rfcomm.RFCOMM_Frame.uih(c_r=1, dlci=2, information=line))
        except Exception:  # noqa: BLE001  (ends in the transport's try/except)
            pass
        for f in mux.frames[before:]:
            if f.p_f == 1:
                peer['credits'] += f.information[0]
        return True

    send(b'AT+CHUP\r')  # steady state: the DLC replenishes the peer to 32
    print(f'steady state: DLC.rx_credits={dlc.rx_credits} peer holds {peer["credits"]}')
    for _ in range(dlc.rx_credits_threshold + 1):
        send(b'HELLO\r')  # not an AT command: _read_at raises HfpProtocolError
    print(f'after {dlc.rx_credits_threshold + 1} malformed lines: DLC.rx_credits={dlc.rx_credits} peer holds {peer["credits"]}')
    delivered = 0
    for _ in range(100):  # the peer goes on with well-formed commands
        if not send(b'AT+CHUP\r'):
            break
        delivered += 1
    print(f'well-formed commands the peer could still send: {delivered}; DLC.rx_credits={dlc.rx_credits} '
          f'(threshold {dlc.rx_credits_threshold}) peer holds {peer["credits"]}')
    if peer['credits'] == 0:
        print('DEFECT: the peer is out of credits and the DLC believes it still has enough: no credit frame will ever be sent')
        return 1
    print('ok: frames whose delivery raised are counted; the peer keeps being replenished')
    return 0


sys.exit(asyncio.run(main()))
