import subprocess, sys, os, re
R='/work/r-C17'
V='/work/v-C17'
M=[
 ('M1','bumble/hfp.py',"            self.read_buffer = self.read_buffer[trailer + 1 :]\n","            self.read_buffer = self.read_buffer[trailer:]\n",'AgProtocol._read_at','AG: the <cr> is not consumed (off by one)'),
 ('M2','bumble/att.py',"        while self.length != 0 and offset + self.length <= len(\n            self.attribute_data_list\n        ):\n            (attribute_handle,) = struct.unpack_from(","        while offset + self.length <= len(\n            self.attribute_data_list\n        ):\n            (attribute_handle,) = struct.unpack_from(",'ATT_PDU.from_bytes@any','Read By Type Response: zero length byte no longer guarded'),
 ('M3','bumble/att.py',"            self.handles_information.append((found_attribute_handle, group_end_handle))\n            offset += 4\n","            self.handles_information.append((found_attribute_handle, group_end_handle))\n            offset = 4\n",'ATT_PDU.from_bytes@any','Find By Type Value Response: offset assigned instead of advanced'),
 ('M4','bumble/l2cap.py',"            logger.error(color('Channel Manager command not handled???', 'red'))\n            self.send_control_frame(\n                connection,\n                cid,\n                L2CAP_Command_Reject(\n                    identifier=control_frame.identifier,","            logger.error(color('Channel Manager command not handled???', 'red'))\n            self.send_control_frame(\n                connection,\n                cid,\n                L2CAP_Command_Reject(\n                    identifier=0,",'on_control_frame','Command Reject with identifier 0 instead of the command\'s'),
 ('M5','bumble/l2cap.py',"        if cid in (L2CAP_SIGNALING_CID, L2CAP_LE_SIGNALING_CID):\n            # Parse the L2CAP payload into a Control Frame object","        if cid in (L2CAP_SIGNALING_CID,):\n            # Parse the L2CAP payload into a Control Frame object",'ChannelManager.on_pdu','LE signalling CID not treated as signalling'),
 ('M6','bumble/smp.py',"        except Exception:\n            logger.exception(color(\"!!! Exception in handler:\", \"red\"))\n            response = SMP_Pairing_Failed_Command","        except ValueError:\n            logger.exception(color(\"!!! Exception in handler:\", \"red\"))\n            response = SMP_Pairing_Failed_Command",'Session.on_smp_command','SMP: only ValueError contained'),
 ('M7','bumble/smp.py',"            self.sessions[connection.handle] = session\n\n        # Delegate the handling of the command to the session","            pass\n\n        # Delegate the handling of the command to the session",'Manager.on_smp_pdu','SMP: new responder session not registered'),
 ('M8','bumble/host.py',"            hci_packet = hci.HCI_Packet.from_bytes(packet)\n        except Exception:","            hci_packet = hci.HCI_Packet.from_bytes(packet)\n        except ValueError:",'Host.on_packet','Host.on_packet: only ValueError contained'),
# (M9: AdvertisingData.append loop bound -- the C17 entry was dropped in favour of C18's contract in contracts/c18_more.py)
 ('M10','bumble/sdp.py',"                logger.exception(color(\"!!! Exception in handler:\", \"red\"))\n                self.send_response(\n                    SDP_ErrorResponse(\n                        transaction_id=sdp_pdu.transaction_id,\n                        error_code=ErrorCode.INSUFFICIENT_RESOURCES_TO_SATISFY_REQUEST,\n                    )\n                )","                logger.exception(color(\"!!! Exception in handler:\", \"red\"))",'sdp:Server.on_pdu','SDP server: no error response when a handler fails'),
 ('M11','bumble/gatt_client.py',"                    logger.warning(\n                        f'!!! mismatched response: expected {expected_response_name}'\n                    )\n                    return\n","                    logger.warning(\n                        f'!!! mismatched response: expected {expected_response_name}'\n                    )\n",'Client.on_gatt_pdu','GATT client: mismatched response resolves the waiter'),
 ('M12','bumble/device.py',"        if att_pdu.op_code & 1:\n            if connection.gatt_client is None:","        if att_pdu.op_code & 2:\n            if connection.gatt_client is None:",'Device.on_gatt_pdu','ATT routing by the wrong bit'),
 ('M13','bumble/l2cap.py',"        if len(self.in_sdu) < 2:\n            # We'll compute it later","        if len(self.in_sdu) <= 2:\n            # We'll compute it later",'LeCreditBasedChannel.on_pdu','CoC: header-only buffer treated as incomplete (off by one)'),
 ('M14','bumble/hci.py',"            (l2cap_pdu_length,) = struct.unpack_from('<H', packet.data, 0)\n            self.current_data = packet.data\n","            (l2cap_pdu_length,) = struct.unpack_from('<H', packet.data, 0)\n            self.current_data = (self.current_data or b'') + packet.data\n",'feed_packet','ACL assembler: a start fragment appends to what was left'),
 ('M15','bumble/at.py',"                    if len(token) > 0:\n                        raise AtParsingError(\"quote following regular character\")","                    if len(token) > 0:\n                        raise RuntimeError(\"quote following regular character\")",'tokenize_parameters','tokenizer raises an undeclared class'),
 ('M16','bumble/rfcomm.py',"""                if self.rx_credits > 0:
                    self.rx_credits -= 1
                else:
                    logger.warning(
                        color('!!! received frame with no rx credits', 'red')
                    )

                if self._sink:
                    self._sink(data)  # pylint: disable=not-callable
                else:
                    self._enqueued_rx_packets.append(data)
""","""                if self._sink:
                    self._sink(data)  # pylint: disable=not-callable
                else:
                    self._enqueued_rx_packets.append(data)
                if self.rx_credits > 0:
                    self.rx_credits -= 1
                else:
                    logger.warning(
                        color('!!! received frame with no rx credits', 'red')
                    )
""",'on_uih_frame','DLC: credit counted after the sink again (inside the try)'),
 ('M17','bumble/sdp.py',"            self.pending_response.set_exception(error)\n            return\n","            return\n",'sdp:Client.on_pdu','SDP client: parse error swallowed, waiter not released'),
 ('M18','bumble/l2cap.py',"            except Exception:\n                logger.exception(color(\"!!! Exception in handler:\", \"red\"))\n                self.send_control_frame(\n                    connection,\n                    cid,\n                    L2CAP_Command_Reject(\n                        identifier=control_frame.identifier,\n                        reason=L2CAP_COMMAND_NOT_UNDERSTOOD_REASON,\n                        data=b'',\n                    ),\n                )\n                raise","            except Exception:\n                logger.exception(color(\"!!! Exception in handler:\", \"red\"))\n                raise",'on_control_frame','L2CAP: no Command Reject when a handler fails'),
]
only = sys.argv[1:]
for mid, f, a, b, sel, desc in M:
    if only and mid not in only: continue
    p=os.path.join(R,f)
    s=open(p).read()
    if s.count(a)!=1:
        print(mid,'PATTERN-NOT-UNIQUE',s.count(a)); continue
    open(p,'w').write(s.replace(a,b))
    try:
        r=subprocess.run(['./check','C17','--no-evidence','--only',sel],cwd=V,env=dict(os.environ,VERIF_REPO=R,PYVC_PROCS='3'),capture_output=True,text=True)
        out=r.stdout+r.stderr
        fails=sorted(set(re.findall(r'(?:obligation |UNDECIDED: |CHECKER-ERROR: )(C17/\S+|[^\n]{0,120})',out)))
        print(f'{mid} | {f} | {desc} | exit={r.returncode} | '+'; '.join(x.rstrip(':') for x in fails[:4]))
    finally:
        open(p,'w').write(s)
    sys.stdout.flush()
