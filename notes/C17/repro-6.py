"""C17 repro 6: one malformed SDP response leaves the SDP client's requester -- and the client's request semaphore -- waiting
for ever.

`sdp.Client.send_request` awaits `pending_response` without a time-out while holding `request_semaphore`.  `Client.on_pdu`
parses the server's bytes with SDP_PDU.from_bytes outside any try block: for bytes that are not an SDP PDU the exception
leaves on_pdu (it ends in the transport's catch-all) and the future is never resolved.  The caller of search_services /
get_attributes / search_attributes hangs, and every later request on this client blocks on the semaphore.

Obligations: C17/bumble.sdp:Client.on_pdu/exc#error, exc#InvalidPacketError, exc#IndexError
exit 1 = defect present, 0 = absent.   Run: PYTHONPATH=<repo> python repro-6.py
"""
import asyncio
import sys

from bumble import core, sdp


class Channel:
    def __init__(self):
        self.written = []

    def write(self, data):
        self.written.append(data)


async def main():
    client = sdp.Client(connection=None)
    client.channel = Channel()
    request = asyncio.ensure_future(client.search_services([core.UUID.from_16_bits(0x1101)]))
    await asyncio.sleep(0)  # the request is on the wire, the requester waits
    assert client.pending_request is not None and len(client.channel.written) == 1

    try:
        client.on_pdu(b'\xff\x00\x00\x00\x00')  # the "response" of a hostile server: unknown PDU id
        escaped = None
    except Exception as e:  # noqa: BLE001  (ends in the transport's try/except)
        escaped = type(e).__name__
    done, _ = await asyncio.wait([request], timeout=0.5)
    print(f'on_pdu raised: {escaped}; requester finished: {bool(done)}; semaphore locked: {client.request_semaphore.locked()}')
    if not done:
        print('DEFECT: the requester is still waiting and the request semaphore is held: the SDP client is wedged')
        request.cancel()
        return 1
    print('requester released with', type(request.exception()).__name__)
    return 0


sys.exit(asyncio.run(main()))
