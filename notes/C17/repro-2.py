"""C17 repro 2: a K-frame whose SDU-length header is 0 wedges the receive side of an LE credit based channel for good.

`LeCreditBasedChannel.on_pdu` uses `in_sdu_length == 0` for "length not known yet".  A frame b'\\x00\\x00' (an empty SDU:
legal on the wire, and any peer can send it) leaves in_sdu == b'\\x00\\x00' with in_sdu_length == 0; every later frame is
appended behind it, the length is re-read from the same two zero bytes, and nothing is ever delivered again (the buffer
also grows without bound).

Obligation: C17/bumble.l2cap:LeCreditBasedChannel.on_pdu@any-frame/post#wf-known
exit 1 = defect present, 0 = absent.   Run: PYTHONPATH=<repo> python repro-2.py
"""
import sys

from bumble import l2cap


class Manager:
    def __init__(self):
        self.frames = []

    def next_identifier(self, connection):
        return 1

    def send_control_frame(self, connection, cid, frame):
        self.frames.append(frame)


class Connection:
    handle = 1


ch = l2cap.LeCreditBasedChannel(
    manager=Manager(), connection=Connection(), psm=0x80, source_cid=0x40, destination_cid=0x41, mtu=64, mps=64, credits=10,
    peer_mtu=64, peer_mps=64, peer_credits=10, connected=True,
)
got = []
ch.sink = got.append

ch.on_pdu(b'\x00\x00')  # hostile (or merely unusual): SDU length 0
ch.on_pdu(b'\x02\x00hi')  # well-formed SDU "hi"
ch.on_pdu(b'\x02\x00yo')  # well-formed SDU "yo"
print('delivered:', got, ' in_sdu:', ch.in_sdu, ' in_sdu_length:', ch.in_sdu_length)
if got[-2:] != [b'hi', b'yo']:
    print('DEFECT: SDUs sent after a zero-length SDU header are never delivered')
    sys.exit(1)
print('ok: the channel keeps delivering after a zero-length SDU')
sys.exit(0)
