"""C17 repro 3: sdp.Server.on_pdu falls through after a parse failure and raises UnboundLocalError.

The `except Exception` block that answers an unparseable request with an Error Response does not return: execution continues
with `sdp_pdu` unbound, and UnboundLocalError (a programming error, not a protocol error) escapes the handler that was written
to contain every exception.  The peer does get its Error Response; the exception travels up through the L2CAP channel, the
ACL assembler (left holding the completed PDU) and Host.on_packet to the transport's catch-all.

Obligation: C17/bumble.sdp:Server.on_pdu/exc#UnboundLocalError
exit 1 = defect present, 0 = absent.   Run: PYTHONPATH=<repo> python repro-3.py
"""
import sys

from bumble import sdp


class Channel:
    def __init__(self):
        self.written = []

    def write(self, response):
        self.written.append(response)


server = sdp.Server(device=None)
server.channel = Channel()
escaped = None
for pdu in (b'', b'\x02', b'\xff\x00\x01\x00\x00'):  # empty, truncated header, unknown PDU id
    try:
        server.on_pdu(pdu)
    except Exception as e:  # noqa: BLE001
        escaped = e
        print(f'pdu={pdu!r}: {type(e).__name__}: {e}')
print('responses written:', len(server.channel.written), [type(r).__name__ for r in server.channel.written])
if escaped is not None:
    print('DEFECT: an exception escapes sdp.Server.on_pdu for a request that does not parse')
    sys.exit(1)
if len(server.channel.written) != 3:
    print('DEFECT: not exactly one response per request')
    sys.exit(1)
print('ok: each unparseable request is answered with one Error Response and nothing escapes')
sys.exit(0)
