"""C08 repro 2: with the FCS option enabled, ClassicChannel.on_pdu strips the two FCS octets of a received frame
without checking them: a frame whose payload was altered (FCS no longer matches) is handed to the mode processor and
reaches the application as if it were intact.

A real ClassicChannel (Basic mode, FCS on, OPEN) receives (1) a frame with the right FCS, (2) the same frame with one
payload bit flipped.  Exit status 1 = the damaged frame was delivered (defect), 0 = only the intact one was.

run:  PYTHONPATH=<bumble tree> python repro-2.py
"""
import struct
import sys
import types

from bumble import l2cap, utils

CID = 0x0041


def main():
    manager = types.SimpleNamespace(send_pdu=lambda *a, **k: None, extended_features=set())
    connection = types.SimpleNamespace(handle=1, peer_address='peer')
    channel = l2cap.ClassicChannel(manager, connection, l2cap.L2CAP_SIGNALING_CID, psm=0x1001, source_cid=CID,
                                   spec=l2cap.ClassicChannelSpec(psm=0x1001, fcs_enabled=True))
    channel.state = l2cap.ClassicChannel.State.OPEN
    delivered = []
    channel.sink = delivered.append

    sdu = b'hello, world'
    # what the sending side puts on the link for this SDU: L2CAP_PDU.to_bytes(with_fcs=True)
    frame = l2cap.L2CAP_PDU(CID, sdu).to_bytes(with_fcs=True)
    payload = l2cap.L2CAP_PDU.from_bytes(frame).payload          # what Host / ChannelManager.on_pdu hand to the channel
    assert payload[-2:] == struct.pack('<H', utils.crc_16(frame[:-2]))

    channel.on_pdu(payload)                                       # intact
    damaged = bytes([payload[0] ^ 0x01]) + payload[1:]            # one bit of the SDU flipped, FCS unchanged
    channel.on_pdu(damaged)

    print('delivered:', delivered)
    if delivered == [sdu]:
        return 0
    print('DEFECT: a frame with a wrong FCS was delivered' if len(delivered) == 2 else 'unexpected')
    return 1


if __name__ == '__main__':
    sys.exit(main())
