"""C08 repro 1: an ERTM sender whose retransmission timer fires (acknowledgements delayed by more than the
retransmission timeout, frames neither lost nor reordered) never resumes sending: its "receiver ready poll" is an
RR S-frame with P=0, F=1, which the peer does not answer, so the monitor timer stays armed and _process_output
returns early for ever.  The rest of the SDU is never delivered.

Two real EnhancedRetransmissionProcessor objects are wired back to back through a link that delays every frame by
`DELAY` seconds and preserves order.  Exit status 1 = SDU not delivered (defect), 0 = delivered intact.

run:  PYTHONPATH=<bumble tree> python repro-1.py
"""
import asyncio
import sys
import types

from bumble import l2cap

DELAY = 0.05          # one-way link delay
RETRANS = 0.02        # retransmission timeout of the sender (< round trip)
MONITOR = 0.02
WINDOW = 2
MPS = 10
SDU = bytes(range(200)) * 1   # 20 segments > window


class FakeChannel:
    """stands for ClassicChannel below the processor: send_pdu puts the frame on the link, on_sdu records delivery"""

    def __init__(self, name):
        self.name = name
        self.spec = types.SimpleNamespace(mps=MPS, monitor_timeout=MONITOR, retransmission_timeout=RETRANS)
        self.peer = None
        self.delivered = []
        self.sent = []

    def send_pdu(self, pdu):
        data = bytes(pdu)
        self.sent.append(data)
        asyncio.get_running_loop().call_later(DELAY, self.peer.processor.on_pdu, data)

    def on_sdu(self, sdu):
        self.delivered.append(sdu)


async def main():
    a, b = FakeChannel('a'), FakeChannel('b')
    a.peer, b.peer = b, a
    a.processor = l2cap.EnhancedRetransmissionProcessor(a, peer_tx_window_size=WINDOW, peer_max_retransmission=3, peer_mps=MPS)
    b.processor = l2cap.EnhancedRetransmissionProcessor(b, peer_tx_window_size=WINDOW, peer_max_retransmission=3, peer_mps=MPS)
    a.processor.send_sdu(SDU)
    await asyncio.sleep(3.0)
    ok = b.delivered == [SDU]
    print(f'delivered={len(b.delivered)} SDU(s), intact={ok}; sender: pending={len(a.processor._pending_pdus)} '
          f'window={len(a.processor._tx_window)} monitor_armed={a.processor._monitor_handle is not None}; '
          f'I-frames sent={sum(1 for f in a.sent if f[0] & 1 == 0)}, S-frames sent by a={[f.hex() for f in a.sent if f[0] & 1][:4]}')
    return 0 if ok else 1


if __name__ == '__main__':
    sys.exit(asyncio.run(main()))
