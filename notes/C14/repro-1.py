"""C14 defect 1: the built-in (pure Python) crypto back end computes an ECDH shared secret for a peer
"public key" that is not a point of P-256, where the `cryptography` back end raises ValueError.
A Security Manager peer controls these coordinates (SMP Pairing Public Key -> Session.on_smp_pairing_
public_key_command -> EccKey.dh): accepting them is the precondition of an invalid-curve attack, and the
two back ends disagree on the same input.

Run: PYTHONPATH=/repo /venv/bin/python notes/C14/repro-1.py     (exit 1: defect present, exit 0: absent)"""
import sys

from bumble.crypto import builtin
from bumble.crypto import cryptography as lib

P = 0xFFFFFFFF00000001000000000000000000000000FFFFFFFFFFFFFFFFFFFFFFFF
B = 0x5AC635D8AA3A93E7B3EBBD55769886BC651D06B0CC53B0F63BCE3C3E27D2604B
d = bytes.fromhex('3f49f6d4a3c55f3874c9b3e3d2103f504aff607beb40b7995899b8a6cd3c1abd')  # Core spec sample private key A


def on_curve(x, y):
    return (y * y - (x * x * x - 3 * x + B)) % P == 0


gx = 0x6B17D1F2E12C4247F8BCE6E563A440F277037D812DEB33A0F4A13945D898C296
gy = 0x4FE342E2FE1A7F9B8EE7EB4A7C0F9E162BCE33576B315ECECBB6406837BF51F5
bad_points = [
    (5, 7),  # small off-curve point
    (gx, gy ^ 1),  # the generator with one bit of y flipped
    (0, 0),
]
defect = False
for x, y in bad_points:
    assert not on_curve(x, y)
    xb, yb = x.to_bytes(32, 'big'), y.to_bytes(32, 'big')
    out = {}
    for name, backend in (('cryptography', lib), ('builtin', builtin)):
        try:
            out[name] = backend.EccKey.from_private_key_bytes(d).dh(xb, yb).hex()
        except Exception as e:  # noqa: BLE001
            out[name] = f'raises {type(e).__name__}'
    print(f'off-curve point x={x:#x} y={y:#x}:')
    for name, r in out.items():
        print(f'    {name:13s} {r}')
    if not out['builtin'].startswith('raises ValueError'):
        defect = True
# controls: both back ends agree on the generator, and on a point whose x coordinate is given unreduced
# (x0 + p still fits 32 bytes for a small x0; the curve equation holds modulo p and both back ends accept it)
x0 = next(x for x in range(1, 1000) if pow(x**3 - 3 * x + B, (P - 1) // 2, P) == 1)
y0 = pow(x0**3 - 3 * x0 + B, (P + 1) // 4, P)
assert on_curve(x0 + P, y0) and x0 + P < 1 << 256
for x, y in ((gx, gy), (x0 + P, y0)):
    ok = [backend.EccKey.from_private_key_bytes(d).dh(x.to_bytes(32, 'big'), y.to_bytes(32, 'big')) for backend in (lib, builtin)]
    assert ok[0] == ok[1], 'back ends disagree on a valid point'
print('DEFECT: built-in EccKey.dh produced a shared secret for a point that is not on P-256' if defect else 'ok: built-in EccKey.dh rejects every off-curve point with ValueError, like the cryptography back end')
sys.exit(1 if defect else 0)
