"""C14 strengthening (after the seeded misses C14-2 / C14-3): the two seeded changes and further mutants of the
functions newly put under contract, applied one at a time to the scratch tree /work/r-S1; each must make
`./check C14 --only <entry>` end with exit 1 or 2 (never 0).
Run from /work/v-S1:  .venv/bin/python notes/C14/mutants_s1.py [name ...]"""
import os
import subprocess
import sys

R = os.environ.get('SCRATCH', '/work/r-S1')
HERE = os.path.dirname(os.path.dirname(os.path.dirname(os.path.abspath(__file__))))
B = 'bumble/crypto/builtin.py'
S = 'bumble/smp.py'
MUTANTS = {
    # name: (file | patch, old, new, --only filter, what)
    'seeded-C14-2': ('seeded/C14-2/patch.diff', None, None, 'ecdh_shared_secret', 'ECDH secret encoded with its minimal byte length'),
    'seeded-C14-3': ('seeded/C14-3/patch.diff', None, None, 'AddressResolver.resolve,resolve_is_stateless', 'resolver cache keyed by prand only'),
    'ecdh-little-endian': (B, "return shared_point_affine.x.to_bytes(32, 'big')", "return shared_point_affine.x.to_bytes(32, 'little')", 'ecdh_shared_secret', 'shared secret little-endian'),
    'ecdh-y-coordinate': (B, "return shared_point_affine.x.to_bytes(32, 'big')", "return shared_point_affine.y.to_bytes(32, 'big')", 'ecdh_shared_secret', 'y coordinate returned as the secret'),
    'ecdh-33-bytes': (B, "return shared_point_affine.x.to_bytes(32, 'big')", "return shared_point_affine.x.to_bytes(33, 'big')", 'ecdh_shared_secret', 'secret one byte too long'),
    'ecdh-infinity-not-refused': (B, '        if shared_point_affine.infinite:\n            raise core.InvalidPacketError(', '        if shared_point_affine.infinite and private_key == 0:\n            raise core.InvalidPacketError(', 'ecdh_shared_secret', 'point at infinity yields the secret 00..00'),
    'pubkey-x-31-bytes': (B, "        ).x.to_bytes(32, byteorder='big')", "        ).x.to_bytes(31, byteorder='big')", 'EccKey.x', 'public x in 31 bytes (OverflowError for most keys)'),
    'pubkey-y-is-x': (B, "        ).y.to_bytes(32, byteorder='big')", "        ).x.to_bytes(32, byteorder='big')", 'EccKey.y', 'EccKey.y publishes the x coordinate'),
    'affine-x-not-reduced': (B, 'affine_x = (self.x * inv_z**2) % p', 'affine_x = self.x * inv_z**2', 'to_affine', 'affine x not reduced modulo p'),
    'dh-point-swapped': (B, '_Point(x=x, y=y, curve=self.private_key.curve),', '_Point(x=y, y=x, curve=self.private_key.curve),', 'EccKey.dh', 'peer coordinates swapped in the multiplication'),
    'pubkey-scalar-plus-one': (B, 'public_key_jacobian = self._generator_jacobian * private_key', 'public_key_jacobian = self._generator_jacobian * (private_key + 1)', 'generate_public_key', 'public key of the wrong scalar'),
    'from-bytes-little-endian': (B, "d = int.from_bytes(d_bytes, byteorder='big', signed=False)\n        return EccKey(", "d = int.from_bytes(d_bytes, byteorder='little', signed=False)\n        return EccKey(", 'ecc_key_from_bytes', 'private scalar read little-endian'),
    'resolve-lazy-prand-cache': ('notes/C14/mutant-lazy-cache.diff', None, None, 'AddressResolver.resolve,resolve_is_stateless', 'prand cache created lazily inside resolve (no new field in __init__)'),
    'resolve-no-hash-compare': (S, 'if local_hash == hash_part:', 'if local_hash[0:2] == hash_part[0:2]:', 'AddressResolver.resolve,resolve_is_stateless', 'only two of the three hash bytes compared'),
    'resolve-skips-first-key': (S, 'for irk, resolved_address in self.resolving_keys:\n            local_hash', 'for irk, resolved_address in self.resolving_keys[1:]:\n            local_hash', 'AddressResolver.resolve,resolve_is_stateless', 'first resolving key never tried'),
    'resolve-wrong-identity': (S, 'address=str(resolved_address), address_type=resolved_address_type', 'address=str(self.resolving_keys[0][1]), address_type=resolved_address_type', 'AddressResolver.resolve,resolve_is_stateless', 'identity of the first entry returned for any match'),
    'resolve-hash-from-prand-half': (S, 'hash_part = address_bytes[0:3]', 'hash_part = address_bytes[3:6]', 'AddressResolver.resolve,resolve_is_stateless', 'hash taken from the prand half'),
    'resolve-continues-after-match': (S, '                return Address(\n                    address=str(resolved_address), address_type=resolved_address_type\n                )', '                found = Address(\n                    address=str(resolved_address), address_type=resolved_address_type\n                )\n                if irk[0] & 1:\n                    return found', 'AddressResolver.resolve,resolve_is_stateless', 'a match under an even IRK is dropped'),
}


def run(name):
    f, old, new, only, what = MUTANTS[name]
    if f.endswith('.diff'):
        subprocess.run(['git', '-C', R, 'apply', os.path.join(HERE, f)], check=True)
    else:
        path = os.path.join(R, f)
        src = open(path).read()
        assert src.count(old) == 1, f'{name}: pattern occurs {src.count(old)} times'
        open(path, 'w').write(src.replace(old, new))
    try:
        worst = 3
        for o in only.split(','):
            cmd = ['./check', 'C14', '--no-evidence'] + (['--only', o] if o else [])
            p = subprocess.run(cmd, cwd=HERE, env=dict(os.environ, VERIF_REPO=R, PYVC_PROCS='3'), capture_output=True, text=True, timeout=1500)
            lines = [l for l in p.stdout.splitlines() if l.startswith(('UNDECIDED', 'CHECKER-ERROR', '    obligation'))]
            print(f'{name:30s} --only {o:28s} exit={p.returncode}  {what}', flush=True)
            for l in lines[:4]:
                print('      ', l[:260], flush=True)
            worst = min(worst, p.returncode)  # 0 (survived) is the worst
        return worst
    finally:
        subprocess.run(['git', '-C', R, 'checkout', '--', '.'], check=True)


if __name__ == '__main__':
    names = sys.argv[1:] or list(MUTANTS)
    survived = [n for n in names if run(n) == 0]
    print('SURVIVED:', survived)
    sys.exit(1 if survived else 0)
