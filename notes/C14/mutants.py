"""C14 mutants: deliberate property-breaking edits of the real functions, applied one at a time to the scratch
tree /work/r-C14 *on top of fix-1.diff*; each must make `./check C14` end with exit 1 or 2 (never 0).
Run from /work/v-C14:  .venv/bin/python notes/C14/mutants.py [name ...]"""
import os
import subprocess
import sys

R = '/work/r-C14'
B = 'bumble/crypto/builtin.py'
T = 'bumble/crypto/__init__.py'
MUTANTS = {
    # name: (file, old, new, --only filter ('' = whole property), what)
    'digest-wrong-subkey': (B, 'pt = _xor(self._last_pt, self._k1)', 'pt = _xor(self._last_pt, self._k2)', 'builtin_cmac', 'complete last block masked with K2 instead of K1'),
    'digest-pad-byte': (B, "partial[self._cache_n :] = b'\\x80' + b'\\x00' * (bs - self._cache_n - 1)", "partial[self._cache_n :] = b'\\x01' + b'\\x00' * (bs - self._cache_n - 1)", 'builtin_cmac', 'padding starts with 0x01 instead of 0x80'),
    'update-tail-slice': (B, 'self._cache[:remain] = msg[-remain:]', 'self._cache[:remain] = msg[:remain]', 'builtin_cmac', 'partial block cached from the head of the message instead of its tail'),
    'update-second-last-branch': (B, '        if len(data_block) == bs:\n            second_last = self._last_ct', '        if len(data_block) <= 2 * bs:\n            second_last = self._last_ct', '_CMAC._update', 'stale ciphertext block used for a two-block update (wrong branch)'),
    'cbc-no-chaining': (B, '            pre_cipher_block = _xor(\n                plaintext[offset : offset + 16], self._last_cipher_block\n            )', '            pre_cipher_block = plaintext[offset : offset + 16]', '_CBC.encrypt', 'ECB instead of CBC (dropped XOR with the previous ciphertext block)'),
    'cbc-off-by-one-block': (B, 'for offset in range(0, len(plaintext), 16):\n            pre_cipher_block = _xor(', 'for offset in range(0, len(plaintext) - 16, 16):\n            pre_cipher_block = _xor(', '_CBC.encrypt', 'last block not processed (off-by-one in the block loop)'),
    'subkey-wrong-bit': (B, 'if L[0] & 0x80:', 'if L[0] & 0x40:', 'builtin_cmac', 'sub-key K1 conditioned on bit 6 instead of the MSB'),
    'subkey-wrong-constant': (B, 'const_Rb = 0x87', 'const_Rb = 0x1B', 'builtin_cmac', 'R_b of the 64-bit block size used for AES'),
    'shift-by-two': (B, '((int.from_bytes(bs, "big") << 1) ^ xor_lsb)', '((int.from_bytes(bs, "big") << 2) ^ xor_lsb)', 'builtin_shift_bytes', 'sub-key doubling shifts by two bits'),
    'builtin-e-missing-reverse': (B, 'return _ECB(key[::-1]).encrypt(data[::-1])[::-1]', 'return _ECB(key[::-1]).encrypt(data)[::-1]', 'builtin_e', 'plaintext not byte-swapped in the built-in e'),
    'dh-wrong-equation': (B, '(y * y - (x * x * x + self.a * x + self.b)) % self.p == 0', '(y * y - (x * x * x + self.a * x)) % self.p == 0', 'EccKey.dh', 'curve equation without b (fix-1 mutated)'),
    'dh-check-inverted': (B, 'if not self.private_key.curve.is_on_curve(x, y):', 'if self.private_key.curve.is_on_curve(x, y):', 'EccKey.dh', 'on-curve test inverted'),
    'dh-swapped-coordinates': (B, 'if not self.private_key.curve.is_on_curve(x, y):', 'if not self.private_key.curve.is_on_curve(y, x):', 'EccKey.dh', 'coordinates swapped in the on-curve test'),
    'mul-no-progress': (B, '            k = k >> 1\n        return result', '            k = k >> 0\n        return result', '__mul__', 'double-and-add never consumes the scalar (non-termination)'),
    'ah-padding-side': (T, 'r_prime = r + padding', 'r_prime = padding + r', 'toolbox_ah', "ah: r' padded on the wrong side"),
    'c1-swapped-addresses': (T, 'p2 = ra + ia + bytes([0, 0, 0, 0])', 'p2 = ia + ra + bytes([0, 0, 0, 0])', 'toolbox_c1', 'c1: initiating/responding address swapped in p2'),
    's1-wrong-half': (T, 'return e(k, r2[0:8] + r1[0:8])', 'return e(k, r2[8:16] + r1[0:8])', 'toolbox_s1', 's1: most significant half of r2 used'),
    'f4-swapped-uv': (T, 'return reverse(aes_cmac(reverse(u) + reverse(v) + z, reverse(x)))', 'return reverse(aes_cmac(reverse(v) + reverse(u) + z, reverse(x)))', 'toolbox_f4', 'f4: U and V swapped'),
    'rpa-hash-prand-order': ('bumble/hci.py', 'address_bytes = crypto.ah(irk, prand) + prand', 'address_bytes = prand + crypto.ah(irk, prand)', 'rpa_generated', 'generate_private_address: hash and prand swapped'),
    'resolver-wrong-slice': ('bumble/smp.py', 'prand = address_bytes[3:6]', 'prand = address_bytes[2:5]', 'rpa_generated', 'AddressResolver.resolve: prand taken one byte too low'),
    'prand-top-bits': (T, '(prand_bytes[2] & 0b01111111) | 0b01000000', '(prand_bytes[2] & 0b11111111) | 0b01000000', 'toolbox_generate_prand', 'generate_prand: most significant bit not cleared'),
}


def run(name):
    f, old, new, only, what = MUTANTS[name]
    path = os.path.join(R, f)
    src = open(path).read()
    assert src.count(old) == 1, f'{name}: pattern occurs {src.count(old)} times'
    open(path, 'w').write(src.replace(old, new))
    try:
        cmd = ['./check', 'C14', '--no-evidence'] + (['--only', only] if only else [])
        p = subprocess.run(cmd, env=dict(os.environ, VERIF_REPO=R, PYVC_PROCS='3'), capture_output=True, text=True, timeout=1500)
        lines = [l for l in p.stdout.splitlines() if l.startswith(('VIOLATION', 'UNDECIDED', 'CHECKER-ERROR', '    obligation'))]
        print(f'{name:28s} exit={p.returncode}  {what}')
        for l in lines[:4]:
            print('      ', l[:230])
        return p.returncode
    finally:
        open(path, 'w').write(src)


if __name__ == '__main__':
    names = sys.argv[1:] or list(MUTANTS)
    survived = [n for n in names if run(n) == 0]
    print('SURVIVED:', survived)
    sys.exit(1 if survived else 0)
