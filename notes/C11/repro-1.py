"""C11 defect 1: a refused read inside Read Multiple / Read Multiple Variable / Read By Group Type / Find By Type
Value is not answered at all.  Attribute.read_value raises ATT_Error (here: Insufficient Encryption on a plain
link); these four handlers do not catch it, the exception leaves the @run_in_task coroutine (it is only logged) and
the peer gets NO response -- its ATT bearer then stalls until the 30 s transaction timeout.  The statement wants the
corresponding ATT error (Find By Type Value: the attribute is skipped, Vol 3 Part F 3.4.3.3).

Run:  PYTHONPATH=/repo /venv/bin/python notes/C11/repro-1.py      exit 1 = defect present, 0 = every request answered
"""
import asyncio
import logging
import sys
import types

from bumble import att, gatt, gatt_server

logging.disable(logging.CRITICAL)
sent = []
device = types.SimpleNamespace(send_l2cap_pdu=lambda handle, cid, pdu: sent.append(bytes(pdu)))
server = gatt_server.Server(device)
P = gatt.Characteristic.Permissions
secret = gatt.Characteristic('2A19', gatt.Characteristic.Properties.READ, P.READABLE | P.READ_REQUIRES_ENCRYPTION, b'\x2a')
server.add_service(gatt.Service('180F', [secret]))
# a service declaration that asks for encryption (added as a plain attribute: "all permission-flag combinations ...
# including declarations")
protected_service = att.Attribute(gatt.GATT_PRIMARY_SERVICE_ATTRIBUTE_TYPE, P.READABLE | P.READ_REQUIRES_ENCRYPTION, bytes.fromhex('0d18'))
server.add_attribute(protected_service)


class Link:  # an un-enhanced bearer: ACL connection, not encrypted
    handle, att_mtu, encryption, authenticated = 1, 23, 0, False


link = Link()
requests = {
    'Read Multiple': att.ATT_Read_Multiple_Request(set_of_handles=[secret.handle, secret.handle]),
    'Read Multiple Variable': att.ATT_Read_Multiple_Variable_Request(set_of_handles=[secret.handle, secret.handle]),
    'Read By Group Type': att.ATT_Read_By_Group_Type_Request(
        starting_handle=protected_service.handle, ending_handle=0xFFFF, attribute_group_type=gatt.GATT_PRIMARY_SERVICE_ATTRIBUTE_TYPE
    ),
    'Find By Type Value': att.ATT_Find_By_Type_Value_Request(
        starting_handle=1, ending_handle=0xFFFF, attribute_type=secret.type, attribute_value=b'\x2a'
    ),
}


async def main():
    unanswered = []
    for name, request in requests.items():
        sent.clear()
        server.on_gatt_pdu(link, request)
        await asyncio.sleep(0.05)  # let the handler task run
        if len(sent) != 1:
            unanswered.append(name)
            print(f'{name:24s}: {len(sent)} responses')
        else:
            pdu = att.ATT_PDU.from_bytes(sent[0])
            code = f' error_code=0x{pdu.error_code:02X}' if isinstance(pdu, att.ATT_Error_Response) else ''
            print(f'{name:24s}: {pdu.name}{code}')
            assert b'\x2a' not in sent[0][1:] or isinstance(pdu, att.ATT_Error_Response), 'protected value disclosed'
    return unanswered


unanswered = asyncio.run(main())
if unanswered:
    print('DEFECT: no response to', ', '.join(unanswered))
    sys.exit(1)
print('every request answered')
