"""C11 defect 2: the READABLE / WRITEABLE permission flags are never tested.  A peer reads the value of an attribute
whose permissions are 0 through every reading operation, and overwrites a READABLE-only attribute with a Write
Request and with a Write Command (Attribute.read_value / write_value only look at the *_REQUIRES_* flags and no
handler checks anything: "TODO: check permissions").

Run:  PYTHONPATH=/repo /venv/bin/python notes/C11/repro-2.py [--strict]
      exit 1 = defect present, 0 = every access refused and the values unchanged / undisclosed
      --strict additionally tries an attribute that carries only READ_REQUIRES_ENCRYPTION / WRITE_REQUIRES_ENCRYPTION on
      an encrypted link (the statement wants READABLE / WRITEABLE as well; bumble's profiles use these flags alone)
"""
import asyncio
import logging
import sys
import types

from bumble import att, gatt, gatt_server

logging.disable(logging.CRITICAL)
strict = '--strict' in sys.argv
sent = []
device = types.SimpleNamespace(send_l2cap_pdu=lambda handle, cid, pdu: sent.append(bytes(pdu)))
server = gatt_server.Server(device)
P = gatt.Characteristic.Permissions
SECRET = b'\x5e\xc7'
no_perm = gatt.Characteristic('2A19', gatt.Characteristic.Properties.NOTIFY, P(0), SECRET)
read_only = gatt.Characteristic('2A1A', gatt.Characteristic.Properties.READ, P.READABLE, b'\x01')
characteristics = [no_perm, read_only]
if strict:
    req_only_r = gatt.Characteristic('2A1B', gatt.Characteristic.Properties.NOTIFY, P.READ_REQUIRES_ENCRYPTION, SECRET)
    req_only_w = gatt.Characteristic('2A1C', gatt.Characteristic.Properties.READ, P.READABLE | P.WRITE_REQUIRES_ENCRYPTION, b'\x01')
    characteristics += [req_only_r, req_only_w]
server.add_service(gatt.Service('180F', characteristics))


class Link:  # an un-enhanced bearer: ACL connection, encrypted and authenticated
    handle, att_mtu, encryption, authenticated = 1, 23, 1, True


link = Link()
problems = []


async def ask(request):
    sent.clear()
    server.on_gatt_pdu(link, request)
    await asyncio.sleep(0.05)
    return sent[0] if sent else b''


async def try_reads(name, c):
    reads = {
        'Read': att.ATT_Read_Request(attribute_handle=c.handle),
        'Read Blob': att.ATT_Read_Blob_Request(attribute_handle=c.handle, value_offset=0),
        'Read By Type': att.ATT_Read_By_Type_Request(starting_handle=c.handle, ending_handle=c.handle, attribute_type=c.type),
        'Read Multiple': att.ATT_Read_Multiple_Request(set_of_handles=[c.handle, c.handle]),
        'Read Multiple Variable': att.ATT_Read_Multiple_Variable_Request(set_of_handles=[c.handle, c.handle]),
        'Find By Type Value': att.ATT_Find_By_Type_Value_Request(starting_handle=c.handle, ending_handle=c.handle, attribute_type=c.type, attribute_value=SECRET),
    }
    for op, request in reads.items():
        response = await ask(request)
        # Read Blob of a short value answers Attribute Not Long *after* reading it: a refusal is any permission error
        refused = len(response) == 5 and response[0] == att.Opcode.ATT_ERROR_RESPONSE and response[4] in (
            att.ATT_READ_NOT_PERMITTED_ERROR, att.ATT_INSUFFICIENT_ENCRYPTION_ERROR, att.ATT_INSUFFICIENT_AUTHENTICATION_ERROR,
            att.ATT_INSUFFICIENT_AUTHORIZATION_ERROR, att.ATT_ATTRIBUTE_NOT_FOUND_ERROR)
        disclosed = SECRET in response[1:] or (op == 'Find By Type Value' and response[:1] == bytes([att.Opcode.ATT_FIND_BY_TYPE_VALUE_RESPONSE]))
        if disclosed or not refused:
            problems.append(f'{name}: {op} -> {response.hex()} (value {"disclosed" if disclosed else "read"})')


async def try_writes(name, c):
    before = c.value
    response = await ask(att.ATT_Write_Request(attribute_handle=c.handle, attribute_value=b'\xee'))
    if c.value != before or response[:1] == bytes([att.Opcode.ATT_WRITE_RESPONSE]):
        problems.append(f'{name}: Write Request -> {response.hex()}, value now {bytes(c.value).hex()}')
    c.value = before
    await ask(att.ATT_Write_Command(attribute_handle=c.handle, attribute_value=b'\xef'))
    if c.value != before:
        problems.append(f'{name}: Write Command changed the value to {bytes(c.value).hex()}')
    c.value = before


async def main():
    await try_reads('permissions=0', no_perm)
    await try_writes('permissions=READABLE', read_only)
    if strict:
        await try_reads('permissions=READ_REQUIRES_ENCRYPTION', req_only_r)
        await try_writes('permissions=READABLE|WRITE_REQUIRES_ENCRYPTION', req_only_w)


asyncio.run(main())
for p in problems:
    print('DEFECT', p)
if problems:
    sys.exit(1)
print('every access refused, values unchanged and undisclosed')
