"""Shared machinery of the C13 reconnection reproducers (repro-1.py, repro-3.py).

Real devices, real controllers, real LocalLink, real SMP; nothing is mocked.  The virtual controller reports
encryption success without asking the peripheral's host for a key, so a key mismatch is invisible at link level; the
reproducers therefore compare (a) the HCI_LE_Enable_Encryption command the central really sends with (b) what the
peripheral's registered long_term_key_provider answers for that command's Rand/EDIV.
"""
import asyncio
import logging
import os
import sys

repo = os.environ.get('VERIF_REPO') or next((p for p in os.environ.get('PYTHONPATH', '').split(':') if os.path.isdir(os.path.join(p, 'bumble'))), '/repo')
sys.path[:0] = [repo, os.path.join(repo, 'tests')]

from bumble import hci  # noqa: E402
from bumble.core import InvalidOperationError  # noqa: E402
from bumble.pairing import PairingConfig, PairingDelegate  # noqa: E402
from test_utils import TwoDevices, async_barrier  # noqa: E402

logging.disable(logging.CRITICAL)


async def reconnect(two, central, peripheral):
    """new LE connection with `central` as the Central; returns (central's connection, peripheral's connection)"""
    fut = asyncio.get_running_loop().create_future()
    two.devices[peripheral].once('connection', fut.set_result)
    await two.devices[peripheral].start_advertising(advertising_interval_min=1.0)
    c_conn = await two.devices[central].connect(two.devices[peripheral].random_address)
    p_conn = await fut
    return c_conn, p_conn


async def central_key_vs_peripheral_key(two, central, peripheral, c_conn, p_conn):
    """(key the central uses, key the peripheral's provider returns for the central's request)"""
    sent = []
    dev = two.devices[central]
    real = dev.host.send_async_command

    async def spy(command, *a, **kw):
        if isinstance(command, hci.HCI_LE_Enable_Encryption_Command):
            sent.append(command)
        return await real(command, *a, **kw)

    dev.host.send_async_command = spy
    try:
        await asyncio.wait_for(dev.encrypt(c_conn), 5)
    except InvalidOperationError as error:
        return None, str(error)  # the central holds no key for this peer: no request is made
    finally:
        dev.host.send_async_command = real
    (cmd,) = sent
    provider = two.devices[peripheral].host.long_term_key_provider  # what on_hci_le_long_term_key_request_event calls
    answer = await provider(p_conn.handle, cmd.random_number, cmd.encrypted_diversifier)
    return cmd.long_term_key, answer


async def scenario(sc, initiator_keys, responder_keys):
    """pair (device 0 initiates) with the given key distribution masks on both sides, then reconnect twice.
    No identity keys: both stores file the bond under the address used on the connection, so a reconnection to
    the same addresses finds it without address resolution."""
    two = TwoDevices()
    for d in two.devices:
        d.pairing_config_factory = lambda connection: PairingConfig(
            sc=sc, mitm=False, bonding=True,
            delegate=PairingDelegate(PairingDelegate.IoCapability.NO_OUTPUT_NO_INPUT, initiator_keys, responder_keys))
    await two.setup_connection()
    await two.devices[0].pair(two.connections[0])
    await async_barrier()
    await async_barrier()
    results = {}
    # a later connection: the pairing sessions are gone, only the key stores remain
    await two.connections[0].disconnect()
    await async_barrier()
    c_conn, p_conn = await reconnect(two, 0, 1)
    results['same roles'] = await central_key_vs_peripheral_key(two, 0, 1, c_conn, p_conn)
    await c_conn.disconnect()
    await async_barrier()
    c_conn, p_conn = await reconnect(two, 1, 0)
    results['swapped roles'] = await central_key_vs_peripheral_key(two, 1, 0, c_conn, p_conn)
    return results


def main(configs):
    bad = 0
    for label, sc, initiator_keys, responder_keys in configs:
        results = asyncio.run(scenario(sc, initiator_keys, responder_keys))
        for name, (used, answered) in results.items():
            if used is None:
                print(f'{label}, reconnection in {name}: central has no key ({answered}), no request -> agree')
                continue
            ok = answered == used
            bad += not ok
            print(f'{label}, reconnection in {name}: central encrypts with {used.hex() or "<empty>"}, '
                  f'peripheral answers {answered.hex() or "<empty>" if answered is not None else None} -> {"agree" if ok else "DISAGREE"}')
    if bad:
        print(f'DEFECT: {bad} reconnection(s) where the two key stores do not yield the same key')
        sys.exit(1)
    print('no defect: both stores yield the same key (or the central has none and asks for none)')


ENC = PairingDelegate.KeyDistribution.DISTRIBUTE_ENCRYPTION_KEY
