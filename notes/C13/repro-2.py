"""C13 reproducer 2 -- keys derived by cross-transport key derivation (SMP over BR/EDR) are stored as
authenticated=True although no MITM-protected association model was used: Session.on_pairing computes
`authenticated = pairing_method != JUST_WORKS`, and the method is CTKD_OVER_CLASSIC.  Here the BR/EDR link key is an
*unauthenticated* combination key (Secure Simple Pairing "Just Works"): Device.on_link_key stores it with
authenticated=False; after CTKD the store holds an LE LTK marked authenticated and the link key itself re-stored as
authenticated.

Run:  PYTHONPATH=<bumble tree> python notes/C13/repro-2.py        exit 1 = defect present, 0 = absent

Real devices, controllers, link and SMP sessions.  As in tests/self_test.py::test_self_smp_over_classic the classic
connection is marked encrypted by hand (the link relayer implements no classic SSP/encryption); the link key is put
into both stores through the real Device.on_link_key handler.
"""
import asyncio
import logging
import os
import sys

repo = os.environ.get('VERIF_REPO') or next((p for p in os.environ.get('PYTHONPATH', '').split(':') if os.path.isdir(os.path.join(p, 'bumble'))), '/repo')
sys.path[:0] = [repo, os.path.join(repo, 'tests')]

from bumble import hci  # noqa: E402
from bumble.core import PhysicalTransport  # noqa: E402
from test_utils import TwoDevices, async_barrier  # noqa: E402

logging.disable(logging.CRITICAL)
LINK_KEY = bytes.fromhex('287ad379dca402530a39f1f43047b835')


async def scenario():
    two = TwoDevices()
    for d in two.devices:
        d.classic_enabled = True
        await d.power_on()
    await asyncio.gather(
        two.devices[0].connect(two.devices[1].public_address, transport=PhysicalTransport.BR_EDR),
        two.devices[1].accept(two.devices[0].public_address),
    )
    # the BR/EDR pairing was Secure Simple Pairing without MITM protection: unauthenticated combination key
    for i in (0, 1):
        two.devices[i].on_link_key(two.connections[i].peer_address, LINK_KEY, hci.LinkKeyType.UNAUTHENTICATED_COMBINATION_KEY_GENERATED_FROM_P_256)
    await async_barrier()
    before = [await two.devices[i].keystore.get(str(two.connections[i].peer_address)) for i in (0, 1)]
    assert all(k is not None and k.link_key is not None and not k.link_key.authenticated for k in before)
    for i in (0, 1):
        two.connections[i].encryption = 1
        two.connections[i].on('pairing', lambda keys, i=i: two.on_paired(i, keys))
    await two.connections[0].pair()  # CTKD: SMP over the BR/EDR fixed channel
    await asyncio.gather(*two.paired)
    await async_barrier()
    return [await two.devices[i].keystore.get(str(two.connections[i].peer_address)) for i in (0, 1)]


def main():
    bad = 0
    for i, keys in enumerate(asyncio.run(scenario())):
        for name in ('ltk', 'ltk_central', 'ltk_peripheral', 'irk', 'csrk', 'link_key'):
            key = getattr(keys, name)
            if key is not None:
                print(f'device {i}: {name} authenticated={key.authenticated}')
                bad += bool(key.authenticated)
    if bad:
        print(f'DEFECT: {bad} stored key(s) marked authenticated after CTKD from an unauthenticated link key (no passkey, numeric comparison or OOB was used)')
        sys.exit(1)
    print('no defect: no key is marked authenticated')


if __name__ == '__main__':
    main()
