"""C13 reproducer 3 -- LE legacy pairing with bonding where only the responder distributes its LTK (EncKey clear in
the initiator key distribution).  Session.on_pairing nevertheless stores a "peer LTK" with the empty value for the key
that was never received and the local LTK that was never sent; on a reconnection in swapped roles the new central
encrypts with a key the new peripheral does not have (or with the empty key), instead of finding no key.

Run:  PYTHONPATH=<bumble tree> python notes/C13/repro-3.py        exit 1 = defect present, 0 = absent
"""
import os
import sys

sys.path.insert(0, os.path.dirname(os.path.abspath(__file__)))
from _reconnect import ENC, main  # noqa: E402

if __name__ == '__main__':
    main([('legacy pairing, only the responder distributes EncKey', False, 0, ENC)])
