"""C13 reproducer 1 -- after LE legacy pairing with bonding between two Bumble devices (both sides distribute their
LTK), on a later connection the key the peripheral's long-term-key provider (Device.get_long_term_key) returns for the
central's (EDIV, Rand) is NOT the key the central's Device.encrypt() puts into HCI_LE_Enable_Encryption: the responder's
Session.on_pairing files its own key as `ltk_central` and the peer's as `ltk_peripheral`, the opposite of how
Device.encrypt / Device.get_long_term_key read the store.  (Secure Connections pairing is shown for comparison.)

Run:  PYTHONPATH=<bumble tree> python notes/C13/repro-1.py        exit 1 = defect present, 0 = absent
"""
import os
import sys

sys.path.insert(0, os.path.dirname(os.path.abspath(__file__)))
from _reconnect import ENC, main  # noqa: E402

if __name__ == '__main__':
    main([('legacy pairing, both distribute EncKey', False, ENC, ENC), ('SC pairing', True, ENC, ENC)])
