"""C09 defect 6: ChannelManager.create_le_credit_based_channel removes the channel it registered only when connect()
fails with an `Exception`.  asyncio.CancelledError is a BaseException: when the caller gives up (asyncio.wait_for
timeout, task cancellation) the half-open channel stays in channels[handle] forever -- its CID is never handed out
again and the table holds a channel nobody owns.  (create_classic_channel catches BaseException.)
Run: PYTHONPATH=<repo> /venv/bin/python notes/C09/repro-6.py   (exit 1 = defect present, 0 = absent)"""
import asyncio
import sys
import types

from bumble import l2cap


async def main():
    manager = l2cap.ChannelManager()
    manager._host = types.SimpleNamespace(send_l2cap_pdu=lambda handle, cid, pdu: None)
    connection = types.SimpleNamespace(handle=0x40, peer_address='F0:F0:F0:F0:F0:F0')
    try:
        await asyncio.wait_for(manager.create_le_credit_based_channel(connection, l2cap.LeCreditBasedChannelSpec(psm=0x80)), 0.05)
    except asyncio.TimeoutError:
        pass
    left = manager.channels.get(connection.handle, {})
    print('channels[handle] after the caller gave up:', left)
    return 1 if left else 0


sys.exit(asyncio.run(main()))
