"""C09 defect 3: ClassicChannel.abort() (called for every channel when the ACL link is lost) only handles state OPEN.
A channel that waits for the answer to its own disconnection request (WAIT_DISCONNECT) stays in that state and its
disconnection_result future is never completed: `await channel.disconnect()` hangs forever when the link drops first.
The same future is also left pending when the peer's disconnection request crosses ours (on_disconnection_request).
Run: PYTHONPATH=<repo> /venv/bin/python notes/C09/repro-3.py   (exit 1 = defect present, 0 = absent)"""
import asyncio
import sys
import types

from bumble import l2cap


def make_channel():
    sent = []
    host = types.SimpleNamespace(send_l2cap_pdu=lambda handle, cid, pdu: sent.append(pdu), on=lambda *a: None, remove_listener=lambda *a: None)
    manager = l2cap.ChannelManager()
    manager._host = host
    connection = types.SimpleNamespace(handle=0x0040, peer_address='F0:F0:F0:F0:F0:F0')
    channel = l2cap.ClassicChannel(manager, connection, l2cap.L2CAP_SIGNALING_CID, 0x1001, 0x0040, l2cap.ClassicChannelSpec(psm=0x1001))
    channel.destination_cid = 0x0050
    channel.state = l2cap.ClassicChannel.State.OPEN
    manager.channels[connection.handle] = {channel.source_cid: channel}
    return manager, connection, channel


async def main():
    bad = 0
    # (a) link loss while disconnect() waits for the response
    manager, connection, channel = make_channel()
    task = asyncio.ensure_future(channel.disconnect())
    await asyncio.sleep(0.01)
    manager.on_disconnection(connection.handle, 0x13)
    await asyncio.sleep(0.01)
    print(f'link loss: state {channel.state.name}, disconnect() returned: {task.done()}, tables {manager.channels}')
    bad += (not task.done()) or channel.state != l2cap.ClassicChannel.State.CLOSED
    task.cancel()
    # (b) the peer's disconnection request crosses ours
    manager, connection, channel = make_channel()
    task = asyncio.ensure_future(channel.disconnect())
    await asyncio.sleep(0.01)
    manager.on_l2cap_disconnection_request(connection, l2cap.L2CAP_SIGNALING_CID, l2cap.L2CAP_Disconnection_Request(identifier=7, destination_cid=channel.source_cid, source_cid=channel.destination_cid))
    await asyncio.sleep(0.01)
    print(f'crossing requests: state {channel.state.name}, disconnect() returned: {task.done()}')
    bad += not task.done()
    task.cancel()
    return 1 if bad else 0


sys.exit(asyncio.run(main()))
