"""C09 defect 5: ChannelManager.le_coc_requests (pending LE credit-based connection requests) is keyed by the signalling
identifier only -- one table for all connections -- although identifiers are allocated per connection, and
on_disconnection never removes the requests of a lost link.  Consequences shown here:
 (a) a connection request that is pending on link A makes connect() on link B fail with InvalidStateError('too many
     concurrent connection requests') as soon as B reaches the same identifier (both start at 1);
 (b) a request left behind by a link that dropped while connecting blocks the first connect() on every later link;
 (c) a response received on link B consumes the pending request of link A (A's connect() then waits forever).
Run: PYTHONPATH=<repo> /venv/bin/python notes/C09/repro-5.py   (exit 1 = defect present, 0 = absent)"""
import asyncio
import sys
import types

from bumble import l2cap
from bumble.core import InvalidStateError


def connection(handle):
    return types.SimpleNamespace(handle=handle, peer_address=f'F0:F0:F0:F0:F0:{handle:02X}')


async def main():
    sent = []
    manager = l2cap.ChannelManager()
    manager._host = types.SimpleNamespace(send_l2cap_pdu=lambda handle, cid, pdu: sent.append((handle, cid, bytes(pdu))))
    a, b = connection(0x40), connection(0x41)
    bad = 0

    # (a) request pending on link A, then a request on link B
    task_a = asyncio.ensure_future(manager.create_le_credit_based_channel(a, l2cap.LeCreditBasedChannelSpec(psm=0x80)))
    await asyncio.sleep(0.01)
    task_b = asyncio.ensure_future(manager.create_le_credit_based_channel(b, l2cap.LeCreditBasedChannelSpec(psm=0x80)))
    await asyncio.sleep(0.01)
    blocked = task_b.done() and isinstance(task_b.exception(), InvalidStateError)
    print('(a) connect on link B while link A has a request pending:', repr(task_b.exception()) if task_b.done() else 'pending (ok)')
    bad += blocked

    # (c) a successful response arrives on link B for identifier 1 (B has sent nothing if it was blocked above)
    manager.on_l2cap_le_credit_based_connection_response(
        b, l2cap.L2CAP_LE_SIGNALING_CID,
        l2cap.L2CAP_LE_Credit_Based_Connection_Response(identifier=1, destination_cid=0x50, mtu=100, mps=100, initial_credits=1, result=0),
    )
    await asyncio.sleep(0.01)
    consumed = not task_a.done() and not any(1 in d if isinstance(d, dict) else k == 1 for k, d in manager.le_coc_requests.items() if (k == a.handle or not isinstance(d, dict)))
    print("(c) response on link B consumed link A's pending request:", consumed)
    bad += consumed
    for t in (task_a, task_b):
        t.cancel()

    # (b) link drops while connecting; a new link starts over at identifier 1
    manager = l2cap.ChannelManager()
    manager._host = types.SimpleNamespace(send_l2cap_pdu=lambda handle, cid, pdu: None)
    task = asyncio.ensure_future(manager.create_le_credit_based_channel(a, l2cap.LeCreditBasedChannelSpec(psm=0x80)))
    await asyncio.sleep(0.01)
    manager.on_disconnection(a.handle, 0x13)
    await asyncio.sleep(0.01)
    print('(b) after the link loss: connect() released:', task.done(), ' requests left behind:', manager.le_coc_requests)
    task2 = asyncio.ensure_future(manager.create_le_credit_based_channel(connection(0x42), l2cap.LeCreditBasedChannelSpec(psm=0x80)))
    await asyncio.sleep(0.01)
    refused = task2.done() and isinstance(task2.exception(), InvalidStateError)
    print('    first connect on the next link:', repr(task2.exception()) if task2.done() else 'pending (ok)')
    bad += refused
    task2.cancel()
    return 1 if bad else 0


sys.exit(asyncio.run(main()))
