"""C09 defect 4: ClassicChannel.on_disconnection_response accepts a disconnection response in any state.  A stray (or
forged) response whose CIDs match while the channel is still connecting closes the channel and removes it from the
table, but connect() keeps waiting on connection_result, which nobody completes: the caller hangs until the link drops.
(LeCreditBasedChannel.on_disconnection_response checks for DISCONNECTING first.)
Run: PYTHONPATH=<repo> /venv/bin/python notes/C09/repro-4.py   (exit 1 = defect present, 0 = absent)"""
import asyncio
import sys
import types

from bumble import l2cap


async def main():
    sent = []
    host = types.SimpleNamespace(send_l2cap_pdu=lambda handle, cid, pdu: sent.append(pdu))
    manager = l2cap.ChannelManager()
    manager._host = host

    class Connection:
        handle = 0x0040
        peer_address = 'F0:F0:F0:F0:F0:F0'

        def cancel_on_disconnection(self, awaitable):
            return awaitable

    connection = Connection()
    task = asyncio.ensure_future(manager.create_classic_channel(connection, l2cap.ClassicChannelSpec(psm=0x1001)))
    await asyncio.sleep(0.01)
    channel = manager.channels[connection.handle][0x0040]
    print('connecting:', channel.state.name)
    manager.on_l2cap_disconnection_response(connection, l2cap.L2CAP_SIGNALING_CID, l2cap.L2CAP_Disconnection_Response(identifier=9, destination_cid=0, source_cid=0x0040))
    await asyncio.sleep(0.01)
    print(f'after a stray disconnection response: state {channel.state.name}, registered: {0x0040 in manager.channels[connection.handle]}, connect() finished: {task.done()}')
    stuck = channel.state == l2cap.ClassicChannel.State.CLOSED and not task.done()
    task.cancel()
    return 1 if stuck else 0


sys.exit(asyncio.run(main()))
