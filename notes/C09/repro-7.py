"""C09 finding 7: an outgoing LE credit-based channel is entered into le_coc_channels only when the task that called
create_le_credit_based_channel resumes after `await channel.connect()`.  The response handler has already made the channel
CONNECTED by then, so signalling that is processed before the task resumes meets a connected channel that is not in
the table: (a) credits sent right after the response are dropped ("received credits for an unknown channel"), (b) if the
peer closes the channel again at once, the task later registers the *closed* channel -- a stale le_coc_channels entry that
makes the peer's next request from that CID fail with SOURCE_CID_ALREADY_ALLOCATED.
Run: PYTHONPATH=<repo> /venv/bin/python notes/C09/repro-7.py   (exit 1 = present, 0 = absent)"""
import asyncio
import sys
import types

from bumble import l2cap


async def main():
    manager = l2cap.ChannelManager()
    manager._host = types.SimpleNamespace(send_l2cap_pdu=lambda handle, cid, pdu: None)
    connection = types.SimpleNamespace(handle=0x40, peer_address='F0:F0:F0:F0:F0:F0')
    task = asyncio.ensure_future(manager.create_le_credit_based_channel(connection, l2cap.LeCreditBasedChannelSpec(psm=0x80)))
    await asyncio.sleep(0.01)
    channel = manager.channels[connection.handle][0x40]
    sig = l2cap.L2CAP_LE_SIGNALING_CID
    # three signalling PDUs of the peer arrive in one batch (one transport read): accept, credits, disconnect
    manager.on_l2cap_le_credit_based_connection_response(connection, sig, l2cap.L2CAP_LE_Credit_Based_Connection_Response(identifier=1, destination_cid=0x50, mtu=100, mps=100, initial_credits=1, result=0))
    before = channel.credits
    manager.on_l2cap_le_flow_control_credit(connection, sig, l2cap.L2CAP_LE_Flow_Control_Credit(identifier=2, cid=0x50, credits=5))
    credits_lost = channel.credits == before
    manager.on_l2cap_disconnection_request(connection, sig, l2cap.L2CAP_Disconnection_Request(identifier=3, destination_cid=0x40, source_cid=0x50))
    result = await task  # now the creating task resumes
    stale = manager.le_coc_channels.get(connection.handle, {})
    print(f'credits sent right after the response were dropped: {credits_lost}')
    print(f'returned channel state: {result.state.name}; le_coc_channels[handle] = {stale}')
    return 1 if (credits_lost or any(c.state == l2cap.LeCreditBasedChannel.State.DISCONNECTED for c in stale.values())) else 0


sys.exit(asyncio.run(main()))
