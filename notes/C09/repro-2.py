"""C09 defect 2: nothing releases LeCreditBasedChannel.drain() when the channel goes away.  flush_output() (called by
disconnect() and on_disconnection_request()) clears the queue without setting `drained`, and abort() (link loss) does
not flush at all: a task that waits in `await channel.drain()` with data still queued waits forever.
Run: PYTHONPATH=<repo>:<repo>/tests /venv/bin/python notes/C09/repro-2.py   (exit 1 = defect present, 0 = absent)"""
import asyncio
import sys

from bumble import l2cap
from test_utils import TwoDevices


async def scenario(how):
    devices = await TwoDevices.create_with_connection()
    server_channels = asyncio.Queue()
    server = devices[1].create_l2cap_server(spec=l2cap.LeCreditBasedChannelSpec(max_credits=1, mtu=64, mps=64), handler=server_channels.put_nowait)
    connection = devices.connections[0]
    client = await connection.create_l2cap_channel(spec=l2cap.LeCreditBasedChannelSpec(server.psm))
    await server_channels.get()
    client.credits = 0  # the peer has not granted any credit yet: written data stays queued
    client.write(b'x' * 200)
    waiter = asyncio.ensure_future(client.drain())
    await asyncio.sleep(0.01)
    assert not waiter.done()
    if how == 'local disconnect':
        await client.disconnect()
    elif how == 'link loss':
        devices[0].l2cap_channel_manager.on_disconnection(connection.handle, 0x13)
    await asyncio.sleep(0.05)
    print(f'{how}: channel state {client.state.name}, drain() released: {waiter.done()}')
    released = waiter.done()
    waiter.cancel()
    return released


async def main():
    ok = [await scenario('local disconnect'), await scenario('link loss')]
    return 0 if all(ok) else 1


sys.exit(asyncio.run(main()))
