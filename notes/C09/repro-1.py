"""C09 defect 1: ChannelManager.on_channel_closed uses `elif`, so the le_coc_channels entry of a closed LE credit-based
channel is never removed (channels[handle] is non-empty whenever the channel is registered).  The stale entry makes the
next connection request that carries the same peer CID fail with CONNECTION_REFUSED_SOURCE_CID_ALREADY_ALLOCATED:
open, close, open again does not work.
Run: PYTHONPATH=<repo>:<repo>/tests /venv/bin/python notes/C09/repro-1.py   (exit 1 = defect present, 0 = absent)"""
import asyncio
import sys

from bumble import l2cap
from test_utils import TwoDevices


async def main():
    devices = await TwoDevices.create_with_connection()
    server_channels = asyncio.Queue()
    server = devices[1].create_l2cap_server(spec=l2cap.LeCreditBasedChannelSpec(), handler=server_channels.put_nowait)
    connection = devices.connections[0]
    first = await connection.create_l2cap_channel(spec=l2cap.LeCreditBasedChannelSpec(server.psm))
    await server_channels.get()
    await first.disconnect()
    await asyncio.sleep(0.05)
    srv_mgr, cli_mgr = devices[1].l2cap_channel_manager, devices[0].l2cap_channel_manager
    stale = {h: dict(d) for h, d in srv_mgr.le_coc_channels.items() if d}, {h: dict(d) for h, d in cli_mgr.le_coc_channels.items() if d}
    print('le_coc_channels after the close (server side, client side):', stale)
    try:
        second = await asyncio.wait_for(connection.create_l2cap_channel(spec=l2cap.LeCreditBasedChannelSpec(server.psm)), 2)
        print('second channel opened:', second)
    except l2cap.L2capError as e:
        print('second open refused:', e)
        return 1
    return 1 if any(stale) else 0


sys.exit(asyncio.run(main()))
