"""C12 defect 3: Client.discover_attributes never terminates against a peer that answers the second and all later
Find Information requests with an empty (but well-formed) Find Information Response: the loop has no
"empty list" exit and recomputes the same starting handle from the attributes found so far.
(With no attribute found yet the same answer raises IndexError.)
Run: PYTHONPATH=/repo /venv/bin/python notes/C12/repro-3.py"""
import asyncio
import struct

from bumble import att, gatt_client

client = gatt_client.Client.__new__(gatt_client.Client)
requests = []


async def send_request(request):
    requests.append(request.starting_handle)
    if len(requests) > 50:
        raise RuntimeError(f'no progress after 50 requests, starting handles {requests[:5]}...')
    data = struct.pack('<HH', 1, 0x2800) if len(requests) == 1 else b''
    return att.ATT_Find_Information_Response(format=1, information_data=data)


client.send_request = send_request
print(len(asyncio.run(client.discover_attributes())), 'attributes after', len(requests), 'request(s)')
