"""C12 defect 1: Server.indicate_subscriber(bearer, ..., force=True) -- and likewise for an enhanced (EATT)
bearer -- sends an ATT_Handle_Value_Notification (0x1B) instead of an indication (0x1D) and does not wait
for a confirmation.   Run: PYTHONPATH=/repo /venv/bin/python notes/C12/repro-1.py"""
import asyncio
import types

from bumble import att, gatt, gatt_server

sent = []
device = types.SimpleNamespace(send_l2cap_pdu=lambda handle, cid, pdu: sent.append(pdu))
server = gatt_server.Server(device)
char = gatt.Characteristic('2A19', gatt.Characteristic.Properties.INDICATE, gatt.Characteristic.READABLE, b'\x01')
server.add_service(gatt.Service('180F', [char]))


class Bearer:  # stands for an ACL connection (un-enhanced bearer)
    handle, att_mtu = 1, 23


bearer = Bearer()


async def main():
    try:
        await asyncio.wait_for(server.indicate_subscriber(bearer, char, b'\x2a', force=True), 0.2)
        returned = True
    except asyncio.TimeoutError:
        returned = False  # expected for an indication nobody confirms
    print('PDU opcode 0x%02X' % sent[0][0], '(indication is 0x1D, notification is 0x1B); returned without confirmation:', returned)
    assert sent[0][0] == att.Opcode.ATT_HANDLE_VALUE_INDICATION, 'indicate_subscriber sent a notification'


asyncio.run(main())
