"""C12 defect 2: Client.discover_service never terminates against a peer that keeps answering
Find By Type Value with [(1, 0xFFFF), (1, 0)]: the inner loop breaks at the 0xFFFF entry, the entries after it
are never checked, and the next request starts at handles_information[-1][1] + 1 == 1 again.
Run: PYTHONPATH=/repo /venv/bin/python notes/C12/repro-2.py"""
import asyncio
import struct

from bumble import att, gatt_client

client = gatt_client.Client.__new__(gatt_client.Client)
client.services = []
requests = []


async def send_request(request):
    requests.append(request.starting_handle)
    if len(requests) > 50:
        raise RuntimeError(f'no progress after 50 requests, starting handles {requests[:5]}...')
    return att.ATT_Find_By_Type_Value_Response(handles_information_list=struct.pack('<HHHH', 1, 0xFFFF, 1, 0))


client.send_request = send_request
print(len(asyncio.run(client.discover_service('1800'))), 'services after', len(requests), 'request(s)')
