#!/usr/bin/env python3
"""C07 finding 2: K-frames that arrive before the application installed `channel.sink` are dropped by
`LeCreditBasedChannel.on_pdu` *without* being counted in the credit ledger.

The initiator cannot avoid the window: `create_l2cap_channel()` returns the channel only after the connection
response was processed, and an acceptor that writes as soon as it accepted the channel has its first frames
delivered before the initiator's coroutine resumes.  Effects (two Bumble devices on a LocalLink, max_credits=1):
the first SDU is lost ("received pdu without a sink"), the acceptor has spent its only credit, the initiator
still believes the acceptor holds it (peer_credits == 1 > threshold) and never returns one: that direction of
the channel is dead for ever although the receiver keeps consuming.  With fix-2 the frame is counted and
reassembled, only the delivery of an SDU completed without a sink is skipped: credits flow, the stream stays
framed, later SDUs arrive (the octets written before the sink existed are still dropped: documented assumption).

Usage:  PYTHONPATH=<bumble tree> python repro-2.py      exit 1 = defect present, 0 = absent
Obligation: C07/bumble.l2cap:LeCreditBasedChannel.on_pdu@no-sink/post#credits-conserved
"""
import asyncio
import logging
import os
import sys

for p in os.environ.get('PYTHONPATH', '').split(os.pathsep):
    if p and os.path.isdir(os.path.join(p, 'tests')):
        sys.path.insert(0, p)
from tests.test_utils import TwoDevices  # noqa: E402

from bumble import l2cap  # noqa: E402

logging.disable(logging.CRITICAL)


async def main():
    devices = await TwoDevices.create_with_connection()
    accepted = []

    def on_coc(channel):
        accepted.append(channel)
        channel.sink = lambda data: None
        channel.write(b'first')  # the acceptor talks first, right away
        channel.write(b'second')

    server = devices[1].create_l2cap_server(spec=l2cap.LeCreditBasedChannelSpec(max_credits=1), handler=on_coc)
    client = await devices.connections[0].create_l2cap_channel(spec=l2cap.LeCreditBasedChannelSpec(server.psm, max_credits=1))
    received = []
    client.sink = received.append  # first statement after the await: there is no earlier point to do this
    await asyncio.sleep(0.3)
    acceptor = accepted[0]
    print(f'initiator received {received}; its view of the acceptor\'s credits: {client.peer_credits}; '
          f'acceptor really holds {acceptor.credits}, still has {len(acceptor.out_queue)} buffer(s) queued, out_sdu={acceptor.out_sdu!r}')
    stalled = len(acceptor.out_queue) > 0 or acceptor.out_sdu is not None
    if b''.join(received) == b'firstsecond':
        print('OK: every octet written by the acceptor was delivered')
        return 0
    if not stalled and received == [b'second']:
        print('OK (ledger): the SDU that arrived before the sink existed was dropped as a whole, but it was counted: '
              'credits came back and the transfer went on')
        return 0
    print('DEFECT: the frame dropped for lack of a sink was not counted: the acceptor\'s credit is never returned, the transfer is stuck')
    return 1


if __name__ == '__main__':
    sys.exit(asyncio.run(main()))
