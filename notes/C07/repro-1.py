#!/usr/bin/env python3
"""C07 defect 1: the *enhanced* credit based connection request handler registers the new channel in
`ChannelManager.le_coc_channels` under Bumble's own (source) CID instead of the peer's CID.  A later
L2CAP_FLOW_CONTROL_CREDIT_IND names the *peer's* endpoint (Core Vol 3 Part A 4.24), so when the peer's CID
differs from the local allocation the credits are dropped ("received credits for an unknown channel"):
the sender stalls for ever once the initial credits are used up.

Usage:  PYTHONPATH=<bumble tree> python repro-1.py      exit 1 = defect present, 0 = absent
Obligation: C07/coc_enhanced_request_then_credit_1/assert (ch.credits == request.initial_credits + grant)
"""
import sys

from bumble import l2cap


class Host:
    def __init__(self):
        self.sent = []

    def send_l2cap_pdu(self, handle, cid, pdu):
        self.sent.append((handle, cid, bytes(pdu)))

    def send_acl_sdu(self, handle, sdu):
        self.sent.append((handle, None, bytes(sdu)))

    def on(self, *a, **k):
        pass


class Connection:
    handle = 0x0042
    peer_address = 'F0:F1:F2:F3:F4:F5'


def main():
    manager = l2cap.ChannelManager()
    manager._host = Host()
    accepted = []
    manager.create_le_credit_based_server(l2cap.LeCreditBasedChannelSpec(psm=0x27, mtu=100, mps=50, max_credits=4), accepted.append)
    connection = Connection()

    PEER_CID = 0x0055  # chosen by the peer; Bumble will allocate 0x0040 for its own endpoint
    request = l2cap.L2CAP_Credit_Based_Connection_Request(identifier=1, spsm=0x27, mtu=64, mps=32, initial_credits=1, source_cid=[PEER_CID])
    manager.on_pdu(connection, l2cap.L2CAP_LE_SIGNALING_CID, bytes(request))
    assert len(accepted) == 1, 'request refused?'
    channel = accepted[0]
    assert channel.destination_cid == PEER_CID and channel.source_cid != PEER_CID
    received = []
    channel.sink = received.append

    # the application writes 3 SDUs; one initial credit -> one frame goes out, the rest waits for credits
    for _ in range(3):
        channel.write(b'hello')
    frames_before = sum(1 for (_, cid, _) in manager._host.sent if cid is None)

    # the peer consumes the frame and returns credits, naming ITS endpoint
    credit = l2cap.L2CAP_LE_Flow_Control_Credit(identifier=2, cid=PEER_CID, credits=10)
    manager.on_pdu(connection, l2cap.L2CAP_LE_SIGNALING_CID, bytes(credit))
    frames_after = sum(1 for (_, cid, _) in manager._host.sent if cid is None)

    print(f'frames sent before credits: {frames_before}, after 10 credits: {frames_after}, channel.credits={channel.credits}, queued={len(channel.out_queue)}')
    # (the two waiting writes are coalesced into one SDU <= peer MTU: one more frame)
    if frames_after > frames_before and not channel.out_queue and channel.out_sdu is None and channel.credits == 10 - (frames_after - frames_before):
        print('OK: credits reached the channel, transfer completed')
        return 0
    print('DEFECT: credits named by the peer CID were not delivered to the channel; transfer stalled')
    return 1


if __name__ == '__main__':
    sys.exit(main())
