"""C03 defect 3: HCI_Disconnect for a handle the virtual controller does not know (or for a CIS handle whose CIS is
not established) is accepted with Command Status PENDING, but nothing that could ever produce the Disconnection
Complete event is started: the procedure accepted as pending is never concluded.

Run:  PYTHONPATH=<bumble tree> python repro-3.py     exit 1 = defect present, 0 = absent
Obligation: C03/bumble.controller:Controller.on_hci_disconnect_command@procedure/post#accepted-as-pending-implies-completion-source
"""
import asyncio
import sys

from bumble import hci
from bumble.controller import Controller
from bumble.link import LocalLink


class Tap:
    def __init__(self):
        self.events = []

    def on_packet(self, data):
        self.events.append(hci.HCI_Packet.from_bytes(data))


async def main():
    tap = Tap()
    controller = Controller('C', host_sink=tap, link=LocalLink())
    command = hci.HCI_Disconnect_Command(connection_handle=0x0EFF, reason=hci.HCI_REMOTE_USER_TERMINATED_CONNECTION_ERROR)
    controller.on_packet(bytes(command))
    await asyncio.sleep(0.2)
    status = [e for e in tap.events if isinstance(e, hci.HCI_Command_Status_Event) and e.command_opcode == command.op_code]
    complete = [e for e in tap.events if isinstance(e, hci.HCI_Disconnection_Complete_Event)]
    print(f'Command Status events: {[hex(e.status) for e in status]}; Disconnection Complete events: {len(complete)}')
    accepted = len(status) == 1 and status[0].status == hci.HCI_COMMAND_STATUS_PENDING
    # accepted as pending but nothing concludes it (no peer, no link activity: nothing else can happen in this world)
    return 1 if accepted and not complete else 0


if __name__ == '__main__':
    sys.exit(asyncio.run(main()))
