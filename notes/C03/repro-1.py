"""C03 defect 1: the virtual controller does not answer a command it has no handler for unless the command class is
an HCI_SyncCommand: an unimplemented *async* command and a command with an *unknown opcode* get no Command Complete
and no Command Status at all (Controller.on_hci_command_packet drops the default handler's result), so the caller of
Host.send_command waits forever and holds the command semaphore.

Run:  PYTHONPATH=<bumble tree> python repro-1.py     exit 1 = defect present, 0 = absent
Obligations: C03/bumble.controller:Controller.on_hci_command_packet@async-classes-without-handler/post#exactly-one-reply
             C03/bumble.controller:Controller.on_hci_command_packet@opcode-without-class/post#exactly-one-reply
"""
import asyncio
import sys

from bumble import hci
from bumble.controller import Controller
from bumble.host import Host
from bumble.link import LocalLink


class Tap:
    """records the HCI events that cross the controller -> host boundary"""

    def __init__(self):
        self.events = []

    def on_packet(self, data):
        self.events.append(hci.HCI_Packet.from_bytes(data))


def replies(tap, op_code):
    return [e for e in tap.events if isinstance(e, (hci.HCI_Command_Complete_Event, hci.HCI_Command_Status_Event)) and e.command_opcode == op_code]


async def boundary():
    """part 1: command packets in, events out, observed at the HCI boundary"""
    tap = Tap()
    controller = Controller('C', host_sink=tap, link=LocalLink())
    cases = [
        ('unimplemented async command (HCI_Inquiry_Command)', hci.HCI_Inquiry_Command(lap=0x9E8B33, inquiry_length=1, num_responses=0)),
        ('unknown opcode 0xFC7F', hci.HCI_Command(b'', op_code=0xFC7F)),
        ('named opcode without class (HCI_HOLD_MODE_COMMAND)', hci.HCI_Command(b'', op_code=hci.HCI_HOLD_MODE_COMMAND)),
        ('control: unimplemented sync command (HCI_Read_RSSI_Command)', hci.HCI_Read_RSSI_Command(handle=1)),
    ]
    bad = 0
    for label, command in cases:
        controller.on_packet(bytes(command))
        await asyncio.sleep(0.05)
        n = len(replies(tap, command.op_code))
        print(f'{label}: {n} reply event(s)')
        if n != 1:
            bad += 1
    return bad


async def end_to_end():
    """part 2: a caller of Host.send_command never returns and blocks the next command"""
    link = LocalLink()
    controller = Controller('C', link=link)
    host = Host(controller, controller)
    controller.host = host
    host.ready = True
    first = asyncio.ensure_future(host.send_command(hci.HCI_Inquiry_Command(lap=0x9E8B33, inquiry_length=1, num_responses=0)))
    second = asyncio.ensure_future(host.send_command(hci.HCI_Read_BD_ADDR_Command()))
    done, pending = await asyncio.wait([first, second], timeout=1.0)
    print(f'after 1 s: unimplemented async command answered={first in done}, following command answered={second in done}')
    for t in pending:
        t.cancel()
    await asyncio.gather(*pending, return_exceptions=True)
    return 0 if (first in done and second in done) else 1


async def main():
    bad = await boundary()
    bad += await end_to_end()
    return 1 if bad else 0


if __name__ == '__main__':
    sys.exit(asyncio.run(main()))
