"""Observation (outside the quantifier of C03: Bumble's virtual controller never sends such an event).
A controller that sends a flow-control "NOP" Command Complete (opcode 0, credits > 0) while a command is outstanding makes
Host.on_hci_command_complete_event release the command semaphore early; the next caller of Host.send_command then passes
acquire() and dies on `assert self.pending_command is None`.
Exit 1 = behaviour present."""
import asyncio
import sys

from bumble import hci
from bumble.host import Host


class Sink:
    def __init__(self):
        self.packets = []

    def on_packet(self, data):
        self.packets.append(data)


async def main():
    sink = Sink()
    host = Host(None, sink)
    first = asyncio.ensure_future(host.send_command(hci.HCI_Reset_Command()))
    await asyncio.sleep(0.01)
    # NOP command complete with one credit, while HCI_Reset is outstanding
    host.on_hci_command_complete_event(hci.HCI_Command_Complete_Event(num_hci_command_packets=1, command_opcode=0, return_parameters=b''))
    second = asyncio.ensure_future(host.send_command(hci.HCI_Read_BD_ADDR_Command()))
    await asyncio.sleep(0.05)
    bad = second.done() and isinstance(second.exception(), AssertionError)
    print('second caller:', repr(second.exception()) if second.done() else 'waiting (as it should)')
    for t in (first, second):
        if not t.done():
            t.cancel()
    await asyncio.gather(first, second, return_exceptions=True)
    return 1 if bad else 0


if __name__ == '__main__':
    sys.exit(asyncio.run(main()))
