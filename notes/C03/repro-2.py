"""C03 defect 2: HCI_LE_Read_Local_P_256_Public_Key_Command is an HCI_AsyncCommand, but its handler in the virtual
controller returns return-parameters instead of sending a Command Status.  Controller.on_hci_command_packet only logs
"Async command handlers should return None" and sends nothing: the command is never answered.

Run:  PYTHONPATH=<bumble tree> python repro-2.py     exit 1 = defect present, 0 = absent
Obligations: C03/bumble.controller:Controller.on_hci_le_read_local_p_256_public_key_command/post#exactly-one-status (and #returns-none)
"""
import asyncio
import sys

from bumble import hci
from bumble.controller import Controller
from bumble.link import LocalLink


class Tap:
    def __init__(self):
        self.events = []

    def on_packet(self, data):
        self.events.append(hci.HCI_Packet.from_bytes(data))


async def main():
    tap = Tap()
    controller = Controller('C', host_sink=tap, link=LocalLink())
    command = hci.HCI_LE_Read_Local_P_256_Public_Key_Command()
    assert isinstance(command, hci.HCI_AsyncCommand)
    controller.on_packet(bytes(command))
    await asyncio.sleep(0.05)
    got = [e for e in tap.events if isinstance(e, (hci.HCI_Command_Complete_Event, hci.HCI_Command_Status_Event)) and e.command_opcode == command.op_code]
    print(f'{command.name}: {len(got)} reply event(s): {[type(e).__name__ for e in got]}')
    return 0 if len(got) == 1 and isinstance(got[0], hci.HCI_Command_Status_Event) else 1


if __name__ == '__main__':
    sys.exit(asyncio.run(main()))
