#!/bin/bash
# Build the overlay venv (python 3.12 + z3-solver + cvc5 + jsonschema from the offline wheelhouse,
# plus a .pth that exposes /venv's site-packages so the editable `bumble` and its deps import).
set -e
cd "$(dirname "$0")"
if [ ! -x .venv/bin/python ] || ! .venv/bin/python -c "import z3, jsonschema" 2>/dev/null; then
  rm -rf .venv
  /venv/bin/python -m venv .venv
  PIP_NO_INDEX=1 .venv/bin/pip install -q --no-index --find-links /opt/veriftools/wheels z3-solver cvc5 jsonschema
  echo "import site; site.addsitedir('/venv/lib/python3.12/site-packages')" > .venv/lib/python3.12/site-packages/_overlay.pth
fi
.venv/bin/python -c "import z3, bumble; print('setup ok: z3', z3.get_version_string())"
