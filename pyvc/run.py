"""CLI: ./check <ID> [--tier quick|thorough] [--replay F] [--only substr] [--update-lock]

exit 0 held (all obligations discharged; KNOWN-FINDING lines allowed)
     1 violation   2 undecided   3 checker error
"""
from __future__ import annotations

import argparse
import asyncio
import concurrent.futures as cf
import glob
import hashlib
import importlib
import json
import os
import re
import sys
import time
import traceback

HERE = os.path.dirname(os.path.dirname(os.path.abspath(__file__)))

GLOBAL_ASSUMPTIONS = [
    'A1 single-threaded asyncio: code between two awaits is atomic',
    'A2 callbacks/sinks/listeners invoked by a verified function do not re-enter the object being verified',
    'A3 prefix-less struct formats are little-endian (host byte order)',
    'A4 hand-written models of built-ins (struct, slicing, int.from_bytes, dict, deque, bytes) validated only by the CPython cross-check',
    'A5 logger.* calls and the f-strings inside them are pure and non-raising (dropped by the extraction)',
    'A6 soundness of z3 4.x/5.1 and cvc5 1.0.3',
    'A7 reflection reads the same modules that run (PYTHONPATH=$VERIF_REPO first)',
    'Python ints are mathematical integers in the encoding (exact: CPython ints are unbounded)',
    'byte strings are z3 Seq(Int) with 0..255 assumed at every element read (type invariant of bytes)',
]


def load_contracts(prop=None):
    for fn in sorted(glob.glob(os.path.join(HERE, 'contracts', 'c*.py'))):
        name = os.path.basename(fn)[:-3]
        if prop and not name.lower().startswith(prop.lower()):
            continue
        importlib.import_module('contracts.' + name)


def top_key(top):
    return getattr(top, 'key', None) or top.name


# ---------------------------------------------------------------------------
# worker: one contract / lemma
# ---------------------------------------------------------------------------


def _big_frame(fn, reg, top, tier):
    return fn(reg, top, tier=tier)


# CPython 3.12 keeps interpreter frames in 16 KB data-stack chunks that are mmap'ed/munmap'ed whenever the frame stack
# crosses a chunk boundary; the engine's deep recursion can sit on such a boundary (20-100x slower generation in
# forked workers).  One frame with a huge declared stack size makes CPython allocate a single big chunk up front.
_big_frame.__code__ = _big_frame.__code__.replace(co_stacksize=150_000)


def process_top(job):
    prop, key, tier, seed, inner_procs, timeout_ms = job
    from . import contracts as C
    from . import replay as R
    from . import solve, vcgen

    t0 = time.time()
    out = {'key': key, 'names': {}, 'undecided': [], 'error': None, 'bounded': []}
    try:
        load_contracts(prop)
        top = next(t for t in C.REG.by_prop.get(prop, []) if top_key(t) == key)
        out['kind'] = 'lemma' if isinstance(top, C.Lemma) else 'contract'
        out['trusted'] = bool(getattr(top, 'trusted', False))
        out['note'] = getattr(top, 'note', '') or top.extra.get('note', '') if hasattr(top, 'extra') else ''
        custom = getattr(top, 'extra', {}).get('custom')
        if custom is not None:
            return custom(top, out, tier, seed)
        timeout_ms = max(timeout_ms, int(getattr(top, 'extra', {}).get('timeout_ms') or 0))  # contract kwarg timeout_ms=: a larger budget for an entry with a known slow obligation
        inner_procs = getattr(top, 'extra', {}).get('procs') or inner_procs  # families of tiny lemmas: procs=1 (no fork per lemma)
        res = _big_frame(vcgen.verify, C.REG, top, tier)
        out['gen_s'] = time.time() - t0
        out['paths'] = res.paths
        out['normal_paths'] = res.normal_paths
        out['exc_paths'] = res.exc_paths
        out['sha'] = res.sha
        out['inlined'] = sorted(res.inlined)
        out['used'] = sorted(res.used)
        out['feas_checks'] = res.feas_checks
        out['undecided'] = sorted(set(res.undecided))
        never_returns = bool(getattr(top, 'extra', {}).get('native_run_for'))  # a task that loops for ever by design (its iterations end in loop cuts)
        if res.normal_paths == 0 and not res.exc_paths and not res.undecided and not (never_returns and res.paths > 0):
            # every path died as infeasible (e.g. the assumed contract of a callee contradicts the state): nothing was proved
            out['undecided'].append('no feasible path reaches the end of the function: the check would be vacuous')
        # contract kwarg solver_procs=1: discharge in-process (forking a solver pool costs seconds per entry, which
        # dominates for families of many small entries)
        results = solve.discharge_all(res.obligations, timeout_ms, procs=getattr(top, 'extra', {}).get('solver_procs', inner_procs), seed=seed, both=(tier == 'thorough'))
        xc = out['xcheck'] = {'samples': 0, 'held': 0, 'violated': 0, 'precondition-false': 0, 'error': 0, 'no-model': 0, 'failed': []}
        for ob, r in zip(res.obligations, results):
            if ob.kind == 'xcheck':
                # CPython cross-check: the model of a completed path is run through the real function
                xc['samples'] += 1
                if r.get('status') != 'proved' or 'cex' not in r:
                    xc['no-model'] += 1
                    if os.environ.get('PYVC_XCHECK_DEBUG'):
                        print(f"xcheck {key}: no-model: {r.get('status')} {str(r.get('detail'))[:300]} {r.get('cex_error')}", file=sys.stderr)
                    continue
                try:
                    rr = R.run_native(top, C.REG, r['cex'])
                except (Exception, asyncio.CancelledError) as ex:  # noqa: BLE001
                    rr = {'outcome': 'error', 'detail': repr(ex)}
                oc = rr.get('outcome', 'error')
                if oc == 'violated' and all(str(f).startswith(('exc#AttributeError', 'exc#TypeError', 'exc#NameError')) for f in rr.get('failed') or ['x']):
                    oc = 'error'  # only witnesses the stub environment (same rule as replay.confirms)
                xc[oc] = xc.get(oc, 0) + 1
                if os.environ.get('PYVC_XCHECK_DEBUG') and oc != 'held':
                    print(f'xcheck {key}: {oc}: {rr.get("detail") or rr.get("failed")} {rr.get("exception") or ""}', file=sys.stderr)
                    if os.environ.get('PYVC_XCHECK_DEBUG') == '2':
                        print('   state:', json.dumps(R.to_jsonable(r['cex']))[:3000], file=sys.stderr)
                if oc == 'violated' and len(xc['failed']) < 3:
                    xc['failed'].append({'failed': rr.get('failed'), 'state': R.to_jsonable(r['cex']), 'exception': rr.get('exception')})
                continue
            e = out['names'].setdefault(ob.name, {'kind': ob.kind, 'n': 0, 'proved': 0, 'refuted': 0, 'unknown': 0, 'vacuous': 0, 'disagree': 0, 'time': 0.0, 'max_time': 0.0, 'backends': {}, 'abstracted': False, 'witnesses': [], 'details': [], 'expect_sat': ob.expect_sat, 'loc': ob.loc})
            e['n'] += 1
            st = r['status']
            e[st] = e.get(st, 0) + 1
            e['time'] += r.get('time', 0.0)
            e['max_time'] = max(e['max_time'], r.get('time', 0.0))
            e['backends'][r.get('backend', '?')] = e['backends'].get(r.get('backend', '?'), 0) + 1
            e['abstracted'] = e['abstracted'] or ob.abstracted
            if st in ('unknown', 'disagree') and len(e['details']) < 3:
                e['details'].append(f"{ob.loc}: {r.get('detail', '')}"[:400])
            if st == 'refuted' and len(e['witnesses']) < 4:
                w = {'loc': ob.loc, 'decisions': list(ob.info.get('decisions', ())), 'info': {k: v for k, v in ob.info.items() if k in ('exception', 'at')}, 'solver': r.get('backend'), 'detail': r.get('detail', '')}
                if 'cex' in r:
                    w['state'] = r['cex']
                if 'cex_head' in r:
                    w['head'] = r['cex_head']
                # native replay
                tries = []
                if 'state' in w:
                    tries.append(('entry', w['state']))
                if 'head' in w:
                    tries.append(('loop-head', w['head']))
                w['replay'] = {'outcome': 'no-model'}
                for label, stt in tries:
                    try:
                        rr = R.run_native(top, C.REG, stt)
                    except (Exception, asyncio.CancelledError) as ex:  # noqa: BLE001
                        rr = {'outcome': 'error', 'detail': repr(ex)}
                    rr['from'] = label
                    rr['confirms'] = R.confirms(ob.name, ob.kind, ob.info, rr)
                    w['replay'] = rr
                    if rr['confirms']:
                        w['replay_state'] = stt
                        break
                if not w['replay'].get('confirms') and 'state' in w and len(e['witnesses']) < 2 and not getattr(top, 'extra', {}).get('no_native_search'):
                    try:
                        hit = R.search_near(top, C.REG, w['state'], lambda rr_: R.confirms(ob.name, ob.kind, ob.info, rr_))
                    except Exception:  # noqa: BLE001
                        hit = None
                    if hit is not None:
                        w['replay_state'], rr = hit
                        rr['confirms'] = True
                        w['replay'] = rr
                e['witnesses'].append(w)
        if str(out.get('note') or '').startswith('bounded('):
            # an entry labelled `bounded(k)` in its note is a bounded stand-in: its obligations are reported under
            # `bounded` and never counted as discharged (a refuted one is still a violation)
            nb = 0
            for e in out['names'].values():
                if not e['expect_sat']:
                    e['kind'] = 'bounded'
                    nb += e['n']
            out['bounded'].append({'entry': key, 'note': out['note'], 'obligations': nb, 'all_proved': all(e['proved'] == e['n'] for e in out['names'].values())})
        elif getattr(top, 'extra', {}).get('bounded'):
            # a bounded stand-in (`bounded='<the bound>'` on the lemma): its obligations are reported under `bounded`
            # and never counted as discharged; a refuted one still alarms
            for name, e in out['names'].items():
                if not e['expect_sat']:
                    e['kind'] = 'bounded'
            out['bounded'].append({'entry': key, 'bound': top.extra['bounded'], 'obligations': sum(e['n'] for e in out['names'].values() if not e['expect_sat']),
                                   'undecided': sum(e['unknown'] for e in out['names'].values() if not e['expect_sat'])})
    except Exception:
        out['error'] = traceback.format_exc()
    out['wall_s'] = time.time() - t0
    return out


# ---------------------------------------------------------------------------
# known findings / lock
# ---------------------------------------------------------------------------


def load_known(prop):
    fn = os.path.join(HERE, 'known_findings.txt')
    found = []
    if not os.path.exists(fn):
        return found
    for line in open(fn):
        line = line.strip()
        m = re.match(r'^finding: property=(\S+) obligation=(\S+)(?: witness=(.*?))? :: (.*)$', line)
        if m and m.group(1) == prop:
            found.append({'obligation': m.group(2), 'witness': m.group(3), 'text': m.group(4)})
    return found


def witness_matches(expr, w):
    if not expr or expr == 'any':
        return True
    try:
        st = w.get('replay_state') or w.get('state') or {}
        return bool(eval(expr, {'__builtins__': {'len': len, 'any': any, 'all': all, 'isinstance': isinstance, 'bytes': bytes, 'int': int}}, {'env': st.get('env', {}), 'ghost': st.get('ghost', {}), 'w': w}))
    except Exception:
        return False


def load_lock():
    fn = os.path.join(HERE, 'obligations.lock')
    if not os.path.exists(fn):
        return set()
    return {l.strip() for l in open(fn) if l.strip() and not l.startswith('#')}


def write_lock(prop, names):
    fn = os.path.join(HERE, 'obligations.lock')
    cur = load_lock()
    cur = {n for n in cur if not n.startswith(prop + '/')} | set(names)
    with open(fn, 'w') as f:
        f.write('# obligations discharged on the unchanged tree (regenerate: ./check <ID> --update-lock)\n')
        for n in sorted(cur):
            f.write(n + '\n')


def safe(name):
    return re.sub(r'[^A-Za-z0-9_.#-]+', '_', name)[:150]


# ---------------------------------------------------------------------------
# main
# ---------------------------------------------------------------------------


def main():
    import logging

    logging.disable(logging.CRITICAL)  # native replays / cross-check runs execute real bumble code: keep its log output out of the report
    ap = argparse.ArgumentParser()
    ap.add_argument('prop')
    ap.add_argument('--tier', default=os.environ.get('VERIF_TIER') or 'quick')
    ap.add_argument('--only', default=None)
    ap.add_argument('--replay', default=None)
    ap.add_argument('--update-lock', action='store_true')
    ap.add_argument('--no-evidence', action='store_true')
    ap.add_argument('-v', action='store_true')
    a = ap.parse_args()
    if a.tier not in ('quick', 'thorough'):
        a.tier = 'quick'
    seed = int(os.environ.get('VERIF_SEED', '0') or 0)
    if a.tier == 'thorough':
        os.environ.setdefault('PYVC_XCHECK', '40')  # more CPython cross-check samples per entry (inherited by the workers)
    prop = a.prop
    t_start = time.time()
    from . import contracts as C
    from . import replay as R

    try:
        load_contracts(prop)
    except Exception:
        traceback.print_exc()
        print(f'CHECKER-ERROR property={prop} contracts failed to load')
        sys.exit(3)

    if a.replay:
        sys.exit(do_replay(prop, a.replay))

    tops = [t for t in C.REG.by_prop.get(prop, []) if not a.only or a.only in top_key(t)]
    if not tops:
        print(f'CHECKER-ERROR property={prop} no contracts registered')
        sys.exit(3)
    timeout_ms = int(os.environ.get('PYVC_TIMEOUT_MS') or 0) or (40000 if a.tier == "quick" else 120000)
    ncpu = int(os.environ.get('PYVC_PROCS') or 0) or os.cpu_count() or 4
    outer = max(1, min(len(tops), 8, max(1, ncpu // 2)))
    inner = max(2, (ncpu - 1) // outer)
    if all((getattr(t, 'extra', {}) or {}).get('procs') == 1 for t in tops):
        # a family of tiny lemmas that discharge their obligations in-process: all the parallelism goes to the outer pool
        outer = max(1, min(len(tops), ncpu))
    jobs = [(prop, top_key(t), a.tier, seed, inner, timeout_ms) for t in tops]
    results = []
    if len(jobs) == 1:
        results = [process_top(jobs[0])]
    else:
        with cf.ProcessPoolExecutor(max_workers=outer) as pool:
            for out_ in pool.map(process_top, jobs, chunksize=max(1, min(8, len(jobs) // (outer * 4)))):
                results.append(out_)
                if os.environ.get('PYVC_PROGRESS'):
                    print(f'  .. {out_["key"]} gen={out_.get("gen_s", 0):.1f}s wall={out_.get("wall_s", 0):.1f}s err={bool(out_.get("error"))}', file=sys.stderr, flush=True)

    known = load_known(prop)
    lock = load_lock()
    violations = []  # (obligation name, replay path, suffix)
    known_lines = []
    undecided = []
    errors = []
    n_obl = n_dis = n_known = 0
    backends = {}
    solver_time = 0.0
    functions = []
    samples = []
    covers = {}
    discharged_names = []
    bounded = []
    os.makedirs(os.path.join(HERE, 'replays', prop), exist_ok=True)
    xcheck = {'samples': 0, 'held': 0, 'violated': 0, 'precondition-false': 0, 'error': 0, 'no-model': 0}
    xcheck_failed = []
    for out in results:
        key = out['key']
        for k_, v_ in (out.get('xcheck') or {}).items():
            if k_ == 'failed':
                xcheck_failed.extend({'entry': key, **f} for f in v_)
            else:
                xcheck[k_] = xcheck.get(k_, 0) + v_
        if out.get('error'):
            errors.append(f'{key}: {out["error"].strip().splitlines()[-1]}')
            if a.v:
                print(out['error'])
            continue
        functions.append({'target': key, 'kind': out.get('kind'), 'sha256_16': out.get('sha', ''), 'inlined': out.get('inlined', []), 'callee_contracts_used': out.get('used', []), 'paths': out.get('paths', 0), 'trusted': out.get('trusted', False)})
        bounded.extend(out.get('bounded', []))
        for u in out['undecided']:
            undecided.append(f'{key}: {u}')
        if not out['names'] and not out.get('trusted'):
            errors.append(f'{key}: zero obligations generated')
        for name, e in out['names'].items():
            for bk, c in e['backends'].items():
                backends[bk] = backends.get(bk, 0) + c
            solver_time += e['time']
            if e['expect_sat']:
                covers[name] = {'instances': e['n'], 'sat': e['proved']}
                if e['proved'] == 0:
                    errors.append(f'{name}: vacuous (requires unsatisfiable on every path)')
                continue
            if e.get('disagree'):
                errors.append(f'{name}: solvers disagree: {e["details"]}')
                continue
            if e.get('kind') == 'bounded' and not e['refuted'] and not e['unknown'] and not e.get('vacuous'):
                continue  # bounded stand-ins are reported under `bounded`, never counted as discharged
            if e['refuted']:
                # triage by replay
                handled = False
                for w in e['witnesses']:
                    rp = w.get('replay', {})
                    kf = next((k for k in known if k['obligation'] == name and witness_matches(k['witness'], w)), None)
                    if kf is not None:
                        known_lines.append(f'KNOWN-FINDING: property={prop} {name} {kf["text"]}')
                        n_known += e['n']
                        handled = True
                        break
                    path = os.path.join(HERE, 'replays', prop, safe(name) + '.json')
                    doc = {'property': prop, 'obligation': name, 'top': key, 'location': w.get('loc'), 'decisions': w.get('decisions'), 'solver': w.get('solver'), 'solver_detail': w.get('detail'), 'info': w.get('info'), 'state': R.to_jsonable(w.get('replay_state') or w.get('state')), 'head': R.to_jsonable(w.get('head')), 'native': rp}
                    if rp.get('confirms'):
                        json.dump(doc, open(path, 'w'), indent=1)
                        violations.append((name, path, ''))
                        handled = True
                        break
                if not handled:
                    w = e['witnesses'][0] if e['witnesses'] else {}
                    rp = w.get('replay', {})
                    path = os.path.join(HERE, 'replays', prop, safe(name) + '.json')
                    doc = {'property': prop, 'obligation': name, 'top': key, 'location': w.get('loc'), 'decisions': w.get('decisions'), 'solver': w.get('solver'), 'solver_detail': w.get('detail'), 'info': w.get('info'), 'state': R.to_jsonable(w.get('state')), 'head': R.to_jsonable(w.get('head')), 'native': rp, 'note': 'obligation refuted by the solver; native replay of the counter-model did not reproduce a contract violation'}
                    json.dump(doc, open(path, 'w'), indent=1)
                    if name in lock:
                        violations.append((name, path, ' no-failing-input-found'))
                    elif e.get('kind') == 'exc' and any(l.startswith(name.rsplit('/', 1)[0] + '/') for l in lock):
                        # "no exception (other than the declared ones) escapes" is an implicit obligation of every entry: it held
                        # on the unchanged tree (the entry is in obligations.lock and had no such escaping path), now a path raises
                        violations.append((name, path, ' no-failing-input-found'))
                    elif rp.get('outcome') == 'held' and not e['abstracted'] and w.get('replay', {}).get('from') == 'entry' and 'head' not in w and e.get('kind') not in ('inv-entry', 'inv-preserved', 'variant'):
                        # (loop invariants / variants are not evaluated by the native run: "held" says nothing about them)
                        errors.append(f'{name}: counter-model does not replay although no abstraction was used (engine model of a primitive?)')
                    else:
                        undecided.append(f'{name}: refuted by solver, replay {rp.get("outcome")} (not in obligations.lock)')
                continue
            if e['unknown'] or e.get('vacuous'):
                undecided.append(f'{name}: {e["unknown"]} instance(s) undecided {e["details"]}')
                n_obl += e['n']
                n_dis += e['proved']
                continue
            n_obl += e['n']
            n_dis += e['proved']
            discharged_names.append(name)
            if len(samples) < 12:
                samples.append({'obligation': name, 'instances': e['n'], 'max_time_s': round(e['max_time'], 3), 'backends': e['backends'], 'at': e['loc']})

    wall = time.time() - t_start
    # ------------------------------------------------------------------ report
    for out in results:
        if out.get('error'):
            continue
        nn = sum(e['n'] for e in out['names'].values())
        print(f'[{out["key"]}] paths={out.get("paths")} obligations={nn} gen={out.get("gen_s", 0):.1f}s wall={out.get("wall_s", 0):.1f}s')
        if a.v:
            for name, e in out['names'].items():
                print(f'    {name}: n={e["n"]} proved={e["proved"]} refuted={e["refuted"]} unknown={e["unknown"]} max={e["max_time"]:.2f}s {e["backends"]}')
    for l in known_lines:
        print(l)
    for u in undecided:
        print('UNDECIDED:', u)
    for e in errors:
        print('CHECKER-ERROR:', e)
    for name, path, suffix in violations:
        print(f'VIOLATION property={prop} replay={path}{suffix}')
        print(f'    obligation {name}')
    code = 0
    if errors:
        code = 3
    if undecided and code == 0:
        code = 2
    if violations:
        code = 1
    if xcheck['samples']:
        print(f'cross-check (CPython): samples={xcheck["samples"]} held={xcheck["held"]} violated={xcheck["violated"]} not-rebuilt={xcheck["precondition-false"] + xcheck["error"] + xcheck["no-model"]}')
        for f in xcheck_failed[:5]:
            print(f'    cross-check violated: {f["entry"]}: {f.get("failed")}')
    print(f'{prop}: obligations={n_obl} discharged={n_dis} known_findings={n_known} violations={len(violations)} undecided={len(undecided)} errors={len(errors)} wall={wall:.1f}s exit={code}')

    if a.update_lock and code == 0:
        write_lock(prop, discharged_names)
    if not a.no_evidence and not a.only:
        ev = {
            'property_id': prop,
            'tier': a.tier,
            'seed': seed,
            'level': 'proof',
            'coverage': {
                'obligations': n_obl,
                'discharged': n_dis,
                'checker_cmd': f'./check {prop} --tier {a.tier}',
                'trusted_base': GLOBAL_ASSUMPTIONS + prop_trusted(prop, tops),
                'functions_under_contract': functions,
                'obligation_names': len(discharged_names),
                'backends': backends,
                'solver_time_s': round(solver_time, 2),
                'samples': samples,
                'bounded': bounded,
                'known_findings': n_known,
                'known_finding_lines': known_lines,
                'covers': covers,
                'undecided': undecided,
                'checker_errors': errors,
                'cross_check': dict(xcheck, what='CPython cross-check: for up to PYVC_XCHECK (default 6) completed paths per entry a model of the path condition is concretised into real objects, the real function is run under CPython and the contract clauses are evaluated natively; held = clauses true natively, precondition-false/error = the model could not be rebuilt faithfully as real objects (not counted), violated = the native run contradicts a clause', violated_examples=xcheck_failed[:5]),
                'explanation': 'every obligation is a verification condition generated from the AST of the function in /repo (re-read on this run) against its sidecar contract; discharged = proved unsat(pc and not goal) by z3 or cvc5',
            },
            'assumptions': GLOBAL_ASSUMPTIONS + prop_trusted(prop, tops),
            'wall_s': round(wall, 2),
            'violations': len(violations),
        }
        os.makedirs(os.path.join(HERE, 'evidence'), exist_ok=True)
        json.dump(ev, open(os.path.join(HERE, 'evidence', f'{prop}.json'), 'w'), indent=1)
    sys.exit(code)


def prop_trusted(prop, tops):
    out = []
    for t in tops:
        for n in getattr(t, 'extra', {}).get('assumes', []):
            out.append(f'{top_key(t)}: {n}')
        if getattr(t, 'trusted', False):
            out.append(f'{top_key(t)}: contract trusted (body not verified)')
    for f in sorted(glob.glob(os.path.join(HERE, 'contracts', f'{prop.lower()}_*.py'))):
        mod = sys.modules.get('contracts.' + os.path.basename(f)[:-3])
        if mod is not None:
            out.extend(x for x in getattr(mod, 'ENVIRONMENT', []) if x not in out)
    return out


def do_replay(prop, path):
    from . import contracts as C
    from . import replay as R

    doc = json.load(open(path))
    top = next((t for t in C.REG.by_prop.get(prop, []) if top_key(t) == doc['top']), None)
    if top is None:
        print(f'no contract {doc["top"]}')
        return 3
    custom = getattr(top, 'extra', {}).get('custom_replay')
    if custom is not None:
        return custom(top, doc)
    st = R.from_jsonable(doc.get('state'))
    if not st:
        print(f'replay file carries no concrete state (obligation {doc["obligation"]}); solver: {doc.get("solver_detail")}')
        return 2
    rr = R.run_native(top, C.REG, st)
    print(json.dumps(rr, indent=1, default=repr))
    if rr['outcome'] == 'violated':
        print(f'VIOLATION property={prop} replay={path}')
        return 1
    return 0


if __name__ == '__main__':
    main()
