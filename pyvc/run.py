"""CLI: ./check <ID> [--tier quick|thorough] [--replay F] [--only substr]"""
from __future__ import annotations

import argparse
import glob
import importlib
import os
import sys
import time

from . import contracts as C
from . import solve, vcgen


def load_contracts(prop=None):
    here = os.path.dirname(os.path.dirname(os.path.abspath(__file__)))
    for fn in sorted(glob.glob(os.path.join(here, 'contracts', 'c*.py'))):
        name = os.path.basename(fn)[:-3]
        if prop and not name.lower().startswith(prop.lower()):
            continue
        importlib.import_module('contracts.' + name)


def main():
    ap = argparse.ArgumentParser()
    ap.add_argument('prop')
    ap.add_argument('--tier', default=os.environ.get('VERIF_TIER', 'quick'))
    ap.add_argument('--only', default=None)
    ap.add_argument('--replay', default=None)
    ap.add_argument('-v', action='store_true')
    a = ap.parse_args()
    load_contracts(a.prop)
    tops = C.REG.by_prop.get(a.prop, [])
    for top in tops:
        key = getattr(top, 'key', None) or top.name
        if a.only and a.only not in key:
            continue
        t0 = time.time()
        res = vcgen.verify(C.REG, top, tier=a.tier)
        t1 = time.time()
        print(f'== {key}: {res.paths} paths, {len(res.obligations)} obligations, feas={res.feas_checks}, gen {t1-t0:.1f}s; normal={res.normal_paths} exc={res.exc_paths} inlined={sorted(res.inlined)}')
        for u in sorted(set(res.undecided)):
            print('   UNDECIDED:', u)
        agg = {}
        results = solve.discharge_all(res.obligations, 20000)
        for ob, r in zip(res.obligations, results):
            agg.setdefault(ob.name, []).append((r['status'], r['time'], r['backend']))
            if r['status'] not in ('proved',) or a.v:
                print('   ', ob.name, r['status'], f"{r['time']:.2f}s", r['backend'], ob.loc, r.get('detail', ''), ob.info.get('decisions'))
                if 'cex' in r:
                    print('        cex:', r['cex'])
        for n, rs in agg.items():
            st = {s for s, _, _ in rs}
            print(f'   {n}: {len(rs)} instance(s) {sorted(st)} max {max(t for _, t, _ in rs):.2f}s')
        print(f'   total {time.time()-t0:.1f}s')


if __name__ == '__main__':
    main()
