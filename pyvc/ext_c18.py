"""Engine extension for C18 (registers into the model registries of pyvc.models_calls).

* `object.__new__(cls)`: allocation of a blank instance.  When the analysed world has a *record heap* for the
  class (a ghost field of type MapOf(<model of cls>)), the new object is a fresh record of that heap (a key outside
  the domain, which is then added), so that it can be stored in symbolic-length lists of records (`ListOf(Rec(..))`)
  and aliases correctly with the elements read back from such lists.  Otherwise a plain heap object.
"""
from __future__ import annotations

import z3

from . import models as M
from .engine import Unsupported, mk_int
from .models_calls import NATIVE_MODELS
from .values import ElemRef, MObj, Obj, Ref


def model_name_of(cls):
    return f'{cls.__module__}:{cls.__qualname__}'


def find_rec_heap(ex, cls):
    g = ex.obj(ex.ghost) if ex.ghost is not None else None
    if g is None:
        return None
    for v in g.fields.values():
        if isinstance(v, Ref) and isinstance(ex.obj(v), MObj) and ex.obj(v).elem_cls is cls:
            return Ref(v.oid)
    return None


def rec_alloc(ex, mref):
    """a fresh record: its key is outside the current domain (every finite heap has a fresh identity: this is the
    meaning of allocation, stated as a definition), fields unset (arbitrary until written)"""
    ho = ex.wobj(mref)
    k = ex.fresh_sym('int', 'new')
    ex.add_def(z3.Not(z3.Select(ho.dom, k.t)))
    ho.dom = z3.Store(ho.dom, k.t, True)
    return ElemRef(mref, k)


def m_object_new(ex, cls, *args, **kwargs):
    if not isinstance(cls, type):
        raise Unsupported('object.__new__ of a symbolic class')
    mref = find_rec_heap(ex, cls)
    if mref is not None:
        return rec_alloc(ex, mref)
    if not cls.__module__.startswith('bumble'):
        raise Unsupported(f'object.__new__({cls!r})')
    return ex.alloc(Obj(cls, {}, ex.cfg.class_model_for(cls)))


NATIVE_MODELS[object.__new__] = m_object_new


# ---------------------------------------------------------------------------
# text whose only observable content is its UTF-8 encoding
# ---------------------------------------------------------------------------
class Utf8Str(str):
    """A str known by its UTF-8 encoding `b` (a symbolic byte string).  UTF-8 is injective, so two such strings are
    equal iff their encodings are; `encode('utf-8')` gives the encoding back; `bytes.decode('utf-8')` produces one
    when the bytes are valid UTF-8 (uninterpreted predicate `utf8_valid`) and raises UnicodeDecodeError otherwise.
    The methods below are executed symbolically (this module counts as specification code)."""

    def encode(self, encoding='utf-8', errors='strict'):
        return self.b

    def __eq__(self, other):
        return isinstance(other, Utf8Str) and self.b == other.b

    def __ne__(self, other):
        return not (isinstance(other, Utf8Str) and self.b == other.b)

    def __hash__(self):
        return 0

    def __len__(self):
        raise NotImplementedError('number of code points of a symbolic string')


_utf8_valid = z3.Function('utf8_valid', z3.SeqSort(z3.IntSort()), z3.BoolSort())


def utf8_valid_term(ex, b):
    from .engine import zbytes

    return _utf8_valid(zbytes(ex.as_bytes_value(b)))


def m_decode(ex, recv, args, kwargs):
    from . import models_calls as MC
    from .engine import mk_bool
    from .values import OpaqueStr

    enc = args[0] if args else kwargs.get('encoding', 'utf-8')
    if not isinstance(enc, str) or enc.lower().replace('_', '-') not in ('utf-8', 'utf8') or len(args) > 1 or 'errors' in kwargs:
        return OpaqueStr()
    # the outcome is named (a Bool constant defined as utf8_valid(bytes)): the case split then costs no sequence
    # reasoning inline; whether the failing case is possible is decided when its obligations are discharged
    ok = ex.fresh_sym('bool', 'utf8ok')
    ex.add_def(ok.t == utf8_valid_term(ex, recv))
    if not ex.spec_mode:
        if not ex.branch(ok):
            ex.raise_(UnicodeDecodeError, 'utf-8', b'', 0, 1, 'invalid start byte')
    return ex.alloc(Obj(Utf8Str, {'b': ex.as_bytes_value(recv)}, ex.cfg.class_model_for(Utf8Str)))


import pyvc.models_calls as _MC  # noqa: E402

_MC.DECODE_MODEL = m_decode


def q_utf8_valid(ex, args, kwargs):
    from .engine import mk_bool

    (b,) = args
    return mk_bool(utf8_valid_term(ex, b))


def utf8_valid(b):
    """is the byte string valid UTF-8 (natively decided by decoding; symbolically an uninterpreted predicate)"""
    try:
        bytes(b).decode('utf-8')
        return True
    except UnicodeDecodeError:
        return False


from . import seqspec as _SS  # noqa: E402

_SS.SPEC_FORMS[utf8_valid] = q_utf8_valid
