"""Engine extension for C18 (registers into the model registries of pyvc.models_calls).

* `object.__new__(cls)`: allocation of a blank instance.  When the analysed world has a *record heap* for the
  class (a ghost field of type MapOf(<model of cls>)), the new object is a fresh record of that heap (a key outside
  the domain, which is then added), so that it can be stored in symbolic-length lists of records (`ListOf(Rec(..))`)
  and aliases correctly with the elements read back from such lists.  Otherwise a plain heap object.
"""
from __future__ import annotations

import z3

from . import models as M
from .engine import Unsupported, mk_int
from .models_calls import NATIVE_MODELS
from .values import ElemRef, MObj, Obj, Ref


def model_name_of(cls):
    return f'{cls.__module__}:{cls.__qualname__}'


def find_rec_heap(ex, cls):
    g = ex.obj(ex.ghost) if ex.ghost is not None else None
    if g is None:
        return None
    for v in g.fields.values():
        if isinstance(v, Ref) and isinstance(ex.obj(v), MObj) and ex.obj(v).elem_cls is cls:
            return Ref(v.oid)
    return None


def rec_alloc(ex, mref):
    """a fresh record: its key is outside the current domain (every finite heap has a fresh identity: this is the
    meaning of allocation, stated as a definition), fields unset (arbitrary until written)"""
    ho = ex.wobj(mref)
    k = ex.fresh_sym('int', 'new')
    ex.add_def(z3.Not(z3.Select(ho.dom, k.t)))
    ho.dom = z3.Store(ho.dom, k.t, True)
    return ElemRef(mref, k)


def m_object_new(ex, cls, *args, **kwargs):
    if not isinstance(cls, type):
        raise Unsupported('object.__new__ of a symbolic class')
    mref = find_rec_heap(ex, cls)
    if mref is not None:
        return rec_alloc(ex, mref)
    if not cls.__module__.startswith('bumble'):
        raise Unsupported(f'object.__new__({cls!r})')
    return ex.alloc(Obj(cls, {}, ex.cfg.class_model_for(cls)))


NATIVE_MODELS[object.__new__] = m_object_new
