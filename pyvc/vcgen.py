"""Verification-condition generation for one contract / lemma: pre-state
construction, modular calls, loop cut rule, frame check, obligations."""
from __future__ import annotations

import ast
import asyncio
import os
import fnmatch
import importlib
import sys
import types

import z3

from . import contracts as C
from . import models as M
from . import source
from .engine import (
    ConcIter,
    EngineError,
    Explorer,
    Infeasible,
    Obligation,
    Path,
    PathEnd,
    PyExc,
    ReturnSig,
    Unsupported,
    mk_bool,
    mk_int,
    zbool,
    zint,
)
from .values import (
    BAObj,
    Bound,
    Builtin,
    CallbackVal,
    DObj,
    ElemRef,
    ExtObj,
    Frame,
    Func,
    LObj,
    MObj,
    Obj,
    OpaqueStr,
    Ref,
    Sym,
    Unknown,
    sort_of,
)


class OldView:
    """`old` in a clause: attribute access yields the entry value of a
    parameter / ghost, read in the snapshot heap."""

    def __init__(self, env, snap):
        self.env = env
        self.snap = snap


def mark_old(v, snap):
    if isinstance(v, Ref) and v.old is None:
        return Ref(v.oid, snap)
    if isinstance(v, ElemRef) and v.mref.old is None:
        return ElemRef(Ref(v.mref.oid, snap), v.key)  # the record as it was in the snapshot of its map
    if isinstance(v, tuple):
        return tuple(mark_old(x, snap) for x in v)
    return v


def kind_of_T(t):
    if t is C.Int or isinstance(t, C.IntRange):
        return 'int'
    if t is C.Bool:
        return 'bool'
    if t is C.Bytes or isinstance(t, C.BytesN):
        return 'bytes'
    if isinstance(t, C.Opaque):
        return ('opq', t.tag)
    if isinstance(t, C.TupleOf):
        return ('tup', tuple(kind_of_T(x) for x in t.ts))
    if isinstance(t, C.ListOf):
        return ('seq', kind_of_T(t.t))
    if isinstance(t, C.ExtT) and hasattr(t, 'kind'):
        return t.kind()
    if isinstance(t, C.Rec):
        return ('rec', t.elem)
    raise Unsupported(f'type {t!r} has no element kind')


def resolve_class(name):
    name = name.split('#')[0]
    modname, qn = name.split(':')
    mod = importlib.import_module(modname)
    o = mod
    for part in qn.split('.'):
        if part == '<locals>':
            raise Unsupported('class inside function')
        o = getattr(o, part)
    return o


_MUTATORS = {'append', 'appendleft', 'extend', 'insert', 'pop', 'popleft', 'remove', 'clear', 'add', 'discard', 'update', 'setdefault', 'sort', 'reverse'}


class LoopSpec:
    def __init__(self, cfg, top, func, label):
        self.cfg = cfg
        self.top = top
        self.func = func
        self.label = label
        key = label if cfg.is_target(func) else (func.qualname, label)
        self.inv = top.invariants.get(key)
        self.dec = top.decreases.get(key)
        self.locals_t = top.loop_locals.get(key, {})
        self.key = key
        # optional per-loop frame: `loop_modifies={ordinal: [...]}` (a subset of `modifies`) is what this
        # loop may change; only that is havocked at the loop head, and the rest of the heap is checked
        # unchanged over one iteration (obligations `loop-frame`)
        self.mods = ((getattr(top, 'extra', None) or {}).get('loop_modifies') or {}).get(key)

    def name(self, kind):
        return self.cfg.obl_name(None, kind, f'loop{self.label}' if not isinstance(self.key, tuple) else f'{self.key[0]}.loop{self.label}')

    def env(self, path):
        env = dict(path.entry_env)
        # visible locals of the current activation override parameters of the same name
        for fr in reversed(path.scope):
            env.update(path.obj(fr).vars)
        for n, t in self.locals_t.items():
            if isinstance(t, C.OrUnbound) and n not in env:
                env[n] = C.UNBOUND
        env['old'] = OldView(path.entry_env, 'old')
        return env

    def clauses(self, path):
        return self.cfg.clauses(path, self.inv, self.env(path))

    def check_inv(self, path, tag):
        for i, cl in enumerate(self.cfg.clauses(path, self.inv, self.env(path), oblige=True)):
            path.oblige(self.name(f'{tag}#{i}'), tag, cl)

    def assume_inv(self, path):
        for cl in self.clauses(path):
            path.assume(cl)

    def variant(self, path):
        if self.dec is None:
            return None
        return self.cfg.spec_eval(path, self.dec, self.env(path))

    def havoc(self, path, node, extra):
        names = set(extra)
        for x in ast.walk(node):
            if isinstance(x, ast.Name) and isinstance(x.ctx, (ast.Store, ast.Del)):
                names.add(x.id)
        # comprehension / lambda targets are local to their own scope
        fr = path.scope[0]
        vars = path.wobj(fr).vars
        # a local container (created in this activation, so not covered by `modifies`) that the loop
        # body mutates in place must be havocked too: it needs a declared type in loop_locals
        old_heap = path.snapshots.get('old', {})
        for x in ast.walk(node):
            recv = None
            if isinstance(x, ast.Call) and isinstance(x.func, ast.Attribute) and x.func.attr in _MUTATORS:
                recv = x.func.value
            elif isinstance(x, ast.Subscript) and isinstance(x.ctx, (ast.Store, ast.Del)):
                recv = x.value
            elif isinstance(x, ast.AugAssign):
                recv = x.target
            if isinstance(recv, ast.Name) and recv.id in vars and recv.id not in names:
                v = vars[recv.id]
                if isinstance(v, Ref) and v.oid not in old_heap and isinstance(path.obj(v), (LObj, DObj, BAObj, ExtObj)):
                    if recv.id not in self.locals_t:
                        raise Unsupported(f'loop mutates the local container {recv.id!r} in place: declare its type in loop_locals')
                    names.add(recv.id)
        for n in sorted(names):
            if n in self.locals_t and isinstance(self.locals_t[n], C.OrUnbound):
                # first assigned in the body: unbound (no iteration got that far yet) or bound -- both are explored
                if path.decide([True, True], f'local {n} unbound/bound') == 0:
                    vars.pop(n, None)
                else:
                    vars[n] = self.cfg.fresh(path, self.locals_t[n].t, n)
            elif n in self.locals_t:
                vars[n] = self.cfg.fresh(path, self.locals_t[n], n)
            elif n in vars:
                vars[n] = self.cfg.havoc_like(path, vars[n], n)
            # names not yet bound stay unbound (first assignment happens in the body)
        if self.mods is not None:
            self.cfg.havoc_modifies(path, _ModSet(self.mods), path.entry_env, 'loop')
            path.snapshot(self.snap_name())
        else:
            self.cfg.havoc_modifies(path, self.top, path.entry_env, 'loop')
        henv = {k: v for k, v in self.env(path).items() if k != 'old'}
        path.headstate = {'env': henv, 'ghost': path.ghost, 'heap': {oid: o.clone() for oid, o in path.heap.items()}, 'lazy': path.lazy, 'loop': self.label}


class _ModSet:
    def __init__(self, modifies):
        self.modifies = list(modifies)


def _loop_snap_name(self):
    return f'loophead#{self.key}'


def _loop_check_frame(self, path):
    """end of one iteration of a loop with a declared per-loop frame: everything outside
    loop_modifies has the value it had at the loop head"""
    if self.mods is None:
        return
    self.cfg.check_frame(path, 'loop', snap=self.snap_name(), modifies=self.mods, label=f'loop{self.label}')


LoopSpec.snap_name = _loop_snap_name
LoopSpec.check_loop_frame = _loop_check_frame


class Config:
    """policy hub handed to every Path (see engine.Path.cfg)"""

    def __init__(self, registry, top, spec_modules=(), tier='quick'):
        self.reg = registry
        self.top = top
        self.spec_modules = set(spec_modules) | {'pyvc.contracts'}
        self.tier = tier
        self.skeleton = getattr(top, 'profile', 'value') == 'skeleton'
        self.target_func = None
        self.prop = getattr(top, 'prop', None) or 'C??'
        self.callee_names = {}

    # -- identification ------------------------------------------------------
    def is_spec_module(self, modname):
        return modname in self.spec_modules or modname.startswith('contracts.') or modname.startswith('spec.') or modname.startswith('pyvc.')

    def class_of_qualname(self, mod, qn):
        parts = qn.split('.')
        if len(parts) < 2 or '<locals>' in parts[:-1]:
            return None
        o = mod
        try:
            for p in parts[:-1]:
                o = getattr(o, p)
        except AttributeError:
            return None
        return o if isinstance(o, type) else None

    def is_target(self, func):
        return self.target_func is not None and func.node is self.target_func.node

    def obl_name(self, path, kind, label=''):
        base = getattr(self.top, 'key', None) or getattr(self.top, 'target', None) or getattr(self.top, 'name', '?')
        return f'{self.prop}/{base}/{kind}' + (f'#{label}' if label != '' else '')

    def asserts_are_obligations(self, path):
        f = path.func_stack[-1] if path.func_stack else None
        return f is not None and f.origin == 'spec'

    def native_call_allowed(self, f):
        mod = getattr(f, '__module__', '') or ''
        return mod in ('builtins', 'struct', 'math', 'enum', 'operator') or isinstance(f, type) and f.__module__ == 'builtins'

    # -- with / await --------------------------------------------------------
    def with_enter(self, path, cm, item):
        if isinstance(cm, Unknown):
            return Unknown('with')
        hook = getattr(self.top, 'extra', {}).get('with_enter')
        if hook:
            return hook(path, cm)
        raise Unsupported('with statement')

    def with_exit(self, path, cm):
        hook = getattr(self.top, 'extra', {}).get('with_exit')
        if hook:
            return hook(path, cm)

    def await_value(self, path, v, node):
        hook = getattr(self.top, 'extra', {}).get('await_hook')
        if hook:
            return hook(path, v, node)
        inv = getattr(self.top, 'extra', {}).get('await_inv')
        if inv is not None and path.func_stack and self.is_target(path.func_stack[-1]):
            # cooperative scheduling (A1): at a yield point other tasks may run any operation that
            # preserves the shared invariant.  Guarantee: it holds when we yield; rely: it holds
            # (and nothing else is known about the shared state) when we resume.
            env = dict(path.entry_env)
            for fr in reversed(path.scope):
                env.update(path.obj(fr).vars)
            env['old'] = OldView(path.entry_env, 'old')
            for i, cl in enumerate(self.clauses(path, inv, env, oblige=True)):
                path.oblige(self.obl_name(path, 'await-guarantee', f'L{node.lineno}#{i}'), 'await-guarantee', cl)
            self.havoc_modifies(path, self.top, path.entry_env, 'await')
            path.abstraction_used = True
            for cl in self.clauses(path, inv, env):
                path.assume(cl)
            henv = {k: x for k, x in env.items() if k != 'old'}
            path.headstate = {'env': henv, 'ghost': path.ghost, 'heap': {oid: o.clone() for oid, o in path.heap.items()}, 'lazy': path.lazy, 'await': node.lineno}
        return v

    def concretize_length(self, path, b):
        return None

    def on_field_write(self, path, ref, name):
        pass

    def instantiate_hook(self, path, cls, args, kwargs):
        return NotImplemented

    def class_model_for(self, cls):
        key = f'{cls.__module__}:{cls.__qualname__}'
        return self.reg.models.get(key)

    def special_form(self, path, name):
        return None

    def symbolic_comprehension(self, path, elt, gens, node):
        from . import seqspec

        return seqspec.symbolic_comprehension(path, elt, gens, node)

    def end_of_iteration(self, path):
        self.check_frame(path, 'iter')

    def call_unknown(self, path, f, args, kwargs, node):
        if not self.skeleton:
            raise Unsupported(f'call of uninterpreted {f!r}')
        path.abstraction_used = True
        return Unknown('call')

    # -- type-directed fresh values -----------------------------------------
    def fresh(self, path, t, hint):
        if t is C.Int:
            return path.fresh_sym('int', hint)
        if isinstance(t, C.IntRange):
            s = path.fresh_sym('int', hint)
            path.add_def(z3.And(s.t >= t.lo, s.t <= t.hi))
            M.mark_range(path, s.t, t.lo, t.hi)
            return s
        if t is C.Bool:
            return path.fresh_sym('bool', hint)
        if t is C.Bytes:
            return path.fresh_sym('bytes', hint)
        if isinstance(t, C.BytesN):
            if t.n == 0:
                return b''
            units = []
            for i in range(t.n):
                b = z3.Int(path.fresh_name(f'{hint}[{i}]'))
                path.add_def(z3.And(b >= 0, b <= 255))
                M.mark_byte(path, b)
                units.append(z3.Unit(b))
            return Sym(units[0] if len(units) == 1 else z3.Concat(*units), 'bytes')
        if t is C.ByteArray:
            return path.alloc(BAObj(path.fresh_sym('bytes', hint)))
        if t is C.Str:
            return OpaqueStr()
        if t is C.Any:
            return Unknown(hint)
        if isinstance(t, C.OneOf):
            i = path.decide([True] * len(t.values), f'oneof {hint}') if len(t.values) > 1 else 0
            return self.fresh(path, t.values[i], hint) if isinstance(t.values[i], C.T) else path.import_native(t.values[i])
        if isinstance(t, C.Opt):
            i = path.decide([True, True], f'opt {hint}')
            return None if i == 0 else self.fresh(path, t.t, hint)
        if isinstance(t, C.Const):
            v = t.value
            if isinstance(v, dict) and not v:
                return path.alloc(DObj({}))
            if isinstance(v, list) and not v:
                return path.alloc(LObj([]))
            return path.import_native(v)
        if isinstance(t, C.Inst):
            mdl = self.reg.models.get(t.name)
            if mdl is None:
                raise Unsupported(f'no class model {t.name}')
            cls = resolve_class(t.name) if ':' in t.name and not t.name.startswith('ghost:') and '<locals>' not in t.name else None
            fields = {}
            for fname, ft in mdl.fields.items():
                ft = t.overrides.get(fname, ft)
                if isinstance(ft, C.OneOf) and len(ft.values) > 1:
                    from .values import LazyVal

                    fields[fname] = LazyVal(ft.values, f'{hint}.{fname}', path.fresh_name('lazy'))
                else:
                    fields[fname] = self.fresh(path, ft, f'{hint}.{fname}')
            return path.alloc(Obj(cls, fields, mdl))
        if isinstance(t, C.Opaque):
            return path.fresh_sym(('opq', t.tag), hint)
        if isinstance(t, C.ExtT):
            return t.fresh(self, path, hint)
        if isinstance(t, C.Rec):
            # an arbitrary existing record of the class's record heap (ghost MapOf): symbolic key in the domain
            self.ensure_ghost(path, self.top)
            mref = M.rec_heap(path, t.elem)
            k = path.fresh_sym('int', hint)
            path.add_def(z3.Select(path.obj(mref).dom, k.t))
            return ElemRef(mref, k)
        if isinstance(t, C.Callback):
            eff = self.spec_func(t.effect) if t.effect is not None else None
            return CallbackVal(t.name, eff, t.returns, t.raises)
        if isinstance(t, C.ListOf):
            sq = path.fresh_sym(('seq', kind_of_T(t.t)), hint)
            if t.maxlen is not None:
                path.add_def(z3.Length(sq.t) <= t.maxlen)  # type invariant of a bounded deque
            return path.alloc(LObj(None, sq, t.flavor, t.maxlen))
        if isinstance(t, C.TupleOf):
            return tuple(self.fresh(path, x, f'{hint}.{i}') for i, x in enumerate(t.ts))
        if isinstance(t, C.ConcList):
            return path.alloc(LObj([self.fresh(path, t.t, f'{hint}[{i}]') for i in range(t.n)], flavor=t.flavor, maxlen=t.maxlen))
        if isinstance(t, C.EmptyDict):
            return path.alloc(DObj({}, path.import_native(t.default_factory) if t.default_factory else None))
        if isinstance(t, C.MapOf):
            mdl = self.reg.models[t.elem]
            cls = resolve_class(t.elem)
            cols = {}
            evcols = []
            for fname, ft in mdl.fields.items():
                default = None
                if isinstance(ft, tuple):
                    ft, default = ft
                if isinstance(ft, C.Event) or ft is C.Event:
                    evcols.append(fname)
                    ft = C.Bool
                    default = False if default is None else default
                if isinstance(ft, C.Opt):
                    # optional field: companion Bool column `name?` (True = the field is None)
                    narr = z3.Const(path.fresh_name(f'{hint}.{fname}?'), z3.ArraySort(z3.IntSort(), z3.BoolSort()))
                    cols[fname + '?'] = (narr, 'bool', True)
                    ft = ft.t
                k = kind_of_T(ft)
                arr = z3.Const(path.fresh_name(f'{hint}.{fname}'), z3.ArraySort(z3.IntSort(), sort_of(k)))
                cols[fname] = (arr, k, default)
            dom = z3.Const(path.fresh_name(f'{hint}.dom'), z3.ArraySort(z3.IntSort(), z3.BoolSort()))
            return path.alloc(MObj(dom, cols, cls, mdl, t.default_factory, evcols))
        if isinstance(t, C.Event):
            return path.alloc(Obj(asyncio.Event, {'_flag': path.fresh_sym('bool', hint + '._flag')}))
        if isinstance(t, C.ExtT):
            return t.fresh(self, path, hint)
        if hasattr(t, 'fresh'):
            return t.fresh(self, path, hint)  # extension point: type descriptors defined outside the core (pyvc/ext_*.py)
        raise Unsupported(f'fresh value of type {t!r}')

    def havoc_like(self, path, v, hint):
        """fresh value of the same shape as v (loop havoc of a local)"""
        if isinstance(v, bool):
            return path.fresh_sym('bool', hint)
        if isinstance(v, int):
            return path.fresh_sym('int', hint)
        if isinstance(v, bytes):
            return path.fresh_sym('bytes', hint)
        if isinstance(v, Sym):
            return path.fresh_sym(v.k, hint)
        if isinstance(v, tuple):
            return tuple(self.havoc_like(path, x, f'{hint}.{i}') for i, x in enumerate(v))
        if isinstance(v, Ref):
            o = path.obj(v)
            if isinstance(o, BAObj):
                path.wobj(v).val = path.fresh_sym('bytes', hint)
                return v
            if isinstance(o, LObj) and o.sym is not None:
                path.wobj(v).sym = path.fresh_sym(o.sym.k, hint)
                return v
            if isinstance(o, LObj) and o.items is not None and not o.items:
                raise Unsupported(f'loop local {hint}: list needs a declared type (loop_locals)')
            if isinstance(o, ExtObj):
                path.wobj(v).ext_havoc(path, v, hint)
                return v
            return v  # objects keep identity; their fields are governed by modifies
        if v is None or isinstance(v, (str, OpaqueStr, Unknown)):
            return v
        if isinstance(v, (Func, Bound, Builtin, CallbackVal)) or isinstance(v, type) or isinstance(v, types.ModuleType):
            return v
        raise Unsupported(f'cannot havoc loop local {hint} = {v!r} (declare its type in loop_locals)')

    # -- locations & havoc ----------------------------------------------------
    def loc_targets(self, path, contract, env, old_snap=None):
        """resolve `modifies` strings to a set of (oid, field|'*') in the current heap"""
        out = set()
        for spec in contract.modifies:
            if spec == '*':
                out.add(('*', '*'))
                continue
            star = False
            s = spec
            if s.endswith('.*'):
                star = True
                s = s[:-2]
            node = ast.parse(s, mode='eval').body
            self._loc(path, node, env, out, star)
        return out

    def _loc(self, path, node, env, out, star):
        def ev(n):
            if isinstance(n, ast.Name):
                if n.id == 'ghost':
                    return path.ghost
                if n.id not in env:
                    raise Unsupported(f'modifies: unknown name {n.id}')
                return env[n.id]
            if isinstance(n, ast.Attribute):
                o = ev(n.value)
                if o is None:
                    return None
                if isinstance(o, Ref) and isinstance(path.obj(o), Obj):
                    return path.obj(o).fields.get(n.attr)
                raise Unsupported(f'modifies: cannot resolve {ast.unparse(n)}')
            raise Unsupported(f'modifies: unsupported form {ast.unparse(n)}')

        if star:
            o = ev(node)
            if isinstance(o, Ref):
                out.add((o.oid, '*'))
            return
        if isinstance(node, ast.Attribute):
            o = ev(node.value)
            if isinstance(o, Ref):
                out.add((o.oid, node.attr))
                ho = path.obj(o)
                if isinstance(ho, Obj):
                    v = ho.fields.get(node.attr)
                    if isinstance(v, Ref) and (not isinstance(path.obj(v), Obj) or path.obj(v).cls is asyncio.Event):
                        out.add((v.oid, '*'))  # container content
            return
        if isinstance(node, ast.Name):
            o = ev(node)
            if isinstance(o, Ref):
                out.add((o.oid, '*'))
            return
        raise Unsupported(f'modifies: unsupported form {ast.unparse(node)}')

    def havoc_modifies(self, path, contract, env, why):
        targets = self.loc_targets(path, contract, env)
        for oid, fld in sorted(targets, key=lambda x: (str(x[0]), x[1])):
            if oid == '*':
                raise Unsupported("modifies '*' cannot be havocked")
            ho = path.heap[oid]
            if isinstance(ho, Obj):
                names = list(ho.fields) if fld == '*' else [fld]
                for n in names:
                    ft = ho.model.fields.get(n) if ho.model is not None else None
                    cur = ho.fields.get(n)
                    if isinstance(ft, C.Callback) or isinstance(cur, (CallbackVal, Func, Bound)):
                        continue
                    if ft is None:
                        if cur is not None or n in ho.fields:
                            ho.fields[n] = self.havoc_like(path, cur, n)
                        continue
                    tgt = path.heap.get(cur.oid) if isinstance(cur, Ref) else None
                    if ft is C.ByteArray and isinstance(tgt, BAObj):
                        tgt.val = path.fresh_sym('bytes', n)
                    elif isinstance(ft, C.ListOf) and isinstance(tgt, LObj):
                        tgt.sym = path.fresh_sym(('seq', kind_of_T(ft.t)), n)
                        tgt.items = None
                        if tgt.maxlen is not None:
                            path.add_def(z3.Length(tgt.sym.t) <= tgt.maxlen)
                    elif isinstance(ft, C.MapOf) and isinstance(tgt, MObj):
                        self.havoc_map(path, cur, n)
                    elif isinstance(ft, C.ExtT) and isinstance(tgt, ExtObj):
                        tgt.ext_havoc(path, cur, n)
                    elif isinstance(ft, C.Event) and isinstance(tgt, Obj):
                        tgt.fields['_flag'] = path.fresh_sym('bool', n)
                    elif isinstance(ft, C.OneOf) and len(ft.values) > 1:
                        from .values import LazyVal

                        ho.fields[n] = LazyVal(ft.values, n, path.fresh_name('lazy'))
                    else:
                        ho.fields[n] = self.fresh(path, ft, n)
            elif isinstance(ho, BAObj):
                ho.val = path.fresh_sym('bytes', 'ba')
            elif isinstance(ho, LObj):
                if ho.sym is not None:
                    ho.sym = path.fresh_sym(ho.sym.k, 'lst')
                    if ho.maxlen is not None:
                        path.add_def(z3.Length(ho.sym.t) <= ho.maxlen)
                else:
                    raise Unsupported('havoc of a concrete-spine list (declare ListOf in the class model)')
            elif isinstance(ho, MObj):
                if fld == '*':
                    self.havoc_map(path, Ref(oid), 'map')
                elif fld == '__dom__':
                    ho.dom = z3.Const(path.fresh_name('map.dom'), ho.dom.sort())
                else:
                    # a single column of the records (and its is-None companion column)
                    for n in (fld, fld + '?'):
                        if n in ho.cols:
                            arr, k, d = ho.cols[n]
                            ho.cols[n] = (z3.Const(path.fresh_name(f'map.{n}'), arr.sort()), k, d)
                        elif n == fld:
                            raise Unsupported(f'modifies: no column {fld} in the symbolic map')
            elif isinstance(ho, ExtObj):
                ho.ext_havoc(path, Ref(oid), 'ext')
            elif isinstance(ho, DObj):
                raise Unsupported('havoc of a concrete-spine dict')

    def havoc_map(self, path, ref, hint):
        ho = path.heap[ref.oid]
        ho.dom = z3.Const(path.fresh_name(f'{hint}.dom'), ho.dom.sort())
        for n, (arr, k, d) in list(ho.cols.items()):
            ho.cols[n] = (z3.Const(path.fresh_name(f'{hint}.{n}'), arr.sort()), k, d)

    # -- clause evaluation -----------------------------------------------------
    def spec_func(self, fn):
        if isinstance(fn, Func):
            return fn
        mod, node = source.parse_native_function(fn)
        return Func(node, mod, getattr(fn, '__qualname__', '<clause>'), native=fn, origin='spec')

    def spec_eval(self, path, fn, env):
        """evaluate a clause function; its parameters are bound by name from env"""
        f = self.spec_func(fn)
        args = self._clause_args(path, f, env)
        path.spec_mode += 1
        try:
            return path.run_func(f, args, {})
        finally:
            path.spec_mode -= 1

    def _clause_args(self, path, f, env):
        a = f.node.args
        names = [p.arg for p in a.posonlyargs + a.args]
        args = []
        defaults = None
        for i, n in enumerate(names):
            if n == 'ghost':
                args.append(path.ghost)
            elif n in env:
                args.append(env[n])
            else:
                # a clause parameter with a default value is optional: it is bound to the default when the name does
                # not exist here (e.g. the counter `_i` of a `for` loop in an invariant that is also meant for a `while`)
                if defaults is None:
                    defaults = path.func_defaults(f)['pos']
                di = i - (len(names) - len(defaults))
                if di < 0:
                    raise Unsupported(f'clause {f.qualname} needs {n!r} which is not available here')
                args.append(defaults[di])
        return args

    def clauses(self, path, fn, env, oblige=False):
        """truth values of the clauses of fn, evaluated *progressively*: inside a list display
        clause k is evaluated knowing clauses < k (they are conjuncts: for an assumption this is
        the same formula, for obligations it is sequential conjunction).  The temporary
        hypotheses are removed again before returning.

        oblige=True (the caller states every returned clause as an obligation, in order): if the
        clauses evaluated so far are jointly inconsistent with the path condition (a case split
        while evaluating clause k finds no feasible side), one of them is false in every state of
        this path.  They are returned (so that they are stated and refuted) and the path ends after
        the last of them has been stated -- it must not vanish as "infeasible" together with the
        obligations that were never stated."""
        if fn is None:
            return []
        saved = path.prog_temps
        saved_vals = path.prog_vals
        path.prog_temps = []
        path.prog_vals = []
        dead = False
        try:
            out = self.as_clause_list(path, self.spec_eval(path, fn, env))
        except Infeasible:
            if not oblige or not path.prog_temps:
                raise
            out = [path.truth(v) for v in path.prog_vals]
            dead = True
        finally:
            temps = path.prog_temps
            path.prog_temps = saved
            path.prog_vals = saved_vals
            if temps:
                # remove exactly the entries that were appended (one occurrence per temp, from the end): a
                # clause may evaluate to the very term object a branch condition already put on the pc
                pc = list(path.pc)
                for t in reversed(temps):
                    for idx in range(len(pc) - 1, -1, -1):
                        if pc[idx] is t:
                            del pc[idx]
                            break
                path.pc = pc
        if dead:
            path.die_after = len(out)
        return out

    def as_clause_list(self, path, v):
        if v is None:
            return []
        if isinstance(v, (tuple, list)):
            out = []
            for x in v:
                out.extend(self.as_clause_list(path, x))
            return out
        if isinstance(v, Ref) and isinstance(path.obj(v), LObj):
            items = path.obj(v).items
            if items is None:
                raise Unsupported('clause list with symbolic spine')
            out = []
            for x in items:
                out.extend(self.as_clause_list(path, x))
            return out
        t = path.truth(v)
        return [t]

    # -- calls -------------------------------------------------------------------
    def call_func(self, path, f, args, kwargs, node):
        if f.origin == 'spec':
            return path.run_func(f, args, kwargs)
        key = f'{f.module.__name__}:{f.qualname}'
        decs = [d for d in source.decorator_names(f.node)] if not isinstance(f.node, ast.Lambda) else []
        for d in decs:
            base = d.split('(')[0].split('.')[-1]
            if base not in ('staticmethod', 'classmethod', 'property', 'override', 'overload', 'cached_property', 'abstractmethod', 'setter', 'wraps') and not d.endswith('.setter'):
                if not self.decorator_ok(path, f, d):
                    raise Unsupported(f'decorator {d} on {key}')
        c2 = self.contract_for(path, key, f)
        if c2 is not None:
            return self.apply_contract(path, c2, f, args, kwargs)
        # contract kwarg `stubs={callable: Callback}` also replaces a repo function outside the kernel
        # (e.g. the crypto toolbox) by a recorded callback, like it does for library functions
        stubs = getattr(self.top, 'extra', {}).get('stubs')
        if stubs and f.native is not None and f.closure is None:
            try:
                cb = stubs.get(f.native)
            except TypeError:
                cb = None
            if cb is not None:
                return path.call(self.fresh(path, cb, cb.name), args, kwargs, node)
        if self.may_inline(key, f):
            path.inlined.add(key)
            return path.run_func(f, args, kwargs)
        if self.skeleton:
            return self.call_unknown(path, Unknown(key), args, kwargs, node)
        raise Unsupported(f'call of {key}: no contract and not listed in inline')

    def decorator_ok(self, path, f, d):
        return d in getattr(self.top, 'extra', {}).get('decorators_ok', ())

    def contract_for(self, path, key, f):
        uses = getattr(self.top, 'uses', [])
        for u in uses:
            c2 = self.reg.contracts.get(u)
            if c2 is not None and c2.target == key:
                return c2
        return None

    def may_inline(self, key, f):
        if f.closure is not None:
            return True  # nested def / lambda of a function already being executed
        for pat in getattr(self.top, 'inline', []):
            if fnmatch.fnmatchcase(key, pat) or fnmatch.fnmatchcase(key.split(':')[1], pat):
                return True
        return False

    def call_callback(self, path, cb, args, kwargs):
        if cb.effect is not None:
            path.spec_mode += 1  # ghost code: total primitives, asserts are obligations
            try:
                r = path.run_func(cb.effect, [path.ghost] + list(args), kwargs)
            except PyExc as e:
                if cb.raises and issubclass(path.exc_class_of(e.value), cb.raises):
                    raise
                raise Unsupported(f'ghost effect of {cb.name} raised {e.value!r}')
            finally:
                path.spec_mode -= 1
            if r is not None:
                return r
        if cb.returns is not None:
            return self.fresh(path, cb.returns, cb.name + '.ret')
        return None

    def apply_contract(self, path, c2, f, args, kwargs):
        path.used_contracts.add(c2.key)
        path.abstraction_used = True  # the callee is known only through its contract
        env = path.bind_args(f, args, kwargs)
        n = path.loop_counters.get('call', 0) + 1
        path.loop_counters['call'] = n
        self.ensure_ghost(path, c2)
        if c2.requires is not None:
            for i, cl in enumerate(self.clauses(path, c2.requires, env, oblige=True)):
                path.oblige(self.obl_name(path, 'callee-pre', f'{c2.key.split(":")[1]}#{i}'), 'callee-pre', cl)
        snap = f'call{n}'
        path.snapshot(snap)
        old_env = dict(env)
        old_env['ghost'] = path.ghost
        outcomes = [None] + list(c2.raises.keys())
        k = path.decide([True] * len(outcomes), 'callee outcome') if len(outcomes) > 1 else 0
        self.havoc_modifies(path, c2, env, 'call')
        env2 = dict(env)
        env2['old'] = OldView(old_env, snap)
        if k == 0:
            # functional contracts: `assigns={'self.f': fn}` gives the new value of a modified field and
            # `result=fn` the return value as spec expressions of the entry state (instead of a fresh
            # value constrained by `ensures`)
            for loc, fn in (c2.extra.get('assigns') or {}).items():
                base, _, fld = loc.rpartition('.')
                tgt = env[base] if base in env else None
                if not isinstance(tgt, Ref):
                    raise Unsupported(f'assigns: cannot resolve {loc}')
                v = self.spec_eval(path, fn, env2)
                path.wobj(tgt).fields[fld] = v
            rf = c2.extra.get('result')
            if rf is not None:
                res = self.spec_eval(path, rf, env2)
            else:
                res = self.fresh(path, c2.returns, 'res') if c2.returns is not None else None
            env2['res'] = res
            if c2.ensures is not None:
                for cl in self.clauses(path, c2.ensures, env2):
                    path.assume(cl)
            return res
        exc_cls = outcomes[k]
        exc = path.new_exception(exc_cls)
        # contract kwarg `exc_fields={ExcClass: {name: T}}`: attributes of the raised exception that the
        # `raises` clause talks about (fresh values of the declared types, constrained by the clause)
        for fname, ft in ((c2.extra.get('exc_fields') or {}).get(exc_cls) or {}).items():
            path.wobj(exc).fields[fname] = self.fresh(path, ft, f'exc.{fname}')
        env2['exc'] = exc
        post = c2.raises[exc_cls]
        if post is not None:
            for cl in self.clauses(path, post, env2):
                path.assume(cl)
        raise PyExc(exc)

    def ensure_ghost(self, path, c):
        g = path.wobj(path.ghost)
        for name, t in getattr(c, 'ghost', {}).items():
            if name not in g.fields:
                g.fields[name] = self.fresh(path, t, f'ghost.{name}')

    # -- loops ---------------------------------------------------------------------
    def loop_spec(self, path, func, label):
        ls = LoopSpec(self, self.top, func, label)
        if ls.inv is None:
            return None
        return ls

    # -- frame ------------------------------------------------------------------------
    def check_frame(self, path, tag, snap='old', modifies=None, label=None):
        top = self.top if modifies is None else _ModSet(modifies)
        if ('*' in getattr(top, 'modifies', ['*'])) or self.skeleton:
            return
        if label is not None:
            self = _FrameNamer(self, label)
        saved_heap = path.heap
        targets = None
        # resolve modifies in the pre-state
        path.heap = path.snapshots[snap]
        try:
            targets = self.loc_targets(path, top, path.entry_env)
        finally:
            path.heap = saved_heap
        old = path.snapshots[snap]
        for oid, o0 in old.items():
            o1 = path.heap.get(oid)
            if isinstance(o0, Frame):
                continue
            if (oid, '*') in targets:
                continue
            if isinstance(o0, Obj):
                for n, v0 in o0.fields.items():
                    if (oid, n) in targets:
                        continue
                    v1 = o1.fields.get(n, _GONE)
                    if v1 is v0:
                        continue
                    self.frame_obl(path, tag, f'{getattr(o0.cls, "__name__", "ghost")}.{n}', v0, v1)
            elif isinstance(o0, BAObj):
                if o0.val is not o1.val:
                    self.frame_obl(path, tag, f'bytearray#{oid}', o0.val, o1.val)
            elif isinstance(o0, LObj):
                if o0.sym is not o1.sym or o0.items != o1.items:
                    v0 = M.list_as_sym(path, Ref(oid, snap))
                    v1 = M.list_as_sym(path, Ref(oid), v0.k[1] if v0 is not None else None) if v0 is not None else None
                    if v0 is None or v1 is None:
                        if (o0.items or []) != (o1.items or []):
                            path.oblige(self.obl_name(path, 'frame', f'list#{oid}'), 'frame', False)
                    else:
                        path.oblige(self.obl_name(path, 'frame', f'list'), 'frame', mk_bool(v0.t == v1.t))
            elif isinstance(o0, DObj):
                if o0.items.keys() != o1.items.keys() or any(o0.items[k] is not o1.items[k] for k in o0.items):
                    path.oblige(self.obl_name(path, 'frame', f'dict'), 'frame', False)
            elif isinstance(o0, ExtObj):
                same = o0.ext_unchanged(path, o1)
                if same is not True:
                    path.oblige(self.obl_name(path, 'frame', type(o0).__name__), 'frame', same)
            elif isinstance(o0, MObj):
                if not o0.dom.eq(o1.dom) and (oid, '__dom__') not in targets:
                    path.oblige(self.obl_name(path, 'frame', 'map.dom'), 'frame', mk_bool(o0.dom == o1.dom))
                for n in o0.cols:
                    if (oid, n) in targets or (n.endswith('?') and (oid, n[:-1]) in targets):
                        continue
                    if not o0.cols[n][0].eq(o1.cols[n][0]):
                        path.oblige(self.obl_name(path, 'frame', f'map.{n}'), 'frame', mk_bool(o0.cols[n][0] == o1.cols[n][0]))

    def frame_obl(self, path, tag, label, v0, v1):
        if v1 is _GONE:
            path.oblige(self.obl_name(path, 'frame', label), 'frame', False)
            return
        try:
            eq = M.equal(path, v0, v1)
        except Unsupported:
            eq = False
        if isinstance(eq, bool) and eq:
            return
        path.oblige(self.obl_name(path, 'frame', label), 'frame', eq)


_GONE = object()


class _FrameNamer:
    """view of a Config whose frame obligations are named after a loop (per-loop frames)"""

    def __init__(self, cfg, label):
        self._cfg = cfg
        self._label = label

    def __getattr__(self, n):
        return getattr(self._cfg, n)

    def obl_name(self, path, kind, label=''):
        return self._cfg.obl_name(path, f'{self._label}-{kind}' if kind == 'frame' else kind, label)

    def frame_obl(self, path, tag, label, v0, v1):
        return Config.frame_obl(self, path, tag, label, v0, v1)


# ---------------------------------------------------------------------------
# driver
# ---------------------------------------------------------------------------


class FunctionResult:
    def __init__(self, key):
        self.key = key
        self.obligations = []
        self.undecided = []  # reasons
        self.paths = 0
        self.normal_paths = 0
        self.exc_paths = {}
        self.inlined = set()
        self.used = set()
        self.sha = ''
        self.feas_checks = 0
        self.prestates = {}  # obligation key -> prestate description (for replay)
        self.func_ident = ''


def target_function(path_or_none, target):
    modname, qn = target.split(':')
    mod = importlib.import_module(modname)
    node = source.find_def(mod, qn)
    # native function object (for defaults) if reachable
    native = None
    o = mod
    try:
        for part in qn.split('.'):
            if part == '<locals>':
                raise AttributeError
            o = o.__dict__[part] if isinstance(o, type) else getattr(o, part)
        native = o
        if isinstance(native, (staticmethod, classmethod)):
            native = native.__func__
        if isinstance(native, property):
            native = native.fget
        if not isinstance(native, types.FunctionType):
            native = getattr(native, '__wrapped__', None) if not isinstance(native, types.FunctionType) else native
    except (AttributeError, KeyError):
        native = None
    f = Func(node, mod, qn, native=native if isinstance(native, types.FunctionType) else None, origin='repo')
    if f.native is None:
        # nested function: defaults evaluated natively are unavailable
        f.defaults = []
        f.kw_defaults = []
    return f


def verify(registry, top, tier='quick', max_paths=4000, collect_pre=True):
    """Symbolically execute the target of contract/lemma `top`; return FunctionResult"""
    is_lemma = isinstance(top, C.Lemma)
    cfg = Config(registry, top, tier=tier)
    res = FunctionResult(getattr(top, 'key', None) or top.name)
    if is_lemma:
        func = cfg.spec_func(top.fn)
        func.origin = 'spec'
    else:
        func = target_function(None, top.target)
        res.sha = source.sha_of(func.module, func.node)
    cfg.target_func = func
    func.cls = cfg.class_of_qualname(func.module, func.qualname)
    explorer = Explorer(max_paths=max_paths)
    seen = set()
    cover_ok = False
    while True:
        try:
            prefix = explorer.next_prefix()
        except Unsupported as e:
            res.undecided.append(str(e))
            break
        if prefix is None:
            break
        path = Path(explorer, prefix, cfg)
        path.scope_stack = []
        outcome = None
        try:
            outcome = run_path(cfg, path, top, func, is_lemma)
        except Infeasible:
            if os.environ.get('PYVC_DEBUG'):
                print(f'[infeasible] decisions={path.decisions} at {path.cur_loc}', file=sys.stderr, flush=True)
            # obligations stated before the path died must be kept: a *failing* obligation is
            # assumed after it is stated and can itself be what makes the rest infeasible
            outcome = 'infeasible'
        except PathEnd:
            outcome = 'cut'
        except Unsupported as e:
            res.undecided.append(f'{path.cur_loc}: {e}')
            outcome = 'unsupported'
        except PyExc as e:
            # exception escaping from clause evaluation / pre-state construction
            try:
                _desc = f'{path.exc_class_of(e.value).__name__}{getattr(path.obj(e.value), "fields", {}).get("args", "")!r}'
            except Exception:
                _desc = repr(e.value)
            res.undecided.append(f'{path.cur_loc}: python exception {_desc} outside the function under contract')
            outcome = 'unsupported'
        except RecursionError:
            res.undecided.append('python recursion limit in the engine')
            outcome = 'unsupported'
        if outcome != 'infeasible':
            res.paths += 1
        if os.environ.get('PYVC_DEBUG'):
            print(f'[path {res.paths}] {outcome} decisions={path.decisions} obl={len(path.obligations)} at {path.cur_loc}', file=sys.stderr, flush=True)
        res.inlined |= path.inlined
        res.used |= path.used_contracts
        if outcome == 'normal':
            res.normal_paths += 1
        elif isinstance(outcome, tuple):
            res.exc_paths[outcome[1]] = res.exc_paths.get(outcome[1], 0) + 1
        for ob in path.obligations:
            if ob.key in seen:
                continue
            seen.add(ob.key)
            ob.info['prestate'] = getattr(path, 'prestate', None)
            if ob.kind in ('inv-preserved', 'variant') or ob.info.get('after_head'):
                ob.info['headstate'] = getattr(path, 'headstate', None)
            ob.info['decisions'] = tuple(path.decisions)
            res.obligations.append(ob)
    if res.paths == 0 and not res.undecided:
        # every path died as infeasible: `requires` is unsatisfiable or an applied callee contract has an unsatisfiable
        # postcondition -- nothing was verified, which must never read as a pass
        res.undecided.append('no feasible path (vacuous): requires, or the postcondition of an applied callee contract, is unsatisfiable')
    res.feas_checks = explorer.feas_checks
    return res


def run_path(cfg, path, top, func, is_lemma):
    # pseudo activation so that names in clauses resolve
    path.func_stack.append(func)
    path.ghost = path.alloc(Obj(None, {}, None))
    env = {}
    for name, t in top.params.items():
        env[name] = cfg.fresh(path, t, name)
    cfg.ensure_ghost(path, top)
    for u in getattr(top, 'uses', []):
        c2 = cfg.reg.contracts.get(u)
        if c2 is None:
            raise Unsupported(f'uses: no contract {u}')
        cfg.ensure_ghost(path, c2)
    env_g = dict(env)
    env_g['ghost'] = path.ghost
    path.entry_env = env_g
    if top.requires is not None:
        for cl in cfg.clauses(path, top.requires, env):
            path.assume(cl)
    path.check_feasible_now()
    path.prestate = {'env': dict(env), 'ghost': path.ghost, 'heap': {oid: o.clone() for oid, o in path.heap.items()}, 'lazy': path.lazy}
    path.oblige(cfg.obl_name(path, 'cover', 'requires'), 'cover', True, expect_sat=True)
    path.snapshot('old')
    old_env = dict(env_g)
    a = func.node.args
    pnames = [p.arg for p in a.posonlyargs + a.args] + [p.arg for p in a.kwonlyargs]
    missing = [p for p in pnames if p not in env]
    kwargs = {p: env[p] for p in pnames if p in env}
    if is_lemma and 'ghost' in pnames and 'ghost' not in env:
        kwargs['ghost'] = path.ghost  # a ghost driver may read (and write) the ghost state, as it can natively
    try:
        result = path.run_func(func, [], kwargs)
    except PyExc as e:
        cls = path.exc_class_of(e.value)
        post_env = dict(env)
        post_env['old'] = OldView(old_env, 'old')
        post_env['exc'] = e.value
        matched = None
        for ec, post in top.raises.items():
            if issubclass(cls, ec):
                matched = (ec, post)
                break
        if matched is None:
            path.oblige(cfg.obl_name(path, 'exc', cls.__name__), 'exc', False, info={'exception': cls.__name__, 'at': path.cur_loc})
        else:
            if matched[1] is not None:
                for i, cl in enumerate(cfg.clauses(path, matched[1], post_env, oblige=True)):
                    path.oblige(cfg.obl_name(path, f'raises-{matched[0].__name__}', i), 'post', cl)
        cfg.check_frame(path, 'exc')
        _xcheck(cfg, path)
        return ('exc', cls.__name__)
    post_env = dict(env)
    post_env['old'] = OldView(old_env, 'old')
    post_env['res'] = result
    if top.ensures is not None:
        names = top.ensures_names if getattr(top, 'ensures_names', None) else None
        for i, cl in enumerate(cfg.clauses(path, top.ensures, post_env, oblige=True)):
            path.oblige(cfg.obl_name(path, 'post', names[i] if names and i < len(names) else i), 'post', cl)
    extra = getattr(top, 'extra', {}) or {}
    if extra.get('result') is not None:
        path.spec_mode += 1
        try:
            want = cfg.spec_eval(path, extra['result'], post_env)
            path.oblige(cfg.obl_name(path, 'post', 'result'), 'post', path.truth(M.equal(path, result, want)))
        finally:
            path.spec_mode -= 1
    for loc, fn in (extra.get('assigns') or {}).items():
        base, _, fld = loc.rpartition('.')
        path.spec_mode += 1
        try:
            want = cfg.spec_eval(path, fn, post_env)
            got = path.getattr(env[base], fld)
            path.oblige(cfg.obl_name(path, 'post', f'assigns-{loc}'), 'post', path.truth(M.equal(path, got, want)))
        finally:
            path.spec_mode -= 1
    cfg.check_frame(path, 'post')
    _xcheck(cfg, path)
    return 'normal'


def _xcheck(cfg, path):
    """CPython cross-check sample: a satisfiability query for the whole path condition of a completed path; its
    model (a concrete pre-state satisfying `requires`) is run through the real function under CPython and the
    contract clauses are evaluated natively (run.process_top).  Capped per entry by PYVC_XCHECK (default 6)."""
    cap = int(os.environ.get('PYVC_XCHECK', '6') or 0)
    ex = path.explorer
    n = getattr(ex, 'xcheck_n', 0)
    if n >= cap:
        return
    ex.xcheck_n = n + 1
    path.oblige(cfg.obl_name(path, 'xcheck', f'path{n}'), 'xcheck', True, expect_sat=True)
