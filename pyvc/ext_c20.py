"""Engine extensions introduced for property C20 (generic; registered into the core's extension points).

* ConcDict: a dict with a concrete spine of n entries whose keys are *symbolic, pairwise distinct* integers
  (the dict-by-DLCI of an RFCOMM multiplexer).  Lookups/stores case-split over the entries (models.dict_find).
* concrete f-strings: an f-string whose interpolated values are all concrete evaluates to the Python string
  (needed for handler-name dispatch `getattr(self, f'_on_{code.lower()}')`); anything else stays opaque.
"""
from __future__ import annotations

import ast

import z3

from . import contracts as C
from . import engine as E
from .values import DObj, OpaqueStr


class ConcDict(C.T):
    """key_t: a type for n symbolic keys, or a list of concrete keys (then n is ignored)"""

    def __init__(self, key_t, val_t, n=0):
        self.key_t, self.val_t, self.n = key_t, val_t, n

    def fresh(self, cfg, path, hint):
        from .models import wrap_key

        if isinstance(self.key_t, (list, tuple)):
            return path.alloc(DObj({k: cfg.fresh(path, self.val_t, f'{hint}.v{i}') for i, k in enumerate(self.key_t)}))
        keys = [cfg.fresh(path, self.key_t, f'{hint}.k{i}') for i in range(self.n)]
        for i in range(self.n):
            for j in range(i):
                path.add_def(keys[i].t != keys[j].t)  # dict keys are distinct
        return path.alloc(DObj({wrap_key(k): cfg.fresh(path, self.val_t, f'{hint}.v{i}') for i, k in enumerate(keys)}))


def _pure_str_expr(n):
    """names, attribute chains and .lower()/.upper() of those: evaluating them cannot fork, raise or have effects"""
    if isinstance(n, ast.Name):
        return True
    if isinstance(n, ast.Attribute):
        return _pure_str_expr(n.value)
    if isinstance(n, ast.Call) and not n.args and not n.keywords and isinstance(n.func, ast.Attribute) and n.func.attr in ('lower', 'upper'):
        return _pure_str_expr(n.func.value)
    if isinstance(n, ast.Constant):
        return isinstance(n.value, (str, int)) and not isinstance(n.value, bool)
    if isinstance(n, ast.IfExp):
        return _pure_str_expr(n.test) and _pure_str_expr(n.body) and _pure_str_expr(n.orelse)
    if isinstance(n, ast.Call) and isinstance(n.func, ast.Name) and n.func.id in ('int', 'str') and len(n.args) == 1 and not n.keywords:
        return _pure_str_expr(n.args[0])
    return False


def ev_JoinedStr(self, n):
    parts = []
    for v in n.values:
        if isinstance(v, ast.Constant):
            parts.append(v.value)
            continue
        if not isinstance(v, ast.FormattedValue) or v.format_spec is not None or v.conversion != -1 or not _pure_str_expr(v.value):
            return OpaqueStr()
        x = _eval_pure(self, v.value)
        if type(x) is not str and type(x) is not int:
            return OpaqueStr()
        parts.append(format(x))
    return ''.join(parts)


def _eval_pure(path, n):
    """value of a pure expression if evaluating it cannot fork the path (every decision concrete), else None"""
    try:
        if isinstance(n, ast.IfExp):
            t = _eval_pure(path, n.test)
            if not isinstance(t, (bool, int, str)) or t is None:
                return None
            return _eval_pure(path, n.body if t else n.orelse)
        if isinstance(n, ast.Call) and isinstance(n.func, ast.Name) and n.func.id in ('int', 'str'):
            a = _eval_pure(path, n.args[0])
            if isinstance(a, (bool, int, str)):
                return int(a) if n.func.id == 'int' else str(a)
            return None
        return path.eval(n)
    except (E.Unsupported, E.PyExc, ValueError):
        return None


E.Path.ev_JoinedStr = ev_JoinedStr


# ---------------------------------------------------------------------------
# contract kwarg `stubs={callable: Callback}` also for *repository* functions: a function that belongs to another
# property's kernel (e.g. a codec proved under C18) is replaced by a recorded callback, exactly like a library function
# (models_calls.call_native).  The replacement is listed in the contract's ENVIRONMENT; nothing is assumed about the
# stubbed function beyond the declared result type and the asserts of the ghost effect.
# ---------------------------------------------------------------------------
from . import vcgen as _V  # noqa: E402

_orig_call_func = _V.Config.call_func


def call_func(self, path, f, args, kwargs, node):
    stubs = getattr(self.top, 'extra', {}).get('stubs')
    if stubs and getattr(f, 'native', None) is not None and f.origin != 'spec':
        cb = stubs.get(f.native)
        if cb is not None:
            path.abstraction_used = True  # the native replay runs the real function, not the stub
            return path.call(self.fresh(path, cb, cb.name), args, kwargs, node)
    return _orig_call_func(self, path, f, args, kwargs, node)


_V.Config.call_func = call_func


# ---------------------------------------------------------------------------
# opaque strings with a known literal prefix, and two predicates on them (AT result codes are told apart by their
# literal head: 'OK', 'ERROR', '+CME ERROR: n' vs '+BRSF: ...').  Natively plain str operations.
# ---------------------------------------------------------------------------
from . import models as _M  # noqa: E402
from . import models_calls as _MC  # noqa: E402
from . import seqspec as _S  # noqa: E402
from .values import Sym, Unknown, Ref, Obj  # noqa: E402


def _opaque(prefix=''):
    o = OpaqueStr()
    o.prefix = prefix
    return o


def _ev_JoinedStr2(self, n):
    r = ev_JoinedStr(self, n)
    if isinstance(r, OpaqueStr):
        # known literal head: leading constants, concrete interpolations, and the head of an interpolated opaque string
        lit = []
        for v in n.values:
            if isinstance(v, ast.Constant):
                lit.append(v.value)
                continue
            if isinstance(v, ast.FormattedValue) and v.format_spec is None and v.conversion == -1 and _pure_str_expr(v.value):
                x = _eval_pure(self, v.value)
                if type(x) is str or type(x) is int:
                    lit.append(format(x))
                    continue
                if isinstance(x, OpaqueStr):
                    lit.append(getattr(x, 'prefix', '') or '')
            break
        r.prefix = ''.join(lit)
    return r


E.Path.ev_JoinedStr = _ev_JoinedStr2

_orig_call_method = _MC.call_method


def call_method(ex, recv, name, args, kwargs, node=None):
    if isinstance(recv, str) and name == 'format' and not all(ex.is_conc(a) for a in args):
        return _opaque(recv.split('{')[0])  # literal text before the first replacement field
    return _orig_call_method(ex, recv, name, args, kwargs, node)


_MC.call_method = call_method
_M.call_method = call_method


def s_eq(s, lit):
    """s == lit for a string s that may be an f-string result"""
    return s == lit


def s_startswith(s, lit):
    return s.startswith(lit)


def _q_s_eq(ex, args, kwargs):
    s, lit = args
    if isinstance(s, str):
        return s == lit
    p = getattr(s, 'prefix', None)
    if isinstance(s, OpaqueStr) and p and not lit.startswith(p):
        return False  # s starts with p, lit does not
    raise E.Unsupported(f'equality of an opaque string (known prefix {p!r}) with {lit!r}')


def _q_s_startswith(ex, args, kwargs):
    s, lit = args
    if isinstance(s, str):
        return s.startswith(lit)
    p = getattr(s, 'prefix', None)
    if isinstance(s, OpaqueStr) and p:
        if p.startswith(lit):
            return True
        if not lit.startswith(p):
            return False
    raise E.Unsupported(f'prefix test of an opaque string (known prefix {p!r}) with {lit!r}')


_S.SPEC_FORMS[s_eq] = _q_s_eq
_S.SPEC_FORMS[s_startswith] = _q_s_startswith


# ---------------------------------------------------------------------------
# skeleton profile: conversions of uninterpreted *contents*
#   int(<symbolic bytes / opaque str>)            -> uninterpreted value (assumed well-formed: does not raise)
#   StrEnum(<opaque str>)                          -> uninterpreted member; inside a try block the ValueError outcome
#                                                     is explored as well (the code itself anticipates it)
#   getattr(obj, name, default) on a modelled instance: decided by the class (handlers are class attributes)
# ---------------------------------------------------------------------------
_orig_int = _MC.CLASS_MODELS[int]


def m_int(ex, *args, **kw):
    if ex.skeleton and len(args) == 1 and (isinstance(args[0], OpaqueStr) or (isinstance(args[0], Sym) and args[0].k == 'bytes')
                                            or (isinstance(args[0], Ref) and _M.is_byteslike(ex, args[0]) and not isinstance(ex.as_bytes_value(args[0]), bytes))):
        ex.abstraction_used = True
        return Unknown('int()')
    return _orig_int(ex, *args, **kw)


_MC.CLASS_MODELS[int] = m_int

_orig_enum_call = _MC.enum_call


def enum_call(ex, cls, args, kwargs):
    v = _M.plain(args[0]) if args else None
    if ex.skeleton and isinstance(v, OpaqueStr):
        ex.abstraction_used = True
        if getattr(ex, 'try_depth', 0) > 0 and ex.decide([True, True], 'enum conversion in try') == 1:
            ex.raise_(ValueError, 'not a valid enum value')
        return Unknown(f'{cls.__name__}()')
    return _orig_enum_call(ex, cls, args, kwargs)


_MC.enum_call = enum_call
_M.enum_call = enum_call

_orig_try = E.Path.st_Try


def st_Try(self, s):
    self.try_depth = getattr(self, 'try_depth', 0) + (1 if s.handlers else 0)
    try:
        # only the protected block counts; handlers / finally run outside it
        return _orig_try(self, s)
    finally:
        self.try_depth -= 1 if s.handlers else 0


E.Path.st_Try = st_Try

_orig_getattr = _MC.NATIVE_MODELS[getattr]


def m_getattr(ex, o, name, *default):
    if default and ex.skeleton and isinstance(name, str) and isinstance(o, Ref):
        ho = ex.obj(o)
        if isinstance(ho, Obj) and ho.cls is not None and name not in ho.fields and not (ho.model is not None and name in ho.model.methods):
            if _MC.class_lookup(ho.cls, name)[0] is None and _MC.class_lookup(ho.cls, '__getattr__')[0] is None:
                return default[0]
    return _orig_getattr(ex, o, name, *default)


_MC.NATIVE_MODELS[getattr] = m_getattr


# skeleton profile: a modelled builtin that cannot interpret an argument because it is (or contains) an uninterpreted
# value yields an uninterpreted value, like any other call the skeleton does not interpret
def _tainted(ex, v, depth=0):
    if isinstance(v, Unknown):
        return True
    if depth > 3:
        return False
    if isinstance(v, (tuple, list)):
        return any(_tainted(ex, x, depth + 1) for x in v)
    if isinstance(v, E.ConcIter):
        return any(_tainted(ex, x, depth + 1) for x in v.items)
    if isinstance(v, Ref):
        ho = ex.obj(v)
        if type(ho).__name__ == 'LObj' and ho.items is not None:
            return any(_tainted(ex, x, depth + 1) for x in ho.items)
    return False


def _skeleton_fallback(orig):
    def wrapped(ex, f, args, kwargs, node=None):
        try:
            return orig(ex, f, args, kwargs, node)
        except E.Unsupported:
            if ex.skeleton and (any(_tainted(ex, a) for a in args) or any(_tainted(ex, a) for a in kwargs.values())):
                ex.abstraction_used = True
                return Unknown(f'{getattr(f, "__name__", f)}(<uninterpreted>)')
            raise
    return wrapped


_MC.call_native = _M.call_native = _skeleton_fallback(_MC.call_native)
_MC.instantiate = _M.instantiate = _skeleton_fallback(_MC.instantiate)


# ---------------------------------------------------------------------------
# inspect.signature(f).bind(*args, **kwargs): raises TypeError exactly when calling f with these arguments would fail to
# bind (same rules as engine.Path.bind_args, which models the call itself); the BoundArguments result is not interpreted
# ---------------------------------------------------------------------------
import inspect as _inspect  # noqa: E402

from .values import Bound, Builtin, Func  # noqa: E402


class _Signature:
    def __init__(self, func, recv):
        def bind(ex, args, kwargs):
            ex.bind_args(func, ([recv] if recv is not None else []) + list(args), kwargs)  # raises PyExc(TypeError)
            return Unknown('BoundArguments')

        self.bind = Builtin('bind', bind)


def m_signature(ex, f, **kw):
    if isinstance(f, Bound) and isinstance(f.func, Func):
        return _Signature(f.func, f.recv)
    if isinstance(f, Func):
        return _Signature(f, None)
    if type(f).__name__ == 'CallbackVal' or (isinstance(f, Bound) and type(f.func).__name__ == 'CallbackVal'):
        # a recording stub accepts any argument list
        sig = _Signature.__new__(_Signature)
        sig.bind = Builtin('bind', lambda ex, args, kwargs: Unknown('BoundArguments'))
        return sig
    raise E.Unsupported(f'inspect.signature of {f!r}')


_MC.NATIVE_MODELS[_inspect.signature] = m_signature


# an `if` whose branches only log (logger.* calls are dropped, see A5) does not split the path: the test is still evaluated
_orig_if = E.Path.st_If


def _only_logs(stmts):
    return all(isinstance(x, ast.Pass) or (isinstance(x, ast.Expr) and (E.is_logger_call(x.value) or isinstance(x.value, ast.Constant))) for x in stmts)


def st_If(self, s):
    if _only_logs(s.body) and _only_logs(s.orelse):
        self.eval(s.test)
        return
    return _orig_if(self, s)


E.Path.st_If = st_If
