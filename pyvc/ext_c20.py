"""Engine extensions introduced for property C20 (generic; registered into the core's extension points).

* ConcDict: a dict with a concrete spine of n entries whose keys are *symbolic, pairwise distinct* integers
  (the dict-by-DLCI of an RFCOMM multiplexer).  Lookups/stores case-split over the entries (models.dict_find).
* concrete f-strings: an f-string whose interpolated values are all concrete evaluates to the Python string
  (needed for handler-name dispatch `getattr(self, f'_on_{code.lower()}')`); anything else stays opaque.
"""
from __future__ import annotations

import ast

import z3

from . import contracts as C
from . import engine as E
from .values import DObj, OpaqueStr


class ConcDict(C.T):
    def __init__(self, key_t, val_t, n):
        self.key_t, self.val_t, self.n = key_t, val_t, n

    def fresh(self, cfg, path, hint):
        from .models import wrap_key

        keys = [cfg.fresh(path, self.key_t, f'{hint}.k{i}') for i in range(self.n)]
        for i in range(self.n):
            for j in range(i):
                path.add_def(keys[i].t != keys[j].t)  # dict keys are distinct
        return path.alloc(DObj({wrap_key(k): cfg.fresh(path, self.val_t, f'{hint}.v{i}') for i, k in enumerate(keys)}))


def _pure_str_expr(n):
    """names, attribute chains and .lower()/.upper() of those: evaluating them cannot fork, raise or have effects"""
    if isinstance(n, ast.Name):
        return True
    if isinstance(n, ast.Attribute):
        return _pure_str_expr(n.value)
    if isinstance(n, ast.Call) and not n.args and not n.keywords and isinstance(n.func, ast.Attribute) and n.func.attr in ('lower', 'upper'):
        return _pure_str_expr(n.func.value)
    return False


def ev_JoinedStr(self, n):
    parts = []
    for v in n.values:
        if isinstance(v, ast.Constant):
            parts.append(v.value)
            continue
        if not isinstance(v, ast.FormattedValue) or v.format_spec is not None or v.conversion != -1 or not _pure_str_expr(v.value):
            return OpaqueStr()
        try:
            x = self.eval(v.value)
        except (E.Unsupported, E.PyExc):
            return OpaqueStr()
        if type(x) is not str and type(x) is not int:
            return OpaqueStr()
        parts.append(format(x))
    return ''.join(parts)


E.Path.ev_JoinedStr = ev_JoinedStr


# ---------------------------------------------------------------------------
# contract kwarg `stubs={callable: Callback}` also for *repository* functions: a function that belongs to another
# property's kernel (e.g. a codec proved under C18) is replaced by a recorded callback, exactly like a library function
# (models_calls.call_native).  The replacement is listed in the contract's ENVIRONMENT; nothing is assumed about the
# stubbed function beyond the declared result type and the asserts of the ghost effect.
# ---------------------------------------------------------------------------
from . import vcgen as _V  # noqa: E402

_orig_call_func = _V.Config.call_func


def call_func(self, path, f, args, kwargs, node):
    stubs = getattr(self.top, 'extra', {}).get('stubs')
    if stubs and getattr(f, 'native', None) is not None and f.origin != 'spec':
        cb = stubs.get(f.native)
        if cb is not None:
            path.abstraction_used = True  # the native replay runs the real function, not the stub
            return path.call(self.fresh(path, cb, cb.name), args, kwargs, node)
    return _orig_call_func(self, path, f, args, kwargs, node)


_V.Config.call_func = call_func
