"""Engine extensions used by the C14 contracts (imported from contracts/c14_crypto.py, so they are only
active in a `./check C14` run).  Everything here is a *sound refinement* of the generic models: a value is
only ever replaced by another term that is provably equal to it.

1. byte XOR is kept in an associative-commutative normal form: a side table remembers for every XOR
   result the set of atoms (and the constant) it is the XOR of, and an XOR whose atom set (symmetric
   difference; x^x cancels, the empty set is the constant) has been built before returns the *same*
   term.  So `(x ^ m) ^ k` and `(m ^ k) ^ x` are one term.  The XOR of two symbolic bytes is a named
   byte `c` with `c == xor8(a, b) == xor8(b, a)` for an uninterpreted `xor8` (instead of the
   `bv2int(int2bv(a) ^ int2bv(b))` of models.bv_op, which made every later query slow): a sound
   abstraction (every fact given to the solver is true of XOR), complete enough for equations between
   XOR expressions of the same atoms; an obligation needing other bit-level facts would be UNDECIDED.
   XOR with a constant keeps the exact arithmetic encoding of models._int_binop.
2. `x % c` for a constant c > 0 is replaced by the constant r when the path condition proves x % c == r
   (candidate r from the constant part of the linear term x).
3. slices `s[lo:lo+n]` of a string of symbolic length whose length n is a constant <= 64 and whose bounds
   the path condition proves to be inside the string are materialised as n named bytes (a string with a
   concrete spine, like BytesN); slices of slices are re-based on the underlying string; the length of an
   in-bounds slice is recorded as a definition (`len(s[lo:lo+ln]) == ln`).
4. `recursive(...)`: a recursively defined spec function (bytes-valued, fixed result length) is an
   uninterpreted function plus, at every application whose case (base / step) the path condition decides,
   the instance of its defining equation for those arguments.  See `Rec`.
5. if-conversion of a pure diamond `if c: x = f(..) else: x = g(..)` (no path fork), see `st_If`.
Performance only: named results of bytes-valued uninterpreted functions, one big interpreter frame
(`_in_fat_frame`), clause functions parsed once, trivially true goals settled before the solver pool starts.
"""
from __future__ import annotations

import ast

import z3

from . import models as M
from .engine import SliceV, Unsupported, conc_int, mk_bytes, mk_int, zbytes, zint
from .values import BAObj, Ref, Sym

# ---------------------------------------------------------------------------
# 1. XOR of bytes in AC normal form
# ---------------------------------------------------------------------------

_orig_int_binop = M.int_binop
_XOR8 = z3.Function('xor8', z3.IntSort(), z3.IntSort(), z3.IntSort())


def _xkey(ex, v):
    """(atom set, constant) of a known byte"""
    if isinstance(v, int):
        return frozenset(), int(v)
    flat = ex.__dict__.setdefault('xor_flat', {})
    hit = flat.get(v.t.get_id())
    if hit is not None:
        return hit
    ex.__dict__.setdefault('xor_atoms', {})[v.t.get_id()] = v
    return frozenset([v.t.get_id()]), 0


def int_binop(ex, op, a, b):
    if type(op) is ast.BitXor and not ex.quant and not isinstance(a, bool) and not isinstance(b, bool) and (isinstance(a, Sym) or isinstance(b, Sym)) and M.is_known_byte(ex, a) and M.is_known_byte(ex, b):
        (sa, ca), (sb, cb) = _xkey(ex, a), _xkey(ex, b)
        key = (sa ^ sb, ca ^ cb)
        if not key[0]:
            return key[1]
        atoms = ex.__dict__['xor_atoms']
        if len(key[0]) == 1 and key[1] == 0:
            return atoms[next(iter(key[0]))]
        canon = ex.__dict__.setdefault('xor_canon', {})
        hit = canon.get(key)
        if hit is not None:
            return hit
        if isinstance(a, Sym) and isinstance(b, Sym):
            # two symbolic bytes: a named byte, known to the solver as the value of a commutative
            # uninterpreted function of the operands (an abstraction of XOR: sound, and with the
            # normal form above nothing else is needed; no int2bv/bv2int terms enter the path condition)
            c = z3.Int(ex.fresh_name('xor'))
            ex.add_def(z3.And(c == _XOR8(a.t, b.t), c == _XOR8(b.t, a.t)))  # both orders: commutativity
            ex.add_def(z3.And(c >= 0, c <= 255))
            r = Sym(c, 'int')
        else:
            r = _orig_int_binop(ex, op, a, b)
        if isinstance(r, Sym):
            ex.__dict__['xor_flat'][r.t.get_id()] = key
            canon[key] = r
            ex.keep.append(r.t)
            M.mark_byte(ex, r.t)
        return r
    return _orig_int_binop(ex, op, a, b)


M.int_binop = int_binop

# ---------------------------------------------------------------------------
# bytes-valued uninterpreted functions: result bytes are named constants (so that conditions over
# them are pure integer formulas, which the arithmetic abstraction of the inline feasibility queries
# keeps) and one application with the same argument terms yields the same constants
# ---------------------------------------------------------------------------
from . import contracts as _C  # noqa: E402
from . import seqspec as _S  # noqa: E402

_orig_q_ufb = _S.q_ufb


def q_ufb(ex, args, kwargs):
    if ex.quant:
        return _orig_q_ufb(ex, args, kwargs)
    r = _orig_q_ufb(ex, args, kwargs)
    if not isinstance(r, Sym):
        return r
    cache = ex.__dict__.setdefault('ufb_cache', {})
    hit = cache.get(r.t.get_id())
    if hit is not None:
        return hit
    n = M.plain(args[1])
    units = []
    for j in range(n):
        app = M._unit_at(r.t, j) if n > 1 else r.t.arg(0)
        c = z3.Int(ex.fresh_name(f'{args[0]}.{j}'))
        ex.add_def(c == app)
        ex.add_def(z3.And(c >= 0, c <= 255))
        M.mark_byte(ex, c)
        units.append(z3.Unit(c))
    out = Sym(units[0] if n == 1 else z3.Concat(*units), 'bytes')
    cache[r.t.get_id()] = out
    ex.keep.append(r.t)
    return out


_S.q_ufb = q_ufb
_S.SPEC_FORMS[_C.ufb] = q_ufb


# ---------------------------------------------------------------------------
# performance work-around (no semantic content): CPython 3.11/3.12 keep interpreter frames in 16 KB
# "data stack chunks" that are mmap'ed / munmap'ed whenever the frame stack crosses a chunk boundary.
# The engine is a deep recursive interpreter; inside a pool worker its hot loops happened to sit exactly
# on such a boundary (58 000 mmap/munmap pairs and as many page faults per lemma: 30 s instead of 1 s).
# Running the verification below one frame with a very large (unused) evaluation stack makes CPython allocate one big
# chunk whose spare room holds all deeper frames, so no chunk is allocated or freed during the run.
# ---------------------------------------------------------------------------
def _fat_frame_runner(slots=150_000):
    def _fat(fn, args, kwargs):
        return fn(*args, **kwargs)

    # an over-sized evaluation stack is harmless; it only enlarges the frame
    _fat.__code__ = _fat.__code__.replace(co_stacksize=slots)
    return _fat


_FAT = None


def _in_fat_frame(fn):
    def wrapper(*args, **kwargs):
        global _FAT
        if _FAT is None:
            _FAT = _fat_frame_runner()
        return _FAT(fn, args, kwargs)

    wrapper.__wrapped__ = fn
    return wrapper


from . import vcgen as _V  # noqa: E402

if not hasattr(_V.verify, '__wrapped__'):
    _V.verify = _in_fat_frame(_V.verify)


# ---------------------------------------------------------------------------
# 2. x % c with a constant c > 0: the constant the path condition proves it to be
# ---------------------------------------------------------------------------
_xor_int_binop = M.int_binop


def _const_part(t):
    t = z3.simplify(t)
    if z3.is_int_value(t):
        return t.as_long()
    if z3.is_app(t) and t.decl().kind() == z3.Z3_OP_ADD:
        return sum(c.as_long() for c in t.children() if z3.is_int_value(c))
    return 0


def _mentions_length(t, depth=0):
    if depth > 6 or not z3.is_app(t):
        return False
    if t.decl().kind() == z3.Z3_OP_SEQ_LENGTH:
        return True
    return any(_mentions_length(c, depth + 1) for c in t.children())


def int_binop2(ex, op, a, b):
    r = _xor_int_binop(ex, op, a, b)
    # (only for terms over string lengths: that is where a concrete value pays off -- slice bounds, paddings)
    if type(op) is ast.Mod and isinstance(r, Sym) and isinstance(b, int) and not isinstance(b, bool) and b > 0 and isinstance(a, Sym) and not ex.quant and _mentions_length(a.t):
        cand = _const_part(a.t) % b
        if ex.proves(a.t % b == cand):
            return cand
    return r


M.int_binop = int_binop2

# ---------------------------------------------------------------------------
# 3. slices of strings of symbolic length
# ---------------------------------------------------------------------------
_orig_slice_of = M.slice_of
MAX_MATERIALISE = 64


def slice_of(ex, o, sl):
    if not (isinstance(o, Sym) and o.k == 'bytes') or ex.quant or M.plain(sl.step) not in (None, 1):
        return _orig_slice_of(ex, o, sl)
    if conc_int(z3.Length(o.t)) is not None:
        return _orig_slice_of(ex, o, sl)
    slices = ex.__dict__.setdefault('slice_info', {})
    info = slices.get(o.t.get_id())
    n = mk_int(info[2]) if info is not None else mk_int(z3.Length(o.t))
    lo, ln = M.slice_bounds(ex, sl, n)  # clamped: 0 <= lo, 0 <= ln, lo + ln <= n whenever n >= 0
    if info is not None:
        base, lo = info[0], z3.simplify(info[1] + lo)  # a slice of an (in-bounds) slice is a slice of the base
    else:
        base = o.t
    # a slice that lies inside the first part X of a concatenation X ++ rest is a slice of X
    while z3.is_app(base) and base.decl().kind() == z3.Z3_OP_SEQ_CONCAT:
        first = base.arg(0)
        over = conc_int(z3.simplify(lo + ln - z3.Length(first)))
        if over is None or over > 0:
            break
        base = first
    t = z3.simplify(z3.Extract(base, lo, ln))
    if conc_int(z3.Length(t)) is not None:
        return mk_bytes(t)  # the simplifier resolved it (literal / concatenation of units)
    cl = conc_int(ln)
    if cl is not None and cl <= MAX_MATERIALISE:
        if cl == 0:
            return b''
        units = [z3.Unit(zint(M.read_byte(ex, base, z3.simplify(lo + j)))) for j in range(cl)]
        r = Sym(units[0] if cl == 1 else z3.Concat(*units), 'bytes')
        ex.add_def(t == r.t)  # definition of the named bytes as a string
        return r
    if t.get_id() != base.get_id():
        if t.get_id() not in slices:
            slices[t.get_id()] = (base, lo, ln)
            ex.keep.append(t)
            ex.add_def(z3.Length(t) == ln)
    return Sym(t, 'bytes')


M.slice_of = slice_of

from . import engine as _E  # noqa: E402

_orig_length = _E.Path.length


def length(self, v):
    if isinstance(v, Sym) and v.k == 'bytes':
        info = self.__dict__.get('slice_info', {}).get(v.t.get_id())
        if info is not None:
            return mk_int(info[2])
    return _orig_length(self, v)


_E.Path.length = length


# ---------------------------------------------------------------------------
# 4. recursively defined spec functions (bytes-valued, fixed result length)
# ---------------------------------------------------------------------------
class Rec:
    """f(*args) = base(*args) if stop(*args) else step(*args, f)  with a measure that is >= 0 and
    strictly smaller at every inner application (checked at each unfolding: the definition is
    well-founded, so the function exists and is unique: adding instances of its defining equation is a
    conservative extension, never an assumption about the program).

    Natively: the recursive Python function.  Symbolically: an uninterpreted function `rec_<name>`
    (result: `n` bytes); at an application whose arguments the path condition decides to be in the
    base case the value is `base(*args)`, in the step case it is `step(*args, f)` with the inner
    applications unfolded up to `depth` levels; otherwise the application stays folded."""

    def __init__(self, name, n, stop, base, step, measure, depth=1):
        self.name, self.n, self.stop, self.base, self.step, self.measure, self.depth = name, n, stop, base, step, measure, depth
        self.__name__ = name
        self.__module__ = stop.__module__
        self._funcs = {}
        M.NATIVE_MODELS[self] = lambda ex, *a, **k: self._symbolic(ex, a, k)

    def __hash__(self):
        return id(self)

    def __eq__(self, other):
        return self is other

    def __call__(self, *args):
        if self.stop(*args):
            return self.base(*args)
        return self.step(*args, self)

    def _symbolic(self, ex, args, kwargs):
        if kwargs:
            raise Unsupported('keyword arguments of a recursive spec function')
        return self._apply(ex, list(args), self.depth)

    def _f(self, ex, which):
        f = self._funcs.get(which)
        if f is None:
            f = self._funcs[which] = ex.cfg.spec_func(getattr(self, which))
        return f

    def _apply(self, ex, args, fuel):
        from .values import Builtin

        ex.spec_mode += 1
        try:
            folded = q_ufb(ex, ['rec_' + self.name, self.n] + list(args), {})
            if fuel <= 0 or ex.quant:
                return folded
            done = ex.__dict__.setdefault('rec_unfolded', {})
            key = (self.name, folded.t.get_id())
            if key in done:
                return done[key]
            c = ex.truth(ex.call(self._f(ex, 'stop'), list(args), {}))
            ct = z3.BoolVal(c) if isinstance(c, bool) else z3.simplify(c.t)
            syntactic = z3.is_true(ct) or z3.is_false(ct)  # decided without the path condition: costs no fuel
            if z3.is_true(ct) or (not z3.is_false(ct) and ex.proves(ct)):
                val = ex.call(self._f(ex, 'base'), list(args), {})
            elif z3.is_false(ct) or ex.proves(z3.Not(ct)):
                m0 = ex.call(self._f(ex, 'measure'), list(args), {})

                def inner(ex_, a, k):
                    m1 = ex_.call(self._f(ex_, 'measure'), list(a), {})
                    if not ex_.proves(z3.And(zint(m1) >= 0, zint(m1) < zint(m0))):
                        raise Unsupported(f'recursive spec function {self.name}: measure not provably decreasing')
                    return self._apply(ex_, list(a), fuel if syntactic else fuel - 1)

                val = ex.call(self._f(ex, 'step'), list(args) + [Builtin(self.name, inner)], {})
            else:
                return folded
            # the instance of the defining equation for these arguments
            ex.add_def(folded.t == zbytes(ex.as_bytes_value(val)))
            done[key] = val
            return val
        finally:
            ex.spec_mode -= 1


def recursive(name, n, stop, base, step, measure, depth=1):
    return Rec(name, n, stop, base, step, measure, depth)


# ---------------------------------------------------------------------------
# 5. if-conversion of a pure diamond
#        if c: x = f(..)  else: x = g(..)
#    (one assignment to the same target in each arm, right-hand sides calls of pure functions: spec
#    functions, or callees replaced by a contract with modifies=[] / no raises / functional result=)
#    with byte strings of the same concrete length as values: both arms are evaluated and the target gets
#    the byte-wise `If(c, a_j, b_j)` instead of forking the path.  Anything else: the ordinary rule.
# ---------------------------------------------------------------------------
_orig_st_If = _E.Path.st_If


def _pure_arg(n):
    if isinstance(n, ast.Constant):
        return True
    if isinstance(n, ast.Name):
        return True
    if isinstance(n, ast.Attribute):
        return _pure_arg(n.value)
    return False


def _pure_call(ex, n):
    from .values import Func

    if not isinstance(n, ast.Call) or not isinstance(n.func, (ast.Name, ast.Attribute)) or not _pure_arg(n.func):
        return False
    if not all(_pure_arg(a) for a in n.args) or not all(k.arg is not None and _pure_arg(k.value) for k in n.keywords):
        return False
    try:
        f = ex.eval(n.func)
    except Exception:  # noqa: BLE001
        return False
    if not isinstance(f, Func):
        return False
    if f.origin == 'spec':
        return True
    c2 = ex.cfg.contract_for(ex, f'{f.module.__name__}:{f.qualname}', f)
    return c2 is not None and not c2.modifies and not c2.raises and c2.extra.get('result') is not None


def _same_target(a, b):
    return isinstance(a, (ast.Name, ast.Attribute)) and ast.dump(a) == ast.dump(b) and (isinstance(a, ast.Name) or _pure_arg(a.value))


def st_If(self, s):
    if (
        not self.quant
        and len(s.body) == 1
        and len(s.orelse) == 1
        and isinstance(s.body[0], ast.Assign)
        and isinstance(s.orelse[0], ast.Assign)
        and len(s.body[0].targets) == 1
        and len(s.orelse[0].targets) == 1
        and _same_target(s.body[0].targets[0], s.orelse[0].targets[0])
        and _pure_call(self, s.body[0].value)
        and _pure_call(self, s.orelse[0].value)
    ):
        c = self.truth(self.eval(s.test))
        if isinstance(c, Sym) and c.k == 'bool':
            a = self.eval(s.body[0].value)
            b = self.eval(s.orelse[0].value)
            m = _merge_bytes(self, c, a, b)
            if m is None:
                m = a if self.branch(c) else b
            self.assign(s.body[0].targets[0], m)
            return
        if isinstance(c, bool):
            self.exec_block(s.body if c else s.orelse)
            return
        return _orig_st_If(self, s)  # (evaluates the test again: tests are pure in the pattern's context or fork as usual)
    return _orig_st_If(self, s)


def _merge_bytes(ex, c, a, b):
    if ex.kind_of(a) != 'bytes' or ex.kind_of(b) != 'bytes':
        return None
    ta, tb = zbytes(a), zbytes(b)
    na, nb = conc_int(z3.Length(ta)), conc_int(z3.Length(tb))
    if na is None or na != nb or na == 0 or na > 64:
        return None
    units = []
    for j in range(na):
        x, y = M.read_byte(ex, ta, z3.IntVal(j)), M.read_byte(ex, tb, z3.IntVal(j))
        xt, yt = zint(x), zint(y)
        if xt.eq(yt):
            units.append(z3.Unit(xt))
            continue
        t = z3.simplify(z3.If(c.t, xt, yt))
        if M.is_known_byte(ex, x) and M.is_known_byte(ex, y):
            M.mark_byte(ex, t)
        units.append(z3.Unit(t))
    return Sym(units[0] if na == 1 else z3.Concat(*units), 'bytes')


_E.Path.st_If = st_If

# parsing the source of a clause function once per run (not once per use)
_orig_spec_func = _V.Config.spec_func
_SPEC_FUNCS = {}


def spec_func(self, fn):
    from .values import Func

    if isinstance(fn, Func):
        return fn
    try:
        hit = _SPEC_FUNCS.get(fn)
    except TypeError:
        return _orig_spec_func(self, fn)
    if hit is None:
        hit = _SPEC_FUNCS[fn] = _orig_spec_func(self, fn)
    return hit


_V.Config.spec_func = spec_func


# ---------------------------------------------------------------------------
# performance only: obligations whose goal the simplifier reduces to `true` are settled in-process, before
# the fork pool of solve.discharge_all is started (most C14 obligations are of that kind since both sides of
# an equation are built from the same normal forms); the verdict is the one solve.discharge would give
# ---------------------------------------------------------------------------
from . import solve as _SV  # noqa: E402

_orig_discharge_all = _SV.discharge_all


def discharge_all(obligations, timeout_ms=20000, procs=14, seed=0, both=False):
    import time as _time

    out = [None] * len(obligations)
    rest = []
    for i, ob in enumerate(obligations):
        if not ob.expect_sat and not both:
            t0 = _time.time()
            if z3.is_true(z3.simplify(ob.goal)):
                out[i] = {'status': 'proved', 'backend': 'simplifier', 'time': _time.time() - t0}
                continue
        rest.append(i)
    if rest:
        res = _orig_discharge_all([obligations[i] for i in rest], timeout_ms, procs, seed, both)
        for i, r in zip(rest, res):
            out[i] = r
    return out


_SV.discharge_all = discharge_all


# ---------------------------------------------------------------------------
# 6. small integer primitives met in the elliptic-curve code (added for the C14 strengthening)
#    a. x ** n with a concrete exponent 0 <= n <= 8: the n-fold product (exact)
#    b. pow(b, -1, m): CPython raises ValueError("base is not invertible for the given modulus") when b has no
#       inverse modulo m, else returns the inverse r, 0 <= r < |m| (m > 0 here).  The model forks both outcomes
#       and over-approximates the value: *some* r in 0..m-1 (the congruence r*b == 1 (mod m) is dropped: 256-bit
#       non-linear arithmetic; more behaviours than the real function has, never fewer).  Other uses of the
#       three-argument pow are Unsupported.
#    c. secrets.randbelow(n): ValueError for n <= 0, else any integer in 0..n-1
# ---------------------------------------------------------------------------
_prev_int_binop = M.int_binop


def int_binop3(ex, op, a, b):
    if type(op) is ast.Pow and isinstance(a, Sym) and isinstance(b, int) and not isinstance(b, bool) and 0 <= b <= 8:
        r = 1
        for _ in range(b):
            r = _prev_int_binop(ex, ast.Mult(), r, a) if not (isinstance(r, int) and r == 1) else a
        return r
    return _prev_int_binop(ex, op, a, b)


M.int_binop = int_binop3

from . import models_calls as _MC  # noqa: E402
from .engine import mk_bool  # noqa: E402


def m_pow(ex, base, exp, mod=None):
    base, exp, mod = M.plain(base), M.plain(exp), M.plain(mod)
    if mod is None:
        return M.binop(ex, ast.Pow(), base, exp)
    if ex.is_conc(base) and ex.is_conc(exp) and ex.is_conc(mod):
        try:
            return pow(base, exp, mod)
        except Exception as e:  # noqa: BLE001
            from .engine import PyExc

            raise PyExc(e)
    if not (isinstance(exp, int) and exp == -1 and isinstance(mod, int) and not isinstance(mod, bool) and mod > 1):
        raise Unsupported('three-argument pow other than pow(b, -1, m) with a constant modulus m > 1')
    if ex.kind_of(base) != 'int':
        raise Unsupported('pow of a non-integer')
    if ex.decide([True, True], 'pow(b, -1, m): invertible / not invertible') == 1:
        ex.raise_(ValueError, 'base is not invertible for the given modulus')
    r = ex.fresh_sym('int', 'modinv')
    ex.add_def(z3.And(r.t >= 0, r.t < mod))
    M.mark_range(ex, r.t, 0, mod - 1)
    return r


_MC.NATIVE_MODELS[pow] = m_pow

import secrets as _secrets  # noqa: E402


def m_randbelow(ex, n):
    n = M.plain(n)
    if ex.kind_of(n) != 'int':
        raise Unsupported('secrets.randbelow of a non-integer')
    if isinstance(n, int):
        if n <= 0:
            ex.raise_(ValueError, 'Upper bound must be positive.')
    elif not ex.branch(mk_bool(zint(n) > 0)):
        ex.raise_(ValueError, 'Upper bound must be positive.')
    r = ex.fresh_sym('int', 'randbelow')
    ex.add_def(z3.And(r.t >= 0, r.t < zint(n)))
    if isinstance(n, int):
        M.mark_range(ex, r.t, 0, n - 1)
    return r


_MC.NATIVE_MODELS[_secrets.randbelow] = m_randbelow


# ---------------------------------------------------------------------------
# 7. `RecListOf(T)`: an immutable list of *symbolic length* whose elements are records that are FUNCTIONS OF
#    THE INDEX (added for the C14 strengthening: AddressResolver.resolving_keys, a list of (irk, Address)).
#    Every scalar leaf of the element type (an Int, a Bool, each byte of a BytesN) is an uninterpreted function
#    Int -> Int of the index, so `xs[i]` and `xs[j]` are equal whenever i == j, a `for` loop (invariant rule, index
#    `_i`) hands out `xs[_i]`, and clauses can quantify over the elements (`forall(0, len(xs), lambda j: p(xs[j]))`).
#    The type invariants of the leaves (byte / IntRange bounds) are stated for every index an element is built for.
#    This is exact for any real list of immutable values of that shape (its elements ARE a function of the index);
#    object identity of the records is not modelled (each access builds a new object: value semantics only) and
#    writing to the list (append, item assignment, ...) is Unsupported.  Replay: the first min(len, 32) elements
#    under the counter-model.
# ---------------------------------------------------------------------------
from .values import ExtObj, Obj  # noqa: E402


class RecListOf(_C.ExtT):
    def __init__(self, t):
        self.t = t

    def __repr__(self):
        return f'RecListOf({self.t!r})'

    def fresh(self, cfg, path, hint):
        n = path.fresh_sym('int', hint + '.len')
        path.add_def(n.t >= 0)
        return path.alloc(RecList(self.t, n, path.fresh_name(hint)))


_REC_FUNCS = {}


def _rec_fn(uid, leaf, bool_valued=False):
    key = (uid, leaf, bool_valued)
    f = _REC_FUNCS.get(key)
    if f is None:
        f = _REC_FUNCS[key] = z3.Function(f'{uid}.{leaf}', z3.IntSort(), z3.BoolSort() if bool_valued else z3.IntSort())
    return f


class RecList(ExtObj):
    def __init__(self, elem_t, n, uid):
        self.elem_t, self.n, self.uid = elem_t, n, uid

    def clone(self):
        return RecList(self.elem_t, self.n, self.uid)

    def __repr__(self):
        return f'RecList({self.elem_t!r}, len={self.n}, {self.uid})'

    # -- element at index term `idx` (z3 Int): engine value; `ex` None -> description with Sym leaves (replay)
    def _build(self, ex, t, idx, leaf):
        if t is _C.Int or isinstance(t, _C.IntRange):
            v = _rec_fn(self.uid, leaf)(idx)
            if isinstance(t, _C.IntRange) and ex is not None:
                ex.add_def(z3.And(v >= t.lo, v <= t.hi))
                if not ex.quant:
                    M.mark_range(ex, v, t.lo, t.hi)
            return Sym(v, 'int')
        if t is _C.Bool:
            return Sym(_rec_fn(self.uid, leaf, True)(idx), 'bool')
        if isinstance(t, _C.BytesN):
            if t.n == 0:
                return b''
            units = []
            for j in range(t.n):
                b = _rec_fn(self.uid, f'{leaf}[{j}]')(idx)
                if ex is not None:
                    ex.add_def(z3.And(b >= 0, b <= 255))
                    if not ex.quant:
                        M.mark_byte(ex, b)
                units.append(z3.Unit(b))
            return Sym(units[0] if len(units) == 1 else z3.Concat(*units), 'bytes')
        if isinstance(t, _C.TupleOf):
            return tuple(self._build(ex, x, idx, f'{leaf}.{i}') for i, x in enumerate(t.ts))
        if isinstance(t, _C.Inst):
            reg = (ex.cfg.reg if ex is not None else _C.REG)
            mdl = reg.models.get(t.name)
            if mdl is None:
                raise Unsupported(f'no class model {t.name}')
            fields = {fn: self._build(ex, t.overrides.get(fn, ft), idx, f'{leaf}.{fn}') for fn, ft in mdl.fields.items()}
            if ex is None:
                return {'__frozen__': mdl.name, 'fields': fields}
            return ex.alloc(Obj(_V.resolve_class(t.name), fields, mdl))
        raise Unsupported(f'RecListOf: element type {t!r} (Int, IntRange, Bool, BytesN, TupleOf, Inst of such fields)')

    def _elem_at(self, ex, idx):
        ex.abstraction_used = ex.abstraction_used  # (exact: no abstraction)
        return self._build(ex, self.elem_t, z3.simplify(zint(idx)), 'e')

    def ext_model(self, conc):
        n = conc(self.n) if isinstance(self.n, Sym) else self.n
        n = n if isinstance(n, int) else 0

        def thaw(d):
            if isinstance(d, dict) and '__frozen__' in d:
                return {'__obj__': d['__frozen__'], 'fields': {k: thaw(x) for k, x in d['fields'].items()}}
            if isinstance(d, tuple):
                return tuple(thaw(x) for x in d)
            return conc(d)

        return {'__list__': [thaw(self._build(None, self.elem_t, z3.IntVal(j), 'e')) for j in range(max(0, min(n, 32)))], 'flavor': 'list'}

    def ext_truth(self, ex, ref):
        return ex.compare_op(ast.Gt(), self.n, 0)

    def ext_len(self, ex, ref):
        return self.n

    def ext_havoc(self, ex, ref, hint):
        n = ex.fresh_sym('int', hint + '.len')
        ex.add_def(n.t >= 0)
        self.n, self.uid = n, ex.fresh_name(hint)

    def ext_unchanged(self, ex, other):
        return isinstance(other, RecList) and other.n is self.n and other.uid == self.uid

    def ext_method(self, ex, ref, name, args, kwargs):
        raise Unsupported(f'method {name} of a list of records of symbolic length')

    def ext_subscript(self, ex, ref, i):
        i = M.plain(i)
        if not M.is_intlike(ex, i):
            raise Unsupported('slice / non-integer index into a list of records of symbolic length')
        if ex.spec_mode:
            return self._elem_at(ex, i)  # clauses: indexing is total (the clause guards the index)
        n, it = zint(self.n), zint(i)
        if not ex.branch(mk_bool(z3.And(it >= -n, it < n))):
            ex.raise_(IndexError, 'list index out of range')
        return self._elem_at(ex, mk_int(z3.If(it < 0, it + n, it)))

    def ext_for(self, ex, ref, s, spec):
        if spec is None:
            raise Unsupported(f'for loop over a list of records of symbolic length without invariant at {ex.cur_loc}')
        itname = '_i'
        ex.store_name(itname, 0)

        def test():
            return ex.compare_op(ast.Lt(), ex.lookup(itname), ex.obj(ref).n)

        def pre_body():
            ex.assign(s.target, ex.obj(ref)._elem_at(ex, ex.lookup(itname)))

        def stepf():
            ex.store_name(itname, ex.binop(ast.Add(), ex.lookup(itname), 1))

        ex.cut_loop(s, spec, test, pre_body, (itname,), stepf)


# ---------------------------------------------------------------------------
# 8. str(obj) of an object whose class defines __str__ calls that method (CPython: type(obj).__str__(obj)) instead
#    of yielding an anonymous opaque string; and "tagged texts": opaque strings that remember which values they
#    were formatted from, so that a contract of a formatting function and a contract of the matching parsing
#    function can be stated (`tagged_text(tag, *values)` / `text_tag(s)` / `text_value(s, i)`); the *content* of
#    the string stays outside the value domain.
# ---------------------------------------------------------------------------
from .values import OpaqueStr  # noqa: E402


class TaggedText(OpaqueStr):
    def __init__(self, tag, values):
        self.tag, self.values = tag, tuple(values)

    def __repr__(self):
        return f'TaggedText({self.tag})'


_orig_m_str = _MC.CLASS_MODELS[str]


def m_str(ex, *args):
    if len(args) == 1 and isinstance(args[0], Ref) and isinstance(ex.obj(args[0]), Obj) and ex.obj(args[0]).cls is not None:
        cls = ex.obj(args[0]).cls
        if '__str__' in {k for c in cls.__mro__ if c is not object for k in c.__dict__}:
            return ex.call(ex.getattr(args[0], '__str__'), [], {})
    return _orig_m_str(ex, *args)


_MC.CLASS_MODELS[str] = m_str

TEXT_FORMATS = {}  # tag -> (format(*values) -> str, parse(str) -> tuple of values): the native meaning


def tagged_text(tag, *values):
    return TEXT_FORMATS[tag][0](*values)


def text_tag(s):
    """the tag of a tagged text, else None (natively: the first registered format that parses the string)"""
    for tag, (_fmt, parse) in TEXT_FORMATS.items():
        try:
            if parse(s) is not None:
                return tag
        except Exception:  # noqa: BLE001
            continue
    return None


def text_value(s, i):
    return TEXT_FORMATS[text_tag(s)][1](s)[i]


def _q_tagged_text(ex, args, kwargs):
    return TaggedText(M.plain(args[0]), [M.plain(a) for a in args[1:]])


def _q_text_tag(ex, args, kwargs):
    s = M.plain(args[0])
    return s.tag if isinstance(s, TaggedText) else None


def _q_text_value(ex, args, kwargs):
    s, i = M.plain(args[0]), M.plain(args[1])
    if not isinstance(s, TaggedText) or not isinstance(i, int):
        raise Unsupported('text_value of a string that is not a tagged text')
    return s.values[i]


_S.SPEC_FORMS[tagged_text] = _q_tagged_text
_S.SPEC_FORMS[text_tag] = _q_text_tag
_S.SPEC_FORMS[text_value] = _q_text_value


# ---------------------------------------------------------------------------
# 9. two more integer primitives (so that a size-dependent byte encoding of a big integer is *refuted* rather than
#    reported unsupported):
#    a. x.bit_length() of a symbolic integer the path condition bounds by |x| < 2**K, K <= 512: the number of
#       k in 0..K-1 with 2**k <= |x| (exact)
#    b. x.to_bytes(L, order) with a symbolic length the path condition bounds by 0 <= L <= 64: case split on L
#       (one path per feasible value; each then uses the concrete-length model, OverflowError included)
# ---------------------------------------------------------------------------
_orig_int_method = _MC.int_method
_orig_int_to_bytes = _MC.int_to_bytes


def int_method(ex, recv, name, args, kwargs):
    if name == 'bit_length' and isinstance(recv, Sym) and recv.k == 'int' and not args and not kwargs and not ex.quant:
        x = recv.t
        K = None
        for cand in (8, 16, 32, 64, 128, 256, 512):
            if ex.proves(z3.And(x > -(1 << cand), x < (1 << cand))):
                K = cand
                break
        if K is None:
            raise Unsupported('int.bit_length of an integer without a provable bound below 2**512')
        a = z3.If(x >= 0, x, -x)
        n = z3.Int(ex.fresh_name('bitlen'))
        ex.add_def(n == z3.Sum([z3.If(a >= (1 << k), 1, 0) for k in range(K)]))
        ex.add_def(z3.And(n >= 0, n <= K))
        M.mark_range(ex, n, 0, K)
        return Sym(n, 'int')
    return _orig_int_method(ex, recv, name, args, kwargs)


def int_to_bytes(ex, v, length=1, byteorder='big', *, signed=False):
    ln = M.plain(length)
    if isinstance(ln, Sym) and ln.k == 'int' and not ex.quant and not ex.spec_mode and ex.proves(z3.And(ln.t >= 0, ln.t <= 64)):
        k = ex.decide([ln.t == j for j in range(65)], 'to_bytes length')
        return _orig_int_to_bytes(ex, v, k, byteorder, signed=signed)
    return _orig_int_to_bytes(ex, v, length, byteorder, signed=signed)


_MC.int_method = int_method
_MC.int_to_bytes = int_to_bytes
