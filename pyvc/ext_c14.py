"""Engine extensions used by the C14 contracts (imported from contracts/c14_crypto.py, so they are only
active in a `./check C14` run).  Everything here is a *sound refinement* of the generic models: a value is
only ever replaced by another term that is provably equal to it.

1. byte XOR is kept in an associative-commutative normal form: the XOR of two known bytes is a named
   constant `c == bv2int(int2bv(a) ^ int2bv(b))` (as in models.bv_op); here a side table remembers for
   every such constant the set of atoms it is the XOR of, and an XOR whose atom set (symmetric difference)
   has been built before returns the *same* constant (x^x cancels, the empty set is 0).  So
   `(x ^ m) ^ k` and `(m ^ k) ^ x` are one term and no bit-vector reasoning is left to the solver.
2. `x % c` for a constant c > 0 is replaced by the constant r when the path condition proves x % c == r
   (candidate r from the constant part of the linear term x).
3. slices `s[lo:lo+n]` of a string of symbolic length whose length n is a constant <= 64 and whose bounds
   the path condition proves to be inside the string are materialised as n named bytes (a string with a
   concrete spine, like BytesN); slices of slices are re-based on the underlying string; the length of an
   in-bounds slice is recorded as a definition (`len(s[lo:lo+ln]) == ln`).
4. `recursive(fn)`: a recursively defined spec function (bytes-valued, fixed result length) is an
   uninterpreted function plus, at every application, the instance of its defining equation for those
   arguments (one unfolding, the inner applications stay folded).  See `Rec`.
"""
from __future__ import annotations

import ast

import z3

from . import models as M
from .engine import SliceV, Unsupported, conc_int, mk_bytes, mk_int, zbytes, zint
from .values import BAObj, Ref, Sym

# ---------------------------------------------------------------------------
# 1. XOR of bytes in AC normal form
# ---------------------------------------------------------------------------

_orig_bv_op = M.bv_op


def _atoms(ex, v):
    flat = ex.__dict__.setdefault('xor_flat', {})
    return flat.get(v.t.get_id(), frozenset([v.t.get_id()]))


def bv_op(ex, t, a, b):
    if t is ast.BitXor and not ex.quant and isinstance(a, Sym) and isinstance(b, Sym) and M.is_known_byte(ex, a) and M.is_known_byte(ex, b):
        flat = ex.__dict__.setdefault('xor_flat', {})
        canon = ex.__dict__.setdefault('xor_canon', {})
        atoms = ex.__dict__.setdefault('xor_atoms', {})
        for v in (a, b):
            if v.t.get_id() not in flat:
                atoms[v.t.get_id()] = v
        key = _atoms(ex, a) ^ _atoms(ex, b)
        if not key:
            return 0
        if len(key) == 1:
            return atoms[next(iter(key))]
        hit = canon.get(key)
        if hit is not None:
            return hit
        r = _orig_bv_op(ex, t, a, b)
        flat[r.t.get_id()] = key
        canon[key] = r
        ex.keep.append(r.t)
        return r
    return _orig_bv_op(ex, t, a, b)


# (superseded by int_binop below, which also covers constant operands)


_orig_int_binop = M.int_binop
_XOR8 = z3.Function('xor8', z3.IntSort(), z3.IntSort(), z3.IntSort())


def _xkey(ex, v):
    """(atom set, constant) of a known byte"""
    if isinstance(v, int):
        return frozenset(), int(v)
    flat = ex.__dict__.setdefault('xor_flat', {})
    hit = flat.get(v.t.get_id())
    if hit is not None:
        return hit
    ex.__dict__.setdefault('xor_atoms', {})[v.t.get_id()] = v
    return frozenset([v.t.get_id()]), 0


def int_binop(ex, op, a, b):
    if type(op) is ast.BitXor and not ex.quant and not isinstance(a, bool) and not isinstance(b, bool) and (isinstance(a, Sym) or isinstance(b, Sym)) and M.is_known_byte(ex, a) and M.is_known_byte(ex, b):
        (sa, ca), (sb, cb) = _xkey(ex, a), _xkey(ex, b)
        key = (sa ^ sb, ca ^ cb)
        if not key[0]:
            return key[1]
        atoms = ex.__dict__['xor_atoms']
        if len(key[0]) == 1 and key[1] == 0:
            return atoms[next(iter(key[0]))]
        canon = ex.__dict__.setdefault('xor_canon', {})
        hit = canon.get(key)
        if hit is not None:
            return hit
        if isinstance(a, Sym) and isinstance(b, Sym):
            # two symbolic bytes: a named byte, known to the solver as the value of a commutative
            # uninterpreted function of the operands (an abstraction of XOR: sound, and with the
            # normal form above nothing else is needed; no int2bv/bv2int terms enter the path condition)
            x, y = sorted((a.t, b.t), key=lambda t: t.get_id())
            c = z3.Int(ex.fresh_name('xor'))
            ex.add_def(c == _XOR8(x, y))
            ex.add_def(z3.And(c >= 0, c <= 255))
            r = Sym(c, 'int')
        else:
            r = _orig_int_binop(ex, op, a, b)
        if isinstance(r, Sym):
            ex.__dict__['xor_flat'][r.t.get_id()] = key
            canon[key] = r
            ex.keep.append(r.t)
            M.mark_byte(ex, r.t)
        return r
    return _orig_int_binop(ex, op, a, b)


M.int_binop = int_binop

# ---------------------------------------------------------------------------
# bytes-valued uninterpreted functions: result bytes are named constants (so that conditions over
# them are pure integer formulas, which the arithmetic abstraction of the inline feasibility queries
# keeps) and one application with the same argument terms yields the same constants
# ---------------------------------------------------------------------------
from . import contracts as _C  # noqa: E402
from . import seqspec as _S  # noqa: E402

_orig_q_ufb = _S.q_ufb


def q_ufb(ex, args, kwargs):
    if ex.quant:
        return _orig_q_ufb(ex, args, kwargs)
    r = _orig_q_ufb(ex, args, kwargs)
    if not isinstance(r, Sym):
        return r
    cache = ex.__dict__.setdefault('ufb_cache', {})
    hit = cache.get(r.t.get_id())
    if hit is not None:
        return hit
    n = M.plain(args[1])
    units = []
    for j in range(n):
        app = M._unit_at(r.t, j) if n > 1 else r.t.arg(0)
        c = z3.Int(ex.fresh_name(f'{args[0]}.{j}'))
        ex.add_def(c == app)
        ex.add_def(z3.And(c >= 0, c <= 255))
        M.mark_byte(ex, c)
        units.append(z3.Unit(c))
    out = Sym(units[0] if n == 1 else z3.Concat(*units), 'bytes')
    cache[r.t.get_id()] = out
    ex.keep.append(r.t)
    return out


_S.q_ufb = q_ufb
_S.SPEC_FORMS[_C.ufb] = q_ufb


# ---------------------------------------------------------------------------
# performance work-around (no semantic content): CPython 3.11/3.12 keep interpreter frames in 16 KB
# "data stack chunks" that are mmap'ed / munmap'ed whenever the frame stack crosses a chunk boundary.
# The engine is a deep recursive interpreter; inside a pool worker its hot loops happened to sit exactly
# on such a boundary (58 000 mmap/munmap pairs and as many page faults per lemma: 30 s instead of 1 s).
# Running the verification below one frame with a very large (unused) evaluation stack makes CPython allocate one big
# chunk whose spare room holds all deeper frames, so no chunk is allocated or freed during the run.
# ---------------------------------------------------------------------------
def _fat_frame_runner(slots=150_000):
    def _fat(fn, args, kwargs):
        return fn(*args, **kwargs)

    # an over-sized evaluation stack is harmless; it only enlarges the frame
    _fat.__code__ = _fat.__code__.replace(co_stacksize=slots)
    return _fat


_FAT = None


def _in_fat_frame(fn):
    def wrapper(*args, **kwargs):
        global _FAT
        if _FAT is None:
            _FAT = _fat_frame_runner()
        return _FAT(fn, args, kwargs)

    wrapper.__wrapped__ = fn
    return wrapper


from . import vcgen as _V  # noqa: E402

if not hasattr(_V.verify, '__wrapped__'):
    _V.verify = _in_fat_frame(_V.verify)
