"""Engine extension used by C10.

1. `RecVal('module:Class#view')` -- *immutable record values*: an instance of a modelled class seen as the tuple of its
   data fields (a z3 tuple; element kind ('rval', model name)).  PyVC's symbolic sequences hold scalars / tuples
   only; the GATT server walks `self.attributes`, a list of Attribute objects of any length, appends some of them
   to a local list and walks that list again.  With `ListOf(RecVal(..))` such lists are ordinary symbolic sequences:
   iteration, subscripts, `append`, comprehensions, loop havoc and frame conditions are the engine's existing
   sequence machinery; only attribute access on an element is new (projection of the tuple).
   What the abstraction gives up, and why it is sound for the code it is used on:
     * a record has no identity: `is` on records, and `==` on a class without a modelled `__eq__`, are Unsupported
       (skeleton profile: an unknown boolean) -- never a guessed answer;
     * a record cannot be written: there is no store on a `Sym`; `x.f = v` on a record is Unsupported;
     * the data fields are the model's fields of scalar type (Int, IntRange, Bool, Bytes, Opaque, nested Rec);
       `Callback` fields and the model's `methods` are looked up on the model, exactly as for `Inst`;
     * IntRange is a type invariant of the field: every record value comes from a typed fresh value (records are
       never made from raw integers by the code), so the range fact is added where the field is read.
2. `b''.join(xs)` for a list of byte strings of symbolic length: the result is an uninterpreted function of the list
   (the same `pyvc_bytes_join` the core uses) whose *length* is specified: len(join(xs)) == lensum(xs) with
       lensum([]) == 0,   lensum(xs + [y]) == lensum(xs) + len(y)            (CPython: b''.join concatenates)
   `lensum` is uninterpreted for the solvers; the two defining equations are instantiated on the terms of those
   shapes that the execution produces (list.append gives xs ++ [y]).
"""
from __future__ import annotations

import ast

import z3

from . import contracts as C
from . import models as M
from . import seqspec, values
from .engine import Unsupported, mk_bool, mk_int, zint
from .values import Bound, Builtin, IntSeq, Sym, Unknown, sort_of


# ---------------------------------------------------------------------------
# 1. records
# ---------------------------------------------------------------------------
class RecVal(C.ExtT):
    def __init__(self, name):
        self.name = name

    def __repr__(self):
        return f'RecVal({self.name})'

    def kind(self):
        return ('rval', self.name)

    def fresh(self, cfg, path, hint):
        return path.fresh_sym(self.kind(), hint)


def _is_data(ft):
    return ft in (C.Int, C.Bool, C.Bytes) or isinstance(ft, (C.IntRange, C.Opaque, RecVal))


def _kind_of_field(ft):
    if isinstance(ft, RecVal):
        return ft.kind()
    from .vcgen import kind_of_T

    return kind_of_T(ft)


class RecKind:
    """handler of the element kind ('rval', model name) -- see values.EXT_KINDS"""

    def __init__(self):
        self._sorts = {}

    def model(self, kind):
        mdl = C.REG.models.get(kind[1])
        if mdl is None:
            raise Unsupported(f'no class model {kind[1]}')
        return mdl

    def data_fields(self, kind):
        return [(n, ft) for n, ft in self.model(kind).fields.items() if _is_data(ft)]

    def parts(self, kind):
        if kind not in self._sorts:
            flds = self.data_fields(kind)
            if not flds:
                raise Unsupported(f'record model {kind[1]} has no data field')
            name = 'Rec_' + ''.join(c if c.isalnum() else '_' for c in kind[1])
            sort, mk, projs = z3.TupleSort(name, [sort_of(_kind_of_field(ft)) for _, ft in flds])
            self._sorts[kind] = (sort, mk, {n: (projs[i], ft) for i, (n, ft) in enumerate(flds)})
        return self._sorts[kind]

    def sort(self, kind):
        return self.parts(kind)[0]

    def to_value(self, ex, term, kind):
        """element term -> record value.  A compound term (xs[i] is a conditional between the in-range and the
        out-of-range read) gets a name, so that a list it is appended to keeps the shape init ++ [e]"""
        t = z3.simplify(term)
        if ex.quant or z3.is_const(t) or (z3.is_app(t) and t.decl().kind() == z3.Z3_OP_DT_CONSTRUCTOR):
            return Sym(t, kind)
        c = z3.Const(ex.fresh_name('rec'), self.sort(kind))
        ex.add_def(c == t)
        return Sym(c, kind)

    def pytype(self, kind):
        from .vcgen import resolve_class

        return resolve_class(kind[1]) if not kind[1].startswith('ghost:') else None

    def kname(self, kind):
        return 'R' + ''.join(c if c.isalnum() else '_' for c in kind[1])

    def getattr(self, ex, sym, name):
        mdl = self.model(sym.k)
        projs = self.parts(sym.k)[2]
        if name in projs:
            proj, ft = projs[name]
            t = z3.simplify(proj(sym.t))
            if isinstance(ft, C.IntRange):
                ex.add_def(z3.And(t >= ft.lo, t <= ft.hi))
            return M.elem_to_value(ex, t, _kind_of_field(ft))
        m_ = mdl.fields.get(name)
        if isinstance(m_, C.Callback):
            return ex.cfg.fresh(ex, m_, name)
        if name in mdl.methods:
            m_ = mdl.methods[name]
            if isinstance(m_, C.Callback):
                return ex.cfg.fresh(ex, m_, name)
            # a spec function standing in for the real method (symbolic stand-in only: natively the real method runs)
            f = ex.cfg.spec_func(m_)

            def impl(ex_, args, kwargs, _f=f, _s=sym):
                ex_.spec_mode += 1
                try:
                    return ex_.run_func(_f, [_s] + list(args), kwargs)
                finally:
                    ex_.spec_mode -= 1

            return Builtin(name, impl)
        if name in mdl.fields:
            return ex.cfg.fresh(ex, mdl.fields[name], name)
        if ex.skeleton:
            ex.abstraction_used = True
            return Unknown(f'.{name}')
        ex.raise_(AttributeError, name)

    def truth(self, ex, sym):
        mdl = self.model(sym.k)
        for n in ('__bool__', '__len__'):
            if n in mdl.methods:
                return ex.truth(ex.call(self.getattr(ex, sym, n), [], {}))
        return True  # an instance of a class that defines neither __bool__ nor __len__ (checked on the real class)

    def from_native(self, ex, kind, obj):
        """record value of a *concrete* instance of the modelled class (a reflected constant such as a well-known
        UUID): REC_FROM_NATIVE[model name](obj) -> dict of the data fields"""
        conv = REC_FROM_NATIVE.get(kind[1])
        if conv is None or not isinstance(obj, self.pytype(kind)):
            return None
        sort, mk, projs = self.parts(kind)
        d = conv(obj)
        return Sym(mk(*[M.value_to_elem(ex, d[n], _kind_of_field(ft)) for n, (p, ft) in projs.items()]), kind)

    def _eq(self, ex, a, b):
        for x, y in ((a, b), (b, a)):
            if isinstance(x, Sym) and values.ext_kind(x.k) is self and '__eq__' in self.model(x.k).methods:
                if not isinstance(y, Sym) and ex.is_conc(y):
                    y2 = self.from_native(ex, x.k, y)
                    if y2 is None:
                        return False if y is None else self._unknown_eq(ex, a, b)
                    y = y2
                return ex.truth(ex.call(self.getattr(ex, x, '__eq__'), [y], {}))
        return self._unknown_eq(ex, a, b)

    def _unknown_eq(self, ex, a, b):
        if ex.skeleton:
            ex.abstraction_used = True
            return Unknown('compare')
        raise Unsupported(f'== on a record without a modelled __eq__: {a!r} {b!r}')

    def compare(self, ex, op, a, b):
        if isinstance(op, (ast.Is, ast.IsNot)):
            if a is None or b is None:
                return isinstance(op, ast.IsNot)  # a record value is never None
            raise Unsupported('identity of records')
        if isinstance(op, (ast.Eq, ast.NotEq)):
            r = self._eq(ex, a, b)
        elif isinstance(op, (ast.In, ast.NotIn)):
            items = ex.concrete_iter(b)
            if items is None:
                raise Unsupported('membership of a record in a symbolic container')
            rs = [self._eq(ex, a, x) for x in items]
            if any(isinstance(x, Unknown) for x in rs):
                r = Unknown('compare')
            else:
                r = ex.bool_or(rs)
        else:
            raise Unsupported('ordering of records')
        if isinstance(op, (ast.NotEq, ast.NotIn)):
            if isinstance(r, Unknown):
                return r
            return (not r) if isinstance(r, bool) else mk_bool(z3.Not(r.t))
        return r

    def eval_term(self, model, t, kind, rec_eval):
        projs = self.parts(kind)[2]
        return {'__obj__': kind[1], 'fields': {n: rec_eval(model, proj(t), _kind_of_field(ft)) for n, (proj, ft) in projs.items()}}


REC_FROM_NATIVE = {}
values.EXT_KINDS['rval'] = RecKind()


# ---------------------------------------------------------------------------
# 2. length of b''.join(list of byte strings of symbolic length)
# ---------------------------------------------------------------------------
_BSEQ = z3.SeqSort(IntSeq)
# lensum: sum of the lengths of the elements.  Uninterpreted for the solvers; its defining equations
#   lensum([]) == 0,  lensum(xs ++ [y]) == lensum(xs) + len(y),  lensum >= 0
# are added as facts for the terms of these shapes that occur (lensum_facts) -- pure EUF + linear arithmetic
LENSUM = z3.Function('pyvc_lensum', _BSEQ, z3.IntSort())
JOIN = z3.Function('pyvc_bytes_join', IntSeq, _BSEQ, IntSeq)


def _is(t, kind):
    return z3.is_app(t) and t.decl().kind() == kind


def _unit_elem(t):
    """the element e if t is the one-element sequence [e] (a unit, or a conditional between units)"""
    if _is(t, z3.Z3_OP_SEQ_UNIT):
        return t.arg(0)
    if _is(t, z3.Z3_OP_ITE):
        a, b = _unit_elem(t.arg(1)), _unit_elem(t.arg(2))
        if a is not None and b is not None:
            return z3.If(t.arg(0), a, b)
    return None


def _split_last(t):
    """(init, last element) if t has the shape init ++ [y]"""
    e = _unit_elem(t)
    if e is not None:
        return z3.Empty(t.sort()), e
    if _is(t, z3.Z3_OP_SEQ_CONCAT) and t.num_args() >= 2:
        e = _unit_elem(t.arg(t.num_args() - 1))
        if e is not None:
            init = t.arg(0) if t.num_args() == 2 else z3.Concat(*[t.arg(i) for i in range(t.num_args() - 1)])
            return init, e
    return None


def _comp_entry(t):
    """the seqspec record of the comprehension function applied in t = compK(s, ...)"""
    if z3.is_app(t) and t.num_args() >= 1:
        for ent in seqspec._REC_CACHE.values():
            if ent['F'].eq(t.decl()):
                return ent
    return None


def lensum_facts(ex, t, depth=0):
    """definitional facts about lensum(t) for the shapes the engine produces:
    [], xs ++ [y] (list.append), and compK(xs ++ [x]) (a comprehension over an appended list: by the snoc lemma of
    seqspec it is compK(xs) ++ [m(x)], the instance is added where the comprehension is evaluated)"""
    t = z3.simplify(t)
    ex.add_def(LENSUM(t) >= 0)
    if _is(t, z3.Z3_OP_SEQ_EMPTY):
        ex.add_def(LENSUM(t) == 0)
        return
    if _is(t, z3.Z3_OP_ITE) and _unit_elem(t) is None:
        # a conditional between two lists (the simplifier hoists a conditional element out of xs ++ [c ? a : b])
        if depth < 3:
            lensum_facts(ex, t.arg(1), depth + 1)
            lensum_facts(ex, t.arg(2), depth + 1)
        return
    sp = _split_last(t)
    if sp is not None:
        init, y = sp
        ex.add_def(LENSUM(t) == LENSUM(init) + z3.Length(y))
        if depth < 2:
            lensum_facts(ex, init, depth + 1)
        return
    ent = _comp_entry(t)
    if ent is not None and z3.is_true(z3.simplify(ent['c'])):
        sp = _split_last(z3.simplify(t.arg(0)))
        if sp is not None:
            init, x = sp
            actuals = [t.arg(i) for i in range(1, t.num_args())]
            fi = ent['F'](init, *actuals)
            mx = z3.substitute(ent['m'], (ent['ph_e'], x), *zip(ent['phs'], actuals))
            rhs = z3.Concat(fi, z3.Unit(mx))
            # t == rhs is the snoc instance (seqspec); lensum of the right-hand side unfolds by definition
            ex.add_def(LENSUM(rhs) == LENSUM(fi) + z3.Length(mx))
            ex.add_def(LENSUM(fi) >= 0)


def _join_hook(ex, recv, args, kwargs):
    """b''.join(list of byte strings of symbolic length)"""
    from .engine import mk_bytes, zbytes
    from .models_calls import BYTES_METHOD_HOOKS  # noqa: F401

    if len(args) != 1 or kwargs or ex.concrete_iter(args[0]) is not None:
        return NotImplemented
    sep = ex.as_bytes_value(recv)
    seq = ex.as_symseq(args[0])
    if seq is None or seq.k != ('seq', 'bytes') or not isinstance(sep, bytes) or sep != b'':
        return NotImplemented
    ex.abstraction_used = True
    r = JOIN(zbytes(sep), seq.t)
    ex.add_def(z3.Length(r) == LENSUM(seq.t))
    lensum_facts(ex, seq.t)
    return mk_bytes(r)


def install():
    from . import models_calls

    models_calls.BYTES_METHOD_HOOKS['join'] = _join_hook
    seqspec.SNOC_LEMMA = True
    seqspec.COMP_REQUIREMENTS = True


install()


# ---------------------------------------------------------------------------
# 3. named(x): spec form -- the value x under a fresh name (definition c == x).  Natively the identity.  Keeps a
#    compound term (nested conditionals of a scripted environment answer) from being copied into every later term.
# ---------------------------------------------------------------------------
def named(x):
    return x


def _q_named(ex, args, kwargs):
    (v,) = args
    if not isinstance(v, Sym) or ex.quant or z3.is_const(v.t):
        return v
    c = z3.Const(ex.fresh_name('named'), v.t.sort())
    ex.add_def(c == v.t)
    if v.k == 'bytes':
        ex.add_def(z3.Length(c) >= 0)
    return Sym(c, v.k)


seqspec.SPEC_FORMS[named] = _q_named
