"""Replay of a counter-model against the real code under CPython.

The concretised pre-state (solve.model_value) is turned into real objects, the
*real* function is called, and the contract clauses are evaluated natively (the
same Python functions the prover executed symbolically)."""
from __future__ import annotations

import asyncio
import collections
import copy
import importlib
import inspect
import json
import sys
import traceback
import types

from . import contracts as C


class Stub:
    """permissive stand-in for collaborators outside the kernel (sinks, transports,
    delegates): any attribute exists, any call returns another stub"""

    def __getattr__(self, name):
        if name.startswith('__') and name.endswith('__'):
            raise AttributeError(name)
        return Stub()

    def __call__(self, *a, **k):
        return Stub()

    def __repr__(self):
        return 'Stub'


class Recorder:
    def __init__(self):
        self.violations = []


_local_cache = {}


def resolve(name):
    """object named module:Qual.name; definitions nested in functions
    (`<locals>`) are extracted mechanically: the innermost enclosing class/def AST
    is compiled from the repository source in a copy of the module globals"""
    name = name.split('#')[0]
    modname, qn = name.split(':')
    mod = importlib.import_module(modname)
    if '<locals>' not in qn:
        o = mod
        for part in qn.split('.'):
            o = getattr(o, part)
        return o
    import ast

    from . import source

    parts = qn.split('.')
    k = max(i for i, p in enumerate(parts) if p == '<locals>')
    local_qn = '.'.join(parts[: k + 2])
    key = (modname, local_qn)
    if key not in _local_cache:
        node = source.find_def(mod, local_qn)
        ns = dict(mod.__dict__)
        m = ast.Module(body=[node], type_ignores=[])
        exec(compile(m, mod.__file__, 'exec'), ns)
        _local_cache[key] = ns[node.name]
    o = _local_cache[key]
    for part in parts[k + 2 :]:
        o = getattr(o, part)
    return o


_AIO_WAIT, _AIO_RUN, _AIO_ENSURE = asyncio.wait, asyncio.run, asyncio.ensure_future  # the harness keeps the real ones


class Builder:
    def __init__(self, registry, ghost, rec):
        self.reg = registry
        self.ghost = ghost
        self.rec = rec
        self.memo = {}
        self.tokens = {}

    def callback(self, cb, recv=None):
        ghost, rec = self.ghost, self.rec
        eff = cb.effect
        pre = (recv,) if getattr(cb, 'with_self', False) and recv is not None else ()

        def call(*args, **kw):
            if eff is None:
                return None
            try:
                return eff(ghost, *pre, *args, **kw)
            except AssertionError as e:
                tb = traceback.extract_tb(e.__traceback__)[-1]
                rec.violations.append(f'ghost assertion of {cb.name} failed at {tb.name}:{tb.lineno}: {tb.line}')
                return None

        call.__name__ = cb.name
        if getattr(cb, 'is_async', False):

            def acall(*args, **kw):
                # like the symbolic execution: the effect happens at the call, the awaitable is already complete
                r = call(*args, **kw)

                async def done():
                    return r

                return done()

            return acall
        return call

    def build(self, d, t=None):
        if isinstance(d, tuple):
            return tuple(self.build(x) for x in d)
        if isinstance(d, list):
            return [self.build(x) for x in d]
        if not isinstance(d, dict):
            return d
        if id(d) in self.memo:
            return self.memo[id(d)]
        if '__bytearray__' in d:
            r = bytearray(self.build(d['__bytearray__']))
        elif '__list__' in d:
            items = [self.build(x) for x in d['__list__']]
            r = collections.deque(items, maxlen=d.get('maxlen')) if d.get('flavor') == 'deque' else items
        elif '__dict__' in d:
            r = {self.build(k): self.build(v) for k, v in d['__dict__']}
        elif '__map__' in d:
            r = d  # filled by the owning object's model (needs element class)
        elif '__callback__' in d:
            r = Stub()
        elif '__opaque__' in d:
            r = Stub()
        elif '__opq__' in d:
            key = tuple(d['__opq__'])
            r = self.tokens.get(key)
            if r is None:
                r = self.tokens[key] = OpaqueToken(*key)
        elif '__obj__' in d:
            r = self.build_obj(d)
        else:
            r = d
        self.memo[id(d)] = r
        return r

    def build_obj(self, d):
        name = d['__obj__']
        if name is None:
            return types.SimpleNamespace(**{k: self.build(v) for k, v in d['fields'].items()})
        mdl = self.reg.models.get(name)
        cls = resolve(name) if not name.startswith('ghost:') else Stub
        if cls is asyncio.Event:
            ev = asyncio.Event()
            if d['fields'].get('_flag'):
                ev.set()
            return ev
        if mdl is not None and mdl.build is not None:
            fields = {k: self.build(v) for k, v in d['fields'].items()}
            obj = mdl.build(fields, self)
        else:
            try:
                if getattr(cls, '_is_protocol', False) or inspect.isabstract(cls) or not cls.__module__.startswith('bumble'):
                    raise TypeError
                obj = cls.__new__(cls)
            except TypeError:
                obj = Stub()
            self.memo[id(d)] = obj
            for k, v in d['fields'].items():
                ft = mdl.fields.get(k) if mdl is not None else None
                if isinstance(ft, tuple):
                    ft = ft[0]
                if isinstance(ft, C.Opt) and isinstance(v, dict) and '__callback__' in v:
                    ft = ft.t
                if isinstance(ft, C.Callback) and (not isinstance(v, dict) or '__callback__' in v):
                    val = self.callback(ft) if v is not None else None
                elif isinstance(ft, C.Callback):
                    val = self.callback(ft)
                elif isinstance(v, dict) and '__map__' in v and isinstance(ft, C.MapOf):
                    val = self.build_map(v['__map__'], ft)
                else:
                    val = self.build(v)
                try:
                    object.__setattr__(obj, k, val)
                except (AttributeError, TypeError):
                    setattr(obj, k, val)
        if mdl is not None:
            for mname, m in mdl.methods.items():
                if isinstance(m, C.Callback):
                    object.__setattr__(obj, mname, self.callback(m, recv=obj))
        return obj

    def build_map(self, m, ft):
        cls = resolve(ft.elem)
        out = collections.defaultdict(cls) if ft.default_factory else {}
        ktag = getattr(getattr(ft, 'key', None), 'tag', None)
        for k, rec in m.items():
            if ktag is not None:
                # keys declared Opaque(tag): the same token objects that stand for values of that type elsewhere
                tk = (str(ktag), int(k))
                if tk not in self.tokens:
                    self.tokens[tk] = OpaqueToken(*tk)
                k = self.tokens[tk]
            o = cls.__new__(cls)
            for n, v in rec.items():
                if n.endswith('?'):
                    continue  # is-None companion column of an optional field
                if rec.get(n + '?') is True:
                    v = None
                elif isinstance(v, int) and isinstance(getattr(self.reg.models[ft.elem].fields.get(n), 't', self.reg.models[ft.elem].fields.get(n)), C.Opaque):
                    v = f'opaque#{v}'
                if isinstance(v, bool) and isinstance(getattr(self.reg.models[ft.elem].fields.get(n), '__class__', None), type) and _is_event_field(self.reg.models[ft.elem].fields.get(n)):
                    ev = asyncio.Event()
                    if v:
                        ev.set()
                    v = ev
                if isinstance(v, dict) and '__opq__' in v:
                    v = self.build(v)  # an opaque-valued record field: the shared token
                setattr(o, n, v)
            out[k] = o
        return out


class OpaqueToken:
    """native stand-in for a value declared Opaque(tag): only its identity matters"""

    def __init__(self, tag, n):
        self.tag, self.n = tag, n

    def __repr__(self):
        return f'<{self.tag}#{self.n}>'

    def __deepcopy__(self, memo):
        return self

    def __copy__(self):
        return self


def _is_event_field(ft):
    if isinstance(ft, tuple):
        ft = ft[0]
    return isinstance(ft, C.Event)


def call_clause(fn, env):
    # (a parameter with a default value is optional: see VCGen._clause_args)
    params = inspect.signature(fn).parameters
    return fn(*[env[n] if n in env or p.default is inspect.Parameter.empty else p.default for n, p in params.items()])


def flatten(v):
    if isinstance(v, (list, tuple)):
        out = []
        for x in v:
            out.extend(flatten(x))
        return out
    return [bool(v)]


def snapshot(x, depth=0):
    """entry value of x for `old.*`: a deep copy; where some part cannot be deep-copied (recorders, pyee emitters,
    asyncio objects) the copy is made field by field and only that part stays shared with the live object"""
    try:
        memo = {}
        y = copy.deepcopy(x, memo)
        # remember which live object each copy stands for: contracts.same(a, b) compares objects across `old`
        for o in memo.get(id(memo), []):
            c = memo.get(id(o))
            if c is not None and c is not o and hasattr(c, '__dict__'):
                C._ORIGIN[id(c)] = o
                C._KEEP.append(c)
        return y
    except Exception:
        pass
    if depth > 6:
        return x
    try:
        if isinstance(x, dict):
            return type(x)((k, snapshot(v, depth + 1)) for k, v in x.items()) if type(x) is dict else x
        if isinstance(x, (list, tuple)) and type(x) in (list, tuple):
            return type(x)(snapshot(v, depth + 1) for v in x)
        if hasattr(x, '__dict__') and not isinstance(x, type) and not callable(x):
            try:
                y = copy.copy(x)
            except Exception:
                y = object.__new__(type(x))
            C._ORIGIN[id(y)] = x
            C._KEEP.append(y)
            for k, v in list(vars(x).items()):
                try:
                    object.__setattr__(y, k, snapshot(v, depth + 1))
                except Exception:
                    pass
            return y
    except Exception:
        pass
    return x


def run_native(top, registry, state, extra_check=None):
    """state: {'env': {param: desc}, 'ghost': desc}.  Returns dict with
    outcome in {'violated','held','precondition-false','error'}"""
    rec = Recorder()
    C._ORIGIN.clear()
    C._KEEP.clear()
    gdesc = state.get('ghost') or {'__obj__': None, 'fields': {}}
    ghost = types.SimpleNamespace(**{k: v for k, v in gdesc.get('fields', {}).items()})
    b = Builder(registry, ghost, rec)
    for k, v in list(vars(ghost).items()):
        setattr(ghost, k, b.build(v))
    try:
        params = {n: b.build(d) for n, d in state['env'].items() if n in top.params}
    except Exception as e:
        return {'outcome': 'error', 'detail': f'builder: {e!r}'}
    env = dict(params)
    env['ghost'] = ghost
    if getattr(top, 'native_setup', None):
        top.native_setup(env)
        params = {n: env[n] for n in params}
    _teardown = (getattr(top, 'extra', {}) or {}).get('native_teardown')
    try:
        if top.requires is not None and not all(flatten(call_clause(top.requires, env))):
            if _teardown:
                _teardown(env)
            return {'outcome': 'precondition-false'}
    except Exception as e:
        if _teardown:
            _teardown(env)
        return {'outcome': 'error', 'detail': f'requires: {e!r}'}
    # entry by entry: an object that cannot be deep-copied (pyee emitters) must not make `old.ghost` alias the live ghost
    old = types.SimpleNamespace(**{k: snapshot(v) for k, v in env.items()})
    is_lemma = isinstance(top, C.Lemma)
    exc = None
    res = None
    # run-time monitors for the preconditions of the callee contracts this proof relies on
    patches = []
    for u in getattr(top, 'uses', []):
        c2 = registry.contracts.get(u)
        if c2 is None or (c2.requires is None and not c2.extra.get('native_monitor')) or '<locals>' in c2.target:
            continue
        try:
            modname, qn = c2.target.split(':')
            owner_name, _, attr = qn.rpartition('.')
            owner = resolve(modname + ':' + owner_name) if owner_name else importlib.import_module(modname)
            orig = owner.__dict__[attr] if isinstance(owner, type) else getattr(owner, attr)
            if not isinstance(orig, types.FunctionType):
                continue
        except Exception:
            continue

        def mk(orig, c2):
            sig = inspect.signature(orig)
            short = c2.key.split(':')[1]

            # contract kwarg `native_monitor=fn(ghost, args: dict, result, exc)`: ghost bookkeeping of a callee view
            # (counters of the call's outcome) carried out natively after the real callee ran
            mon = c2.extra.get('native_monitor')

            def pre(a, k):
                e = {}
                try:
                    ba = sig.bind(*a, **k)
                    ba.apply_defaults()
                    e = dict(ba.arguments)
                    e['ghost'] = ghost
                    if c2.requires is not None:
                        vals = flatten(call_clause(c2.requires, e))
                        for i, ok in enumerate(vals):
                            if not ok:
                                rec.violations.append(f'callee-pre#{short}#{i}')
                except Exception as ex:  # noqa: BLE001
                    rec.violations.append(f'monitor-error {short}: {ex!r}')
                return e

            def post(e, result, exc_):
                if mon is None:
                    return
                try:
                    mon(ghost, e, result, exc_)
                except Exception as ex:  # noqa: BLE001
                    rec.violations.append(f'monitor-error {short}: {ex!r}')

            if inspect.iscoroutinefunction(orig):

                async def awrapper(*a, **k):
                    e = pre(a, k)
                    try:
                        r = await orig(*a, **k)
                    except Exception as ex:  # noqa: BLE001
                        post(e, None, ex)
                        raise
                    post(e, r, None)
                    return r

                return awrapper

            def wrapper(*a, **k):
                e = pre(a, k)
                try:
                    r = orig(*a, **k)
                except Exception as ex:  # noqa: BLE001
                    post(e, None, ex)
                    raise
                post(e, r, None)
                return r

            return wrapper

        patches.append((owner, attr, orig))
        setattr(owner, attr, mk(orig, c2))
    # contract kwarg stubs={library callable: Callback}: the same replacement the symbolic execution made
    # (the package attribute the code under contract reaches it through, e.g. asyncio.wait_for, is patched)
    for f, cb in ((getattr(top, 'extra', {}) or {}).get('stubs') or {}).items():
        try:
            base = (getattr(f, '__module__', '') or '').split('.')[0]
            fname = getattr(f, '__name__', None)
            stub = b.callback(cb)
            # C accelerators live in _asyncio, the code says asyncio.X; a function of a repo/library submodule
            # (bumble.crypto.f4) is reached through that module's attribute
            for pname in {base, base.lstrip('_'), getattr(f, '__module__', '') or ''}:
                pkg = sys.modules.get(pname)
                if pkg is not None and fname and getattr(pkg, fname, None) is f:
                    patches.append((pkg, fname, f))
                    setattr(pkg, fname, stub)
        except Exception:  # noqa: BLE001
            pass
    import signal

    class ReplayTimeout(Exception):
        pass

    def _alarm(signum, frame):
        raise ReplayTimeout()

    try:
        signal.signal(signal.SIGALRM, _alarm)
        signal.setitimer(signal.ITIMER_REAL, 10.0)
    except (ValueError, OSError):
        pass
    try:
        if is_lemma:
            fn = top.fn
            args = {n: env[n] for n in inspect.signature(fn).parameters if n in env}
            res = fn(**args)
        else:
            fn = resolve(top.target)
            if (getattr(top, 'extra', {}) or {}).get('decorators_ok') and hasattr(fn, '__wrapped__'):
                # the contract ignores the decorator (decorators_ok): replay the undecorated function
                fn = fn.__wrapped__
            if isinstance(fn, property):
                fn = fn.fset  # the contract of a property is the contract of its setter (the last definition, see source.find_def)
            kwargs = dict(params)
            if 'self' in kwargs:
                selfv = kwargs.pop('self')
                res = fn(selfv, **kwargs)
            elif 'cls' in kwargs:
                kwargs.pop('cls')
                res = fn(**kwargs)
            else:
                res = fn(**kwargs)
        if inspect.iscoroutine(res):
            wait_s = getattr(top, 'extra', {}).get('native_run_for')
            if wait_s:
                # a task that never returns by design (pump loops): run it until it blocks
                async def _bounded(coro):
                    t = _AIO_ENSURE(coro)
                    await _AIO_WAIT([t], timeout=wait_s)
                    if not t.done():
                        t.cancel()
                        try:
                            await t
                        except BaseException:  # noqa: BLE001
                            pass
                        return None
                    return t.result()

                res = _AIO_RUN(_bounded(res))
            else:
                res = _AIO_RUN(res)
    except AssertionError as e:
        tb = traceback.extract_tb(e.__traceback__)[-1]
        if is_lemma:
            rec.violations.append(f'lemma assertion failed at {tb.name}:{tb.lineno}: {tb.line}')
        else:
            exc = e
    except Exception as e:  # noqa: BLE001
        exc = e
    except asyncio.CancelledError as e:  # a BaseException: a stub may cancel the function under contract
        exc = e
    finally:
        try:
            signal.setitimer(signal.ITIMER_REAL, 0)
        except (ValueError, OSError):
            pass
        for owner, attr, orig in patches:
            setattr(owner, attr, orig)
        teardown = (getattr(top, 'extra', {}) or {}).get('native_teardown')
        if teardown:
            teardown(env)  # undo what native_setup installed outside the objects of this replay (e.g. a patched class attribute)
    if isinstance(exc, RuntimeError) and 'no running event loop' in str(exc):
        return {'outcome': 'error', 'detail': 'the function needs a running asyncio loop (task-spawning decorator): not runnable by the native harness'}
    if type(exc).__name__ == 'ReplayTimeout':
        return {'outcome': 'error', 'detail': 'native run exceeded 10 s (possible busy loop)'}
    env2 = dict(env)
    env2['old'] = old
    failed = list(rec.violations)
    try:
        if exc is None:
            env2['res'] = res
            if top.ensures is not None:
                vals = flatten(call_clause(top.ensures, env2))
                names = getattr(top, 'ensures_names', None) or []
                for i, ok in enumerate(vals):
                    if not ok:
                        failed.append(f'post#{names[i] if i < len(names) else i}')
            rf = (getattr(top, 'extra', {}) or {}).get('result')
            if rf is not None and not (res == call_clause(rf, env2)):
                failed.append('post#result')
        else:
            env2['exc'] = exc
            matched = None
            for ec, post in getattr(top, 'raises', {}).items():
                if isinstance(exc, ec):
                    matched = (ec, post)
                    break
            if matched is None:
                failed.append(f'exc#{type(exc).__name__}: {exc}')
            elif matched[1] is not None:
                for i, ok in enumerate(flatten(call_clause(matched[1], env2))):
                    if not ok:
                        failed.append(f'raises-{matched[0].__name__}#{i}')
    except Exception as e:  # noqa: BLE001
        return {'outcome': 'error', 'detail': f'clause evaluation: {e!r}', 'exception': repr(exc)}
    if extra_check is not None:
        try:
            failed.extend(extra_check(env2))
        except Exception as e:  # noqa: BLE001
            return {'outcome': 'error', 'detail': f'extra check: {e!r}'}
    return {
        'outcome': 'violated' if failed else 'held',
        'failed': failed,
        'exception': repr(exc) if exc is not None else None,
        'result': repr(res)[:200],
    }


def to_jsonable(x):
    if isinstance(x, bytes):
        return {'__bytes__': x.hex()}
    if isinstance(x, tuple):
        return {'__tuple__': [to_jsonable(y) for y in x]}
    if isinstance(x, list):
        return [to_jsonable(y) for y in x]
    if isinstance(x, dict):
        if '__dict__' in x:
            return {'__dict__': [[to_jsonable(k), to_jsonable(v)] for k, v in x['__dict__']]}
        if '__map__' in x:
            return {'__map__': {str(k): to_jsonable(v) for k, v in x['__map__'].items()}}
        return {str(k): to_jsonable(v) for k, v in x.items()}
    if isinstance(x, (int, float, str, bool)) or x is None:
        return x
    return {'__repr__': repr(x)}


def from_jsonable(x):
    if isinstance(x, list):
        return [from_jsonable(y) for y in x]
    if isinstance(x, dict):
        if '__bytes__' in x:
            return bytes.fromhex(x['__bytes__'])
        if '__tuple__' in x:
            return tuple(from_jsonable(y) for y in x['__tuple__'])
        if '__dict__' in x:
            return {'__dict__': [(from_jsonable(k), from_jsonable(v)) for k, v in x['__dict__']]}
        if '__map__' in x:
            return {'__map__': {int(k): from_jsonable(v) for k, v in x['__map__'].items()}}
        if '__repr__' in x:
            return None
        return {k: from_jsonable(v) for k, v in x.items()}
    return x


def confirms(ob_name, kind, info, rr):
    """does the native run exhibit the failure the refuted obligation predicts?
    Exceptions that only witness the stub environment (AttributeError/TypeError/
    NameError) never count unless the obligation itself is that escaping exception."""
    if rr.get('outcome') != 'violated':
        return False
    failed = rr.get('failed', [])
    tail = ob_name.rsplit('/', 1)[-1]
    if kind == 'exc':
        want = 'exc#' + str(info.get('exception'))
        return any(f.startswith(want) for f in failed)
    if kind == 'post' and (tail.startswith('post#') or tail.startswith('raises-')):
        if any(f == tail for f in failed):
            return True
    if kind == 'callee-pre':
        return any(f == tail for f in failed)
    soft = [f for f in failed if not f.startswith('exc#') and not f.startswith('monitor-error')]
    if kind in ('post',):
        return False
    if soft:
        return True
    hard = [f for f in failed if f.startswith('exc#') and not any(f.startswith('exc#' + c) for c in ('AttributeError', 'TypeError', 'NameError'))]
    return bool(hard) and kind in ('inv-preserved', 'inv-entry', 'variant', 'callee-pre', 'frame', 'assert')


def _leaves(d, path=()):
    """(path, value) of bytes/int leaves of a concretised state"""
    if isinstance(d, bytes):
        yield path, d
    elif isinstance(d, bool):
        return
    elif isinstance(d, int):
        yield path, d
    elif isinstance(d, dict):
        for k, v in d.items():
            if k in ('__obj__', 'flavor', 'maxlen'):
                continue
            yield from _leaves(v, path + (k,))
    elif isinstance(d, (list, tuple)):
        for i, v in enumerate(d):
            yield from _leaves(v, path + (i,))


def _set(d, path, v):
    if not path:
        return v
    k = path[0]
    if isinstance(d, dict):
        n = dict(d)
        n[k] = _set(d[k], path[1:], v)
        return n
    if isinstance(d, list):
        n = list(d)
        n[k] = _set(d[k], path[1:], v)
        return n
    if isinstance(d, tuple):
        n = list(d)
        n[k] = _set(d[k], path[1:], v)
        return tuple(n)
    return d


def search_near(top, registry, state, accept, budget=150):
    """native search seeded by the counter-model: vary the lengths of byte strings
    and nudge integers of the model state; every candidate is run on the real code
    and must satisfy `requires` natively.  Returns (state, result) of the first run
    that `accept`s, else None.  Only ever *adds* real failing inputs."""
    leaves = list(_leaves(state))
    cands = []
    for path, v in leaves:
        if isinstance(v, bytes):
            base = v if v else b'\x00'
            for n in (len(v) + 1, len(v) + 2, 2 * len(v), 2 * len(v) + 1, 3 * len(v), 3 * len(v) + 1, 4 * len(v) + 2, 7, 64, 300, 1100, 66000):
                w = (base * (n // len(base) + 1))[:n]
                cands.append(_set(state, path, w))
        else:
            for w in (v + 1, v - 1, v * 2, v + 2):
                cands.append(_set(state, path, w))
    tried = 0
    for c in cands:
        if tried >= budget:
            break
        tried += 1
        try:
            rr = run_native(top, registry, c)
        except Exception:  # noqa: BLE001
            continue
        if accept(rr):
            rr['from'] = 'search-near-model'
            return c, rr
    return None
