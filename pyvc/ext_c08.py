"""Engine extension for C08 (uses the ExtObj / ExtT extension points of the core).

**Lists of records** -- `RecListOf('module:Class')`: a symbolic-length list whose elements are instances of a small
data class (here `EnhancedRetransmissionProcessor._PendingPdu`).  Representation: *struct of sequences* -- one z3
sequence per field of the class model, all of the same length (`RecList.cols`).

* reading an element (index, iteration) materialises a heap object of the real class holding the field values of that
  position; `append(obj)` stores the object's current field values.
* Python lists hold *references*, this representation holds values.  It is kept sound for field writes as follows: an
  object that has been stored into / read from a record list is *escaped*; a write to field f of an escaped object
  replaces column f of **every** live record list of that class by a fresh sequence of the same length (every element's
  field f becomes unknown, all other columns stay the very same terms).  This over-approximates every possible aliasing
  between the written object and list positions, so no "elements are pairwise distinct" assumption is needed.  Objects
  that never met a record list are ordinary heap objects.
* `for x in lst` / `for x in itertools.islice(lst, n)` over a record list reads position `_i` of the list as it is *at
  that iteration* (a list iterator is live), not of a copy taken at loop entry.
* clauses read whole columns with `col(lst, 'field')` (natively `[x.field for x in lst]`): sequence-level statements
  about one field are independent of writes to another field.

`itertools.islice(seq, stop)`: a lazy prefix view (ValueError for a negative stop, as CPython).
"""
from __future__ import annotations

import ast
import itertools

import z3

from . import contracts as C
from . import models as M
from .engine import ConcIter, PyExc, SliceV, Unsupported, mk_bool, mk_int, zint
from .models_calls import CLASS_MODELS
from .seqspec import SPEC_FORMS
from .values import ExtObj, LObj, Obj, Ref, Sym, sort_of

_INFO: dict = {}


class RecInfo:
    def __init__(self, name):
        from .vcgen import kind_of_T, resolve_class

        mdl = C.REG.models.get(name)
        if mdl is None:
            raise Unsupported(f'no class model {name} for a record list')
        self.name = name
        self.model = mdl
        self.cls = resolve_class(name)
        self.names = list(mdl.fields)
        self.types = {n: mdl.fields[n] for n in self.names}
        self.kinds = {n: kind_of_T(mdl.fields[n]) for n in self.names}


def info(name):
    r = _INFO.get(name)
    if r is None:
        r = _INFO[name] = RecInfo(name)
    return r


class RecListOf(C.ExtT):
    """symbolic-length list of instances of the class model `name` (see module docstring)"""

    def __init__(self, name):
        self.name = name

    def fresh(self, cfg, path, hint):
        return path.alloc(RecList.fresh(path, info(self.name), hint))


class EscFields(dict):
    """field table of an escaped record object: a write makes that field of all list elements unknown"""

    def __init__(self, ex, inf, *a):
        super().__init__(*a)
        self.ex = ex
        self.inf = inf

    def __setitem__(self, k, v):
        super().__setitem__(k, v)
        if k in self.inf.names:
            if isinstance(self.inf.types[k], C.IntRange):
                check_range(self.ex, self.inf, k, M.value_to_elem(self.ex, M.plain(v), self.inf.kinds[k]))
            havoc_column(self.ex, self.inf, k)


def havoc_column(ex, inf, fname):
    """field `fname` of every element of every live record list of this class becomes unknown"""
    for oid, ho in list(ex.heap.items()):
        if isinstance(ho, RecList) and ho.inf is inf:
            old = ho.cols[fname]
            new = ex.fresh_sym(old.k, f'col.{fname}')
            ex.add_def(z3.Length(new.t) == z3.Length(old.t))
            ho.cols = dict(ho.cols)
            ho.cols[fname] = new
            ex.abstraction_used = True


def check_range(ex, inf, fname, term):
    """IntRange fields of a record model are refinement types: assumed when an element is read, proved whenever a
    value is stored into a record list (append) or written to an object that may be in one"""
    rng = inf.types[fname]
    if isinstance(rng, C.IntRange) and not ex.spec_mode:
        ex.oblige(ex.cfg.obl_name(ex, 'range', f'{inf.cls.__name__}.{fname}'), 'range', mk_bool(z3.And(term >= rng.lo, term <= rng.hi)))


def escape(ex, ref, inf):
    ho = ex.wobj(ref)
    if not isinstance(ho.fields, EscFields):
        ho.fields = EscFields(ex, inf, ho.fields)


def _elem_kind(k):
    return 'int' if k == 'bytes' else k[1]


class RecList(ExtObj):
    def __init__(self, inf, cols):
        self.inf = inf
        self.cols = cols  # field name -> Sym of kind ('seq', kind of the field)

    @staticmethod
    def fresh(ex, inf, hint):
        cols = {}
        first = None
        for n in inf.names:
            s = ex.fresh_sym(('seq', inf.kinds[n]), f'{hint}.{n}')
            if first is None:
                first = s
            else:
                ex.add_def(z3.Length(s.t) == z3.Length(first.t))
            cols[n] = s
        return RecList(inf, cols)

    @staticmethod
    def empty(inf):
        return RecList(inf, {n: Sym(z3.Empty(sort_of(('seq', inf.kinds[n]))), ('seq', inf.kinds[n])) for n in inf.names})

    def clone(self):
        return RecList(self.inf, dict(self.cols))

    def len_term(self):
        return z3.Length(self.cols[self.inf.names[0]].t)

    # -- reads -------------------------------------------------------------------------------------------
    def ext_truth(self, ex, ref):
        return mk_bool(self.len_term() > 0)

    def ext_len(self, ex, ref):
        return mk_int(self.len_term())

    def materialise(self, ex, ref, idx):
        fields = {}
        for n in self.inf.names:
            t = M.nth_through(self.cols[n].t, idx)
            rng = self.inf.types[n]
            if isinstance(rng, C.IntRange) and not ex.quant:
                # refinement type of the field: holds of every element (checked at every write into a record list)
                ex.add_def(z3.Implies(z3.And(idx >= 0, idx < self.len_term()), z3.And(t >= rng.lo, t <= rng.hi)))
            fields[n] = M.elem_to_value(ex, t, self.inf.kinds[n])
        if ref.old is not None or ex.spec_mode:
            # a value read in a clause / in the entry snapshot: never written
            return ex.alloc(Obj(self.inf.cls, fields, self.inf.model))
        if not ex.quant:
            # valid facts of the theory of sequences about the position just read (hints for the usual loop
            # invariants "the first i elements have been ..." / "the elements from i on still ..."):
            #   c[:i+1] == c[:i] ++ [c[i]]      c[i:] == [c[i]] ++ c[i+1:]
            n = self.len_term()
            inb = z3.And(idx >= 0, idx < n)
            for c in self.cols.values():
                e = z3.Unit(c.t[idx])
                ex.add_def(z3.Implies(inb, z3.Extract(c.t, z3.IntVal(0), z3.simplify(idx + 1)) == z3.Concat(z3.Extract(c.t, z3.IntVal(0), idx), e)))
                ex.add_def(z3.Implies(inb, z3.Extract(c.t, idx, z3.simplify(n - idx)) == z3.Concat(e, z3.Extract(c.t, z3.simplify(idx + 1), z3.simplify(n - idx - 1)))))
        return ex.alloc(Obj(self.inf.cls, EscFields(ex, self.inf, fields), self.inf.model))

    def ext_subscript(self, ex, ref, i):
        if isinstance(i, SliceV):
            lo, ln = named_bounds(ex, *M.slice_bounds(ex, i, mk_int(self.len_term())))
            return ex.alloc(RecList(self.inf, {n: Sym(z3.Extract(c.t, lo, ln), c.k) for n, c in self.cols.items()}))
        idx = M.norm_index(ex, M.plain(i), mk_int(self.len_term()))
        return self.materialise(ex, ref, idx)

    def ext_for(self, ex, ref, stmt, spec):
        return for_over(ex, stmt, spec, lambda: ex.obj(ref).len_term(), lambda idx: ex.obj(ref).materialise(ex, ref, idx))

    # -- writes ------------------------------------------------------------------------------------------
    def elem_terms(self, ex, v):
        inf = self.inf
        if not (isinstance(v, Ref) and isinstance(ex.obj(v), Obj) and ex.obj(v).cls is inf.cls):
            raise Unsupported(f'cannot store {v!r} in a list of {inf.cls.__name__} records')
        ho = ex.obj(v)
        extra = [n for n in ho.fields if n not in inf.names]
        if extra:
            raise Unsupported(f'record of {inf.cls.__name__} with unmodelled fields {extra}')
        out = {}
        for n in inf.names:
            if n in ho.fields:
                x = ex.wrap(ho.fields[n], v)
            else:
                x = getattr(inf.cls, n, None)  # class-level default
                if x is None:
                    raise Unsupported(f'record field {n} unset')
            out[n] = M.value_to_elem(ex, M.plain(x), inf.kinds[n])
            check_range(ex, inf, n, out[n])
        if v.old is None:
            escape(ex, v, inf)
        return out

    def ext_method(self, ex, ref, name, args, kwargs):
        if name == 'append' and len(args) == 1 and not kwargs:
            terms = self.elem_terms(ex, args[0])
            w = ex.wobj(ref)
            w.cols = {n: Sym(z3.simplify(z3.Concat(c.t, z3.Unit(terms[n]))), c.k) for n, c in w.cols.items()}
            return None
        if name == 'clear' and not args:
            ex.wobj(ref).cols = RecList.empty(self.inf).cols
            return None
        if name == 'copy' and not args:
            return ex.alloc(self.clone())
        if name == 'pop' and len(args) <= 1 and not kwargs:
            # lst.pop([i]): IndexError when the list is empty / the index is out of range (like lst[i]); the element
            # read is materialised as for lst[i] (an escaped object), then that position is removed from every column
            idx = M.norm_index(ex, M.plain(args[0]) if args else -1, mk_int(self.len_term()))
            elem = self.materialise(ex, ref, idx)
            w = ex.wobj(ref)
            n = w.len_term()
            if z3.is_int_value(idx) and idx.as_long() == 0:
                w.cols = {f: Sym(z3.Extract(c.t, z3.IntVal(1), z3.simplify(n - 1)), c.k) for f, c in w.cols.items()}
            else:
                w.cols = {f: Sym(z3.Concat(z3.Extract(c.t, z3.IntVal(0), idx), z3.Extract(c.t, z3.simplify(idx + 1), z3.simplify(n - idx - 1))), c.k) for f, c in w.cols.items()}
            return elem
        raise Unsupported(f'list.{name} on a record list')

    def ext_delitem(self, ex, ref, i):
        if not isinstance(i, SliceV) or i.step is not None:
            raise Unsupported('del lst[i] on a record list')
        w = ex.wobj(ref)
        n = w.len_term()
        lo, ln = named_bounds(ex, *M.slice_bounds(ex, i, mk_int(n)))
        if z3.is_int_value(lo) and lo.as_long() == 0:
            w.cols = {f: Sym(z3.Extract(c.t, ln, n - ln), c.k) for f, c in w.cols.items()}
        else:
            w.cols = {f: Sym(z3.Concat(z3.Extract(c.t, 0, lo), z3.Extract(c.t, lo + ln, n - lo - ln)), c.k) for f, c in w.cols.items()}

    # -- spec level --------------------------------------------------------------------------------------
    def ext_binop(self, ex, ref, op, other, reflected):
        if isinstance(op, ast.Add) and not reflected and isinstance(other, Ref) and isinstance(ex.obj(other), RecList) and ex.obj(other).inf is self.inf:
            o = ex.obj(other)
            return ex.alloc(RecList(self.inf, {n: Sym(z3.simplify(z3.Concat(self.cols[n].t, o.cols[n].t)), self.cols[n].k) for n in self.inf.names}))
        raise Unsupported('operator on a record list')

    def ext_equal(self, ex, ref, other):
        if isinstance(other, Ref) and isinstance(ex.obj(other), RecList) and ex.obj(other).inf is self.inf:
            o = ex.obj(other)
            if not dataclass_eq(self.inf.cls):
                raise Unsupported('== of lists of records compared by identity')
            return mk_bool(z3.And(*[self.cols[n].t == o.cols[n].t for n in self.inf.names]))
        if isinstance(other, Ref) and isinstance(ex.obj(other), LObj) and ex.obj(other).items is not None and not ex.obj(other).items:
            return mk_bool(self.len_term() == 0)
        raise Unsupported('== on a record list')

    # -- havoc / frame / replay ---------------------------------------------------------------------------
    def ext_havoc(self, ex, ref, hint):
        ex.wobj(ref).cols = RecList.fresh(ex, self.inf, hint).cols

    def ext_unchanged(self, ex, other):
        if not isinstance(other, RecList):
            return False
        if all(self.cols[n] is other.cols[n] or self.cols[n].t.eq(other.cols[n].t) for n in self.inf.names):
            return True
        return mk_bool(z3.And(*[self.cols[n].t == other.cols[n].t for n in self.inf.names]))

    def ext_model(self, mv):
        cols = {n: mv(self.cols[n]) for n in self.inf.names}
        ln = min(len(c) for c in cols.values()) if cols else 0
        return {'__list__': [{'__obj__': self.inf.name, 'fields': {n: cols[n][j] for n in self.inf.names}} for j in range(ln)], 'flavor': 'list'}


def named_bounds(ex, lo, ln):
    """slice bounds with Python clamping are nested if-then-else terms: name them (a definition), so that every
    column of the slice is a plain extract(col, lo, ln)"""
    out = []
    for t, hint in ((lo, 'lo'), (ln, 'ln')):
        t = z3.simplify(t)
        if z3.is_int_value(t) or z3.is_const(t) or ex.quant:
            out.append(t)
        else:
            c = z3.Int(ex.fresh_name(f'slice.{hint}'))
            ex.add_def(c == t)
            out.append(c)
    return out


def dataclass_eq(cls):
    import dataclasses

    eqf = getattr(cls, '__eq__', None)
    return dataclasses.is_dataclass(cls) and getattr(getattr(eqf, '__code__', None), 'co_filename', '') == '<string>'


def for_over(ex, stmt, spec, len_term, get):
    """`for target in <record sequence>` by the invariant rule; position `_i`, live length and live elements"""
    if spec is None:
        raise Unsupported(f'for loop over a record list without invariant at {ex.cur_loc}')
    itname = '_i'
    ex.store_name(itname, 0)

    def test():
        return ex.compare_op(ast.Lt(), ex.lookup(itname), mk_int(len_term()))

    def pre_body():
        ex.assign(stmt.target, get(zint(ex.lookup(itname))))

    def stepf():
        ex.store_name(itname, ex.binop(ast.Add(), ex.lookup(itname), 1))

    ex.cut_loop(stmt, spec, test, pre_body, (itname,), stepf)


# ---------------------------------------------------------------------------
# col(lst, 'field'): the list of that field of every element (clauses)
# ---------------------------------------------------------------------------
def col(lst, name):
    return [getattr(x, name) for x in lst]


def q_col(ex, args, kwargs):
    lst, name = args
    if isinstance(lst, Ref) and isinstance(ex.obj(lst), RecList):
        return ex.obj(lst).cols[name]
    items = ex.concrete_iter(lst)
    if items is not None:
        vals = [ex.getattr(x, name) for x in items]
        return ex.alloc(LObj(vals))
    raise Unsupported('col() of something that is not a record list')


SPEC_FORMS[col] = q_col


# ---------------------------------------------------------------------------
# subseq(s, start, length): s[start:start+length] for start, length >= 0 (empty otherwise) -- the sequence theory's
# own extract, without the case analysis of Python's negative / clamped slice bounds (clauses under quantifiers)
# ---------------------------------------------------------------------------
def subseq(s, start, length):
    if start < 0 or length <= 0:
        return s[:0]
    return s[start : start + length]


def q_subseq(ex, args, kwargs):
    from .engine import mk_bytes, zbytes

    s, start, length = args
    st, ln = zint(M.plain(start)), zint(M.plain(length))
    if M.is_byteslike(ex, s):
        return mk_bytes(z3.Extract(zbytes(ex.as_bytes_value(s)), st, ln))
    q = ex.as_symseq(s)
    if q is None:
        raise Unsupported('subseq of something that is not a sequence')
    return Sym(z3.Extract(q.t, st, ln), q.k)


SPEC_FORMS[subseq] = q_subseq


# ---------------------------------------------------------------------------
# itertools.islice(seq, stop)
# ---------------------------------------------------------------------------
class PrefixView(ExtObj):
    """itertools.islice(lst, stop) over a record list: positions 0 .. min(stop, len) - 1 of the list as it is when
    each element is taken"""

    def __init__(self, src, stop):
        self.src = src
        self.stop = stop

    def clone(self):
        return PrefixView(self.src, self.stop)

    def ext_for(self, ex, ref, stmt, spec):
        src = self.src
        k = zint(self.stop)

        def ln():
            n = ex.obj(src).len_term()
            return z3.If(k < n, k, n)

        return for_over(ex, stmt, spec, ln, lambda idx: ex.obj(src).materialise(ex, src, idx))

    def ext_unchanged(self, ex, other):
        return True

    def ext_model(self, mv):
        return None


def m_islice(ex, it, *args):
    if len(args) != 1:
        raise Unsupported('islice with start/step')
    stop = M.plain(args[0])
    if stop is None:
        return it
    if not M.is_intlike(ex, stop):
        raise PyExc(ValueError('Stop argument for islice() must be None or an integer: 0 <= x <= sys.maxsize.'))
    if not ex.branch(ex.truth(M.compare(ex, ast.GtE(), stop, 0))):
        ex.raise_(ValueError, 'Stop argument for islice() must be None or an integer: 0 <= x <= sys.maxsize.')
    items = ex.concrete_iter(it)
    if items is not None and isinstance(stop, int):
        return ConcIter(items[:stop])
    if isinstance(it, Ref) and isinstance(ex.obj(it), RecList):
        return ex.alloc(PrefixView(it, stop))
    s = ex.as_symseq(it)
    if s is not None:
        # immutable elements: a prefix of the current value
        n = z3.Length(s.t)
        k = zint(stop)
        return Sym(z3.simplify(z3.Extract(s.t, 0, z3.If(k < n, k, n))), s.k)
    raise Unsupported('islice over this iterable')


CLASS_MODELS[itertools.islice] = m_islice


# ---------------------------------------------------------------------------
# split_fact(s, a, m): the instance  subseq(s, 0, a) + subseq(s, a, m) == subseq(s, 0, a + m)   (a, m >= 0)
# of the split lemma of the theory of sequences.  Natively the equation is evaluated; symbolically the *generic*
# lemma (for an arbitrary sequence and arbitrary a, m >= 0) is stated once per entry as an obligation of its own
# (`lemma#seq-split`, proved by the solver in isolation) and the instance is added to the path condition as a hint.
# ---------------------------------------------------------------------------
def split_fact(s, a, m):
    return a < 0 or m < 0 or subseq(s, 0, a) + subseq(s, a, m) == subseq(s, 0, a + m)


def q_split_fact(ex, args, kwargs):
    from .engine import Obligation, mk_bytes, zbytes

    s, a, m = args
    at_, mt = zint(M.plain(a)), zint(M.plain(m))
    if M.is_byteslike(ex, s):
        st = zbytes(ex.as_bytes_value(s))
    else:
        q = ex.as_symseq(s)
        if q is None:
            raise Unsupported('split_fact of something that is not a sequence')
        st = q.t
    S = z3.Const('__split_s', st.sort())
    A, Mv = z3.Ints('__split_a __split_m')

    def stmt(x, i, n):
        return z3.Implies(z3.And(i >= 0, n >= 0), z3.Concat(z3.Extract(x, z3.IntVal(0), i), z3.Extract(x, i, n)) == z3.Extract(x, z3.IntVal(0), i + n))

    name = ex.cfg.obl_name(ex, 'lemma', f'seq-split-{st.sort()}'.replace(' ', ''))
    key = ('lemma', name)
    if not any(o.key == key for o in ex.obligations):
        ex.obligations.append(Obligation(name, 'lemma', [], stmt(S, A, Mv), ex.cur_loc, key, {'def_ids': set()}))
    if not ex.quant:
        ex.add_def(stmt(st, at_, mt))
    return True


SPEC_FORMS[split_fact] = q_split_fact
