"""Engine extensions for C03 (reply-exactly-once, skeleton profile).  Imported by contracts/c03_*.py only.

All of them concern the *skeleton* profile (uninterpreted values, `Unknown`), none changes the value profile:

* builtins applied to an uninterpreted iterable (`zip`, `list`, `set`, `sum`, `enumerate`, `tuple`, `sorted`,
  `reversed`, `iter`) yield an uninterpreted value instead of Unsupported;
* `x[k] = v` / `del x[k]` on an uninterpreted container is a write into state that is never read back as anything but
  an uninterpreted value: no-op (exceptions of unmodelled containers are outside the skeleton profile, see GUIDE);
* `getattr(obj, name, default)` on an instance of a modelled *real* class is exact for names that are neither a declared
  field, a modelled method nor an attribute of the class: the default is returned (the generic skeleton rule "missing
  attribute = uninterpreted value" would lose the default branch on which command dispatch depends).
"""
from __future__ import annotations

from . import models as M
from . import models_calls as MC
import struct as _struct

from .engine import PyExc, Unsupported
from .values import Obj, Ref, Sym, Unknown


def _any_unknown(args):
    return any(isinstance(a, Unknown) for a in args)


def _lift(orig, name):
    """pure built-in applied to uninterpreted data, or outside the modelled subset: uninterpreted result"""

    def model(ex, *args, **kw):
        if not ex.skeleton:
            return orig(ex, *args, **kw)
        if _any_unknown(args) or _any_unknown(kw.values()):
            ex.abstraction_used = True
            return Unknown(name)
        try:
            return orig(ex, *args, **kw)
        except Unsupported:
            ex.abstraction_used = True
            return Unknown(name)

    model.__name__ = f'skeleton_{name}'
    return model


_PURE = (zip, list, set, frozenset, sum, enumerate, tuple, sorted, reversed, iter, dict, len, bytes, bytearray, int, str, min, max,
         _struct.pack, _struct.unpack, _struct.unpack_from, int.from_bytes)
for _reg in (MC.NATIVE_MODELS, MC.CLASS_MODELS):
    for _fn in _PURE:
        if _fn in _reg and not getattr(_reg[_fn], '__name__', '').startswith('skeleton_'):
            _reg[_fn] = _lift(_reg[_fn], getattr(_fn, '__name__', 'builtin'))

_orig_call_method = MC.call_method


def call_method(ex, recv, name, args, kwargs, node=None):
    """skeleton profile: a method of a native immutable value (frozenset.issubset, random.Random.randint, ...) that
    is outside the modelled subset or gets uninterpreted arguments returns an uninterpreted value"""
    if ex.skeleton and not isinstance(recv, (Ref, Sym)) and (_any_unknown(args) or _any_unknown(kwargs.values())):
        ex.abstraction_used = True
        return Unknown(f'.{name}()')
    try:
        return _orig_call_method(ex, recv, name, args, kwargs, node)
    except Unsupported:
        if ex.skeleton and not isinstance(recv, (Ref, Sym)):
            ex.abstraction_used = True
            return Unknown(f'.{name}()')
        raise


if MC.call_method.__module__ != __name__:
    MC.call_method = call_method
    M.call_method = call_method  # pyvc.models re-exports the names of models_calls; the engine calls through it


def m_getattr(ex, o, name, *default):
    if default and isinstance(name, str) and isinstance(o, Ref) and isinstance(ex.obj(o), Obj):
        ho = ex.obj(o)
        if ho.cls is not None and name not in ho.fields and not (ho.model is not None and (name in ho.model.methods or name in ho.model.fields)):
            if MC.class_lookup(ho.cls, name)[0] is None and MC.class_lookup(ho.cls, '__getattr__')[0] is None:
                return default[0]
    return _orig_getattr(ex, o, name, *default)


if MC.NATIVE_MODELS[getattr].__name__ != 'm_getattr' or MC.NATIVE_MODELS[getattr].__module__ != __name__:
    _orig_getattr = MC.NATIVE_MODELS[getattr]
    MC.NATIVE_MODELS[getattr] = m_getattr

_orig_store = M.store_subscript
_orig_del = M.del_subscript


def store_subscript(ex, o, i, v):
    if ex.skeleton and isinstance(o, Unknown):
        ex.abstraction_used = True
        return None
    return _orig_store(ex, o, i, v)


def del_subscript(ex, o, i):
    if ex.skeleton and isinstance(o, Unknown):
        ex.abstraction_used = True
        return None
    return _orig_del(ex, o, i)


if M.store_subscript.__module__ != __name__:
    M.store_subscript = store_subscript
    M.del_subscript = del_subscript


# ---------------------------------------------------------------------------
# call_code(fn, *args): a ghost effect hands control back to the code under contract (a recorded
# `future.add_done_callback(cb)` that runs `cb` as the event loop would).  Natively a plain call; symbolically the
# callee is executed as *code* (its asserts raise, and/or short-circuit, exceptions fork), not as ghost code.
# ---------------------------------------------------------------------------
def call_code(fn, *args):
    return fn(*args)


def _m_call_code(ex, fn, *args):
    saved = ex.spec_mode
    ex.spec_mode = 0
    try:
        return ex.call(fn, list(args), {}, None)
    finally:
        ex.spec_mode = saved


MC.NATIVE_MODELS[call_code] = _m_call_code
