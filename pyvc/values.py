"""Value domain of the PyVC symbolic executor.

Concrete Python values are represented by themselves (ints, bools, None, str,
bytes, tuples, and arbitrary *native* objects reached by reflection: modules,
classes, enum members, module-level constant tables).  Symbolic values are
`Sym` (an immutable z3 term tagged with a kind).  Everything mutable lives in
the heap of the current path and is referred to through `Ref`.
"""
from __future__ import annotations

import z3

IntSeq = z3.SeqSort(z3.IntSort())

# ---------------------------------------------------------------------------
# kinds
#   'int' 'bool' 'bytes'            scalar / byte string (Seq Int, elements 0..255)
#   ('seq', k)                      immutable sequence of elements of kind k
#   ('opq', tag)                    opaque object identity (an Int id)
#   ('rec', model name)             reference to a record of the symbolic map (MapOf) of that model (the key)
#   ('tup', (k1,..,kn))             tuple sort (only as element of a seq)
# ---------------------------------------------------------------------------

_tuple_sorts: dict = {}


def sort_of(kind):
    if kind == 'int':
        return z3.IntSort()
    if kind == 'bool':
        return z3.BoolSort()
    if kind == 'bytes':
        return IntSeq
    if isinstance(kind, tuple):
        if kind[0] == 'seq':
            return z3.SeqSort(sort_of(kind[1]))
        if kind[0] in ('opq', 'rec'):
            return z3.IntSort()
        if kind[0] == 'tup':
            if kind not in _tuple_sorts:
                name = 'Tup_' + '_'.join(_kname(k) for k in kind[1])
                sort, mk, projs = z3.TupleSort(name, [sort_of(k) for k in kind[1]])
                _tuple_sorts[kind] = (sort, mk, projs)
            return _tuple_sorts[kind][0]
    raise ValueError(f'no sort for kind {kind!r}')


def tuple_parts(kind):
    sort_of(kind)
    return _tuple_sorts[kind]


def _kname(k):
    if isinstance(k, str):
        return k
    if k[0] == 'seq':
        return 'S' + _kname(k[1])
    if k[0] == 'opq':
        return 'O' + str(k[1])
    if k[0] == 'rec':
        return 'R' + str(k[1]).replace(':', '_').replace('.', '_')
    if k[0] == 'tup':
        return 'T' + ''.join(_kname(x) for x in k[1]) + 'E'
    return str(k)


class Sym:
    """An immutable symbolic value: z3 term + kind."""

    __slots__ = ('t', 'k')

    def __init__(self, t, k):
        self.t = t
        self.k = k

    def __repr__(self):
        s = str(self.t)
        if len(s) > 80:
            s = s[:77] + '...'
        return f'Sym<{_kname(self.k)}>({s})'

    # never let a symbolic value be used as a Python truth value by accident
    def __bool__(self):
        raise TypeError('truth value of a symbolic value used natively (engine bug)')

    def __eq__(self, other):  # identity semantics; use ops.eq for value equality
        return self is other

    def __hash__(self):
        return id(self)


class Ref:
    """Pointer into the heap of the current path.  `old` selects the pre-state
    snapshot (contract `old.x` views)."""

    __slots__ = ('oid', 'old')

    def __init__(self, oid, old=None):
        self.oid = oid
        self.old = old  # None, or the name of a snapshot

    def __repr__(self):
        return f'Ref({self.oid}{"@" + str(self.old) if self.old else ""})'

    def __eq__(self, other):
        return isinstance(other, Ref) and other.oid == self.oid and other.old == self.old

    def __hash__(self):
        return hash((self.oid, self.old))


# ---------------------------------------------------------------------------
# heap objects (mutable; cloned when a snapshot is taken)
# ---------------------------------------------------------------------------


class HObj:
    def clone(self):
        raise NotImplementedError


class Obj(HObj):
    """Instance of a (real) class with named fields."""

    def __init__(self, cls, fields=None, model=None):
        self.cls = cls
        self.fields = fields if fields is not None else {}
        self.model = model  # ClassModel or None

    def clone(self):
        return Obj(self.cls, dict(self.fields), self.model)

    def __repr__(self):
        return f'Obj<{getattr(self.cls, "__name__", self.cls)}>{self.fields}'


class LObj(HObj):
    """list / deque.  Either a concrete spine (python list of values) or a
    symbolic sequence `sym` (Sym of kind ('seq', k)).  For a deque, index 0 is
    the *left* end."""

    def __init__(self, items=None, sym=None, flavor='list', maxlen=None):
        self.items = items
        self.sym = sym
        self.flavor = flavor
        self.maxlen = maxlen  # deque(maxlen=n) or None

    def clone(self):
        return LObj(list(self.items) if self.items is not None else None, self.sym, self.flavor, self.maxlen)

    def __repr__(self):
        return f'LObj<{self.flavor}>({self.items if self.items is not None else self.sym})'


class BAObj(HObj):
    """bytearray: `val` is concrete bytes or Sym bytes."""

    def __init__(self, val):
        self.val = val

    def clone(self):
        return BAObj(self.val)

    def __repr__(self):
        return f'BAObj({self.val!r})'


class DObj(HObj):
    """dict with a concrete spine: python dict from hashable concrete keys to
    values.  `default_factory` is a callable value for defaultdicts."""

    def __init__(self, items=None, default_factory=None):
        self.items = items if items is not None else {}
        self.default_factory = default_factory

    def clone(self):
        return DObj(dict(self.items), self.default_factory)

    def __repr__(self):
        return f'DObj({self.items})'


class MObj(HObj):
    """dict with *symbolic* integer keys whose values are records:
    dom: z3 Array Int->Bool, cols: field name -> (z3 Array Int->sort, kind).
    `elem_cls`/`elem_model` describe the record objects."""

    def __init__(self, dom, cols, elem_cls, elem_model, default_factory=None, event_cols=()):
        self.dom = dom
        self.cols = cols
        self.elem_cls = elem_cls
        self.elem_model = elem_model
        self.default_factory = default_factory
        self.event_cols = tuple(event_cols)

    def clone(self):
        return MObj(self.dom, dict(self.cols), self.elem_cls, self.elem_model, self.default_factory, self.event_cols)


class ElemRef:
    """Reference to the record stored under `key` in the MObj `mref`."""

    __slots__ = ('mref', 'key')

    def __init__(self, mref, key):
        self.mref = mref
        self.key = key

    def __repr__(self):
        return f'ElemRef({self.mref}, {self.key})'


class ExtObj(HObj):
    """Extension point: a heap object kind defined outside the core (pyvc/ext_*.py).  The core only
    dispatches to these methods; anything not overridden is Unsupported (never silently skipped)."""

    def ext_truth(self, ex, ref):
        raise NotImplementedError

    def ext_len(self, ex, ref):
        raise NotImplementedError

    def ext_for(self, ex, ref, stmt, spec):
        """execute the for statement `stmt` over this object (spec: its LoopSpec or None)"""
        raise NotImplementedError

    def ext_method(self, ex, ref, name, args, kwargs):
        raise NotImplementedError

    def ext_subscript(self, ex, ref, i):
        raise NotImplementedError

    def ext_havoc(self, ex, ref, hint):
        """forget the content (loop / await / callee havoc of a location holding this object)"""
        raise NotImplementedError

    def ext_unchanged(self, ex, other):
        """term / bool: `other` (same object in another heap) has the same content (frame check)"""
        raise NotImplementedError


class Frame(HObj):
    def __init__(self, vars=None):
        self.vars = vars if vars is not None else {}

    def clone(self):
        return Frame(dict(self.vars))


# ---------------------------------------------------------------------------
# callables
# ---------------------------------------------------------------------------


class Func:
    """A Python function known by its AST."""

    def __init__(self, node, module, qualname, native=None, closure=None, cls=None, origin='repo'):
        self.node = node  # ast.FunctionDef / AsyncFunctionDef / Lambda
        self.module = module  # python module object (globals)
        self.qualname = qualname
        self.native = native  # real function object (defaults) or None
        self.closure = closure  # list of frame oids (enclosing scopes) or None
        self.cls = cls  # defining class (for super())
        self.origin = origin  # 'repo' | 'spec'
        self.defaults = None  # evaluated defaults for nested defs

    def __repr__(self):
        return f'Func({self.qualname})'


class Bound:
    """Bound method: callable + receiver."""

    def __init__(self, func, recv):
        self.func = func
        self.recv = recv

    def __repr__(self):
        return f'Bound({self.func}, {self.recv})'


class Builtin:
    """A modelled primitive: python callable impl(ex, args, kwargs)."""

    def __init__(self, name, impl):
        self.name = name
        self.impl = impl

    def __repr__(self):
        return f'Builtin({self.name})'


class CallbackVal:
    """Opaque callback with a ghost effect (a Func taking (ghost, *args))."""

    def __init__(self, name, effect=None, returns=None, raises=()):
        self.name = name
        self.effect = effect
        self.returns = returns
        self.raises = tuple(raises)

    def __repr__(self):
        return f'Callback({self.name})'


class OpaqueStr:
    """Result of an f-string / str() on symbolic data: never inspected."""

    def __repr__(self):
        return 'OpaqueStr'


class Unknown:
    """Skeleton profile: a value the engine does not interpret."""

    def __init__(self, why=''):
        self.why = why

    def __repr__(self):
        return f'Unknown({self.why})'


def is_sym(v):
    return isinstance(v, Sym)


def is_concrete_int(v):
    return isinstance(v, int) and not isinstance(v, bool) or isinstance(v, bool)


class LazyVal:
    """a OneOf field whose alternative is chosen on first read"""

    def __init__(self, options, hint, lid):
        self.options = options
        self.hint = hint
        self.lid = lid

    def __repr__(self):
        return f'Lazy({self.hint})'
