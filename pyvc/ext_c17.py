"""Engine extensions introduced for property C17 (hostile input: exceptions are part of the statement).

Imported by contracts/c17_*.py only; everything is registered into the extension points of the core, no core edit.

* `bytes.decode()` / `bytearray.decode()` of *symbolic* data forks a `UnicodeDecodeError` path (CPython raises it for
  every byte string that is not valid in the codec).  The core returned an opaque string without the exceptional path,
  which is fine for well-formed-input properties and unsound for "only the declared exceptions escape on arbitrary bytes".
  The raising path is constrained by the *necessary* condition "some byte is >= 0x80" (pure-ASCII data never fails to decode
  as utf-8/ascii); the normal path is unconstrained for utf-8 (over-approximation on both sides: sound for `exc` and
  `raises` obligations) and constrained to "all bytes < 0x80" for ascii (exact).  latin-1 never raises.
* `data.split(sep)` of symbolic bytes: a list of >= 1 arbitrary byte strings (over-approximation of the pieces).
* contract kwarg `logger_args=('decode', ...)`: the core drops `logger.*(...)` calls together with their argument
  expressions (assumption A5: pure).  Arguments such as `f"<<< {raw.decode()}"` are evaluated eagerly by CPython whatever
  the log level and can raise; with this kwarg every method call `X.<name>()` with a listed name that occurs inside the
  arguments of a dropped logger call is evaluated (for its exceptional paths; the value is discarded).
"""
from __future__ import annotations

import ast

import z3

from . import engine as E
from . import models  # noqa: F401  (load order: models, then models_calls)
from . import models_calls as MC
from .values import OpaqueStr

_UTF8 = ('utf-8', 'utf8', 'utf_8', 'u8')
_ASCII = ('ascii', 'us-ascii')
_NEVER = ('latin-1', 'latin1', 'iso-8859-1', 'l1')


def _decode_symbolic(ex, data, args, kwargs):
    """data: z3 Seq Int term of a byte string whose content is not concrete"""
    enc = args[0] if args else kwargs.get('encoding', 'utf-8')
    errors = args[1] if len(args) > 1 else kwargs.get('errors', 'strict')
    if not isinstance(enc, str) or not isinstance(errors, str):
        raise E.Unsupported('decode with symbolic codec')
    enc = enc.lower()
    if errors != 'strict' or enc in _NEVER:
        return OpaqueStr()
    if enc not in _UTF8 + _ASCII:
        raise E.Unsupported(f'decode({enc!r}) of symbolic data')
    i = z3.Int(ex.fresh_name('decode.bad'))
    has_high = z3.And(i >= 0, i < z3.Length(data), data[i] >= 128)
    k = ex.decide([True, has_high], 'decode outcome')
    if k == 1:
        ex.assume(has_high)
        ex.raise_(UnicodeDecodeError, enc, b'', 0, 1, 'invalid byte')
    if enc in _ASCII:
        j = z3.Int(ex.fresh_name('decode.j'))
        ex.add_def(z3.ForAll([j], z3.Implies(z3.And(j >= 0, j < z3.Length(data)), data[j] < 128)))
    return OpaqueStr()


_orig_bytes_method = MC.bytes_method


def _split_symbolic(ex, recv, args, kwargs):
    """`data.split(sep)` of symbolic data: a list of at least one byte string (CPython: always >= 1 piece); the pieces
    themselves are left arbitrary (over-approximation: every behaviour of the real result is included)"""
    from . import contracts as C

    r = ex.cfg.fresh(ex, C.ListOf(C.Bytes), 'split')
    ex.add_def(z3.Length(ex.obj(r).sym.t) >= 1)
    ex.abstraction_used = True
    return r


def bytes_method(ex, recv, name, args, kwargs):
    if name == 'split' and len(args) == 1 and not kwargs and not isinstance(recv, (bytes, bytearray)):
        return _split_symbolic(ex, recv, args, kwargs)
    if name == 'decode' and not (isinstance(recv, (bytes, bytearray)) and all(ex.is_conc(a) for a in args)):
        return _decode_symbolic(ex, E.zbytes(recv), args, kwargs)
    return _orig_bytes_method(ex, recv, name, args, kwargs)


if MC.bytes_method.__module__ != __name__:
    MC.bytes_method = bytes_method  # bytearray_method falls through to it for `decode`


# ---------------------------------------------------------------------------
# logger_args: evaluate the listed method calls inside the arguments of dropped logger calls
# ---------------------------------------------------------------------------
def _eval_logger_args(path, call):
    names = getattr(getattr(path.cfg, 'top', None), 'extra', {}).get('logger_args')
    if not names:
        return
    for sub in ast.walk(call):
        if sub is call or not isinstance(sub, ast.Call):
            continue
        f = sub.func
        if isinstance(f, ast.Attribute) and f.attr in names and not sub.args and not sub.keywords:
            path.eval(sub)


_orig_st_Expr = E.Path.st_Expr
_orig_ev_Call = E.Path.ev_Call


def st_Expr(self, s):
    if E.is_logger_call(s.value):
        _eval_logger_args(self, s.value)
        return None
    return _orig_st_Expr(self, s)


def ev_Call(self, n):
    if E.is_logger_call(n):
        _eval_logger_args(self, n)
        return None
    return _orig_ev_Call(self, n)


if E.Path.st_Expr.__module__ != __name__:
    E.Path.st_Expr = st_Expr
    E.Path.ev_Call = ev_Call


# ---------------------------------------------------------------------------
# int.from_bytes(data[a:a+k]) where the input may be too short: the slice has a symbolic length in 0..k.  The core model
# needs a fixed length.  The result is left an unconstrained integer of the right range (0 <= r < 256**k, k the proved upper
# bound of the length; signed: the symmetric range) -- an over-approximation without a path split (one split per field
# multiplies into thousands of paths for a PDU with six enum fields).  int.from_bytes raises nothing for byte strings.
# ---------------------------------------------------------------------------
from .values import Obj, Sym  # noqa: E402

_orig_ifb = MC.NATIVE_MODELS[int.from_bytes]


def int_from_bytes(ex, b, *args, **kwargs):
    v = ex.as_bytes_value(b) if models.is_byteslike(ex, b) else b
    if isinstance(v, Sym) and v.k == 'bytes' and not ex.quant and not ex.spec_mode:
        n = z3.Length(v.t)
        if E.conc_int(n) is None and not any(ex.proves(n == i) for i in range(9)):
            for k in (1, 2, 3, 4, 8):
                if ex.proves(n <= k):
                    ex.abstraction_used = True
                    r = ex.fresh_sym('int', 'ifb')
                    lim = 1 << (8 * k)
                    ex.add_def(z3.And(r.t >= (-lim if kwargs.get('signed') else 0), r.t < lim))
                    return r
    return _orig_ifb(ex, b, *args, **kwargs)


if getattr(_orig_ifb, '__module__', '') != __name__:
    MC.NATIVE_MODELS[int.from_bytes] = int_from_bytes


# ---------------------------------------------------------------------------
# `cls.__new__(cls)` written out in repository code (alternative constructors such as UUID.from_bytes): a fresh instance
# of the repository class without running __init__, like instantiate_repo_class does before calling __init__
# ---------------------------------------------------------------------------
def object_new(ex, cls, *args, **kwargs):
    if isinstance(cls, type) and cls.__module__.startswith('bumble') and MC.class_lookup(cls, '__new__')[0] in (object, None):
        return ex.alloc(Obj(cls, {}, ex.cfg.class_model_for(cls)))
    raise E.Unsupported(f'object.__new__({cls!r})')


MC.NATIVE_MODELS[object.__new__] = object_new


# ---------------------------------------------------------------------------
# `[f(i) for i in range(a, b, step)]` with symbolic bounds (ATT "set of handles": one 16-bit read per two payload bytes).
# A finite range terminates by construction; the element expression is evaluated once for an ARBITRARY member i of the
# range: every exception some iteration can raise is an exceptional path of the comprehension (over-approximation: the
# real one is raised by the first such i), the normal result is a list of the right length with unconstrained elements.
# ---------------------------------------------------------------------------
from .values import Frame  # noqa: E402

_orig_comprehension = E.Path.comprehension


def comprehension(self, elt, gens, node):
    if len(gens) == 1 and not gens[0].ifs and isinstance(gens[0].target, ast.Name) and not self.quant and not self.spec_mode:
        saved_pos = (self.pos, len(self.decisions), len(self.pc))
        it = None
        if isinstance(gens[0].iter, ast.Call) and isinstance(gens[0].iter.func, ast.Name) and gens[0].iter.func.id == 'range':
            it = self.eval(gens[0].iter)
        if isinstance(it, E.SymRange) and isinstance(models.plain(it.step), int) and models.plain(it.step) > 0:
            step = models.plain(it.step)
            lo, hi = E.zint(it.start), E.zint(it.stop)
            if not self.branch(E.mk_bool(lo < hi)):
                return []
            i = self.fresh_sym('int', 'comp.i')
            self.assume(E.mk_bool(z3.And(i.t >= lo, i.t < hi, (i.t - lo) % step == 0)))
            frame = self.alloc(Frame())
            saved = self.scope
            self.scope = [frame] + list(self.scope)
            try:
                self.assign(gens[0].target, i)
                v = self.eval(elt)
            finally:
                self.scope = saved
            kind = self.kind_of(v)
            if kind not in ('int', 'bool', 'bytes'):
                raise E.Unsupported(f'comprehension over a symbolic range with elements of kind {kind!r}')
            self.abstraction_used = True
            r = self.fresh_sym(('seq', kind), 'comp')
            self.add_def(z3.Length(r.t) == (hi - lo + (step - 1)) / step)
            return r
        if it is not None and saved_pos != (self.pos, len(self.decisions), len(self.pc)):
            raise E.Unsupported('comprehension over range(): evaluating the range forked the path')
    return _orig_comprehension(self, elt, gens, node)


if E.Path.comprehension.__module__ != __name__:
    E.Path.comprehension = comprehension


# ---------------------------------------------------------------------------
# Fallbacks for integer operators the core does not interpret (symbolic shift amount; | & ^ of two unbounded symbolic
# operands): the result is an UNCONSTRAINED integer (non-negative when both operands are) -- an over-approximation; the
# exception of CPython is kept (`<<`/`>>` by a negative count raises ValueError).  Only reached where the core would have
# given up with Unsupported.
# `'H' * n` with symbolic n (struct format for "as many 16-bit values as fit"): a RepFmt value understood by
# struct.unpack_from below.
# ---------------------------------------------------------------------------
class RepFmt:
    def __init__(self, prefix, unit, count):
        self.prefix, self.unit, self.count = prefix, unit, count

    def __repr__(self):
        return f'RepFmt({self.prefix!r} + {self.unit!r} * {self.count!r})'


_orig_binop = models.binop
_BITOPS = (ast.BitOr, ast.BitAnd, ast.BitXor)


def binop(ex, op, a, b):
    pa, pb = models.plain(a), models.plain(b)
    if isinstance(op, ast.Add) and isinstance(pa, str) and isinstance(pb, RepFmt) and not pb.prefix:
        return RepFmt(pa, pb.unit, pb.count)
    if isinstance(op, ast.Mult) and isinstance(pa, str) and len(pa) == 1 and isinstance(pb, Sym) and pb.k == 'int':
        return RepFmt('', pa, pb)
    try:
        return _orig_binop(ex, op, a, b)
    except E.Unsupported:
        if ex.spec_mode or ex.quant or not (models.is_intlike(ex, pa) and models.is_intlike(ex, pb)):
            raise
        if isinstance(op, (ast.LShift, ast.RShift)):
            if not ex.branch(E.mk_bool(E.zint(pb) >= 0)):
                ex.raise_(ValueError, 'negative shift count')
        elif not isinstance(op, _BITOPS):
            raise
        ex.abstraction_used = True
        r = ex.fresh_sym('int', 'bitop')
        ex.add_def(z3.Implies(z3.And(E.zint(pa) >= 0, E.zint(pb) >= 0), r.t >= 0))
        return r


if models.binop.__module__ != __name__:
    models.binop = binop

import struct as _struct  # noqa: E402

_orig_unpack_from = MC.NATIVE_MODELS[_struct.unpack_from]


def struct_unpack_from(ex, fmt, buf, offset=0):
    f = models.plain(fmt)
    if not isinstance(f, RepFmt):
        return _orig_unpack_from(ex, fmt, buf, offset)
    if f.prefix not in ('<', '>', '!', '=') or f.unit not in 'BHIQ':
        raise E.Unsupported(f'struct format {f!r}')
    size = _struct.calcsize(f.prefix + f.unit)
    n = ex.length(ex.as_bytes_value(buf))
    off = E.zint(models.plain(offset))
    cnt = z3.If(E.zint(f.count) > 0, E.zint(f.count), 0)  # 'H' * negative == ''
    ok = z3.And(off >= 0, E.zint(n) - off >= size * cnt)
    if not ex.branch(E.mk_bool(ok)):
        ex.raise_(_struct.error, 'unpack_from requires a bigger buffer')
    ex.abstraction_used = True  # the values themselves are not interpreted
    r = ex.fresh_sym(('seq', 'int'), 'unpacked')
    ex.add_def(z3.Length(r.t) == cnt)
    return r


if getattr(_orig_unpack_from, '__module__', '') != __name__:
    MC.NATIVE_MODELS[_struct.unpack_from] = struct_unpack_from


# ---------------------------------------------------------------------------
# f-strings: a replacement field that names an UNBOUND local raises NameError / UnboundLocalError in CPython (e.g. a
# variable assigned only inside a `try` whose handler falls through).  The f-string evaluators of the core / ext_c20 treat
# any failure inside a replacement field as "opaque text"; here the names are resolved first so that the exception is kept.
# ---------------------------------------------------------------------------
from . import ext_c20 as _X20  # noqa: E402  (also fixes the patch order: ext_c20's evaluator is the one wrapped here)

_orig_joined = E.Path.ev_JoinedStr


def ev_JoinedStr(self, n):
    for v in n.values:
        if isinstance(v, ast.FormattedValue) and _X20._pure_str_expr(v.value):
            for sub in ast.walk(v.value):
                if isinstance(sub, ast.Name):
                    self.lookup(sub.id)  # PyExc(NameError) when unbound; no effect otherwise
    return _orig_joined(self, n)


if E.Path.ev_JoinedStr.__module__ != __name__:
    E.Path.ev_JoinedStr = ev_JoinedStr


# ---------------------------------------------------------------------------
# reading a local variable that is not bound yet raises UnboundLocalError (a subclass of NameError) in CPython; the core
# raises plain NameError for every unresolved name.  Same path, exact class (so that the native replay agrees).
# ---------------------------------------------------------------------------
_orig_lookup = E.Path.lookup


def lookup(self, name, node=None):
    try:
        return _orig_lookup(self, name, node)
    except E.PyExc as e:
        if type(e.value) is NameError and self.func_stack:
            nat = getattr(self.func_stack[-1], 'native', None)
            code = getattr(nat, '__code__', None)
            if code is not None and name in code.co_varnames + code.co_cellvars:
                raise E.PyExc(UnboundLocalError(f"cannot access local variable '{name}' where it is not associated with a value"))
        raise


if E.Path.lookup.__module__ != __name__:
    E.Path.lookup = lookup


# ---------------------------------------------------------------------------
# fresh_int() in a ghost effect is a havoc ("this stub may or may not raise, independently at every call").  Natively it
# returns 0, so a counter-model that needs another value cannot be replayed: that is an abstraction, not a disagreement
# between the engine and CPython -- mark it, so that such a witness is reported as undecided (exit 2) instead of as a
# checker error (exit 3).
# ---------------------------------------------------------------------------
from . import contracts as _C  # noqa: E402
from . import seqspec as _SS  # noqa: E402

_orig_fresh_int = _SS.SPEC_FORMS[_C.fresh_int]


def q_fresh_int(ex, args, kwargs):
    ex.abstraction_used = True
    return _orig_fresh_int(ex, args, kwargs)


if getattr(_orig_fresh_int, '__module__', '') != __name__:
    _SS.SPEC_FORMS[_C.fresh_int] = q_fresh_int


import os as _os  # noqa: E402

if _os.environ.get('PYVC_DEBUG_WHY'):
    import sys as _sys

    _orig_decide = E.Path.decide

    def _decide(self, conds, why=''):
        new = self.pos >= len(self.prefix)
        i = _orig_decide(self, conds, why)
        if new:
            print(f'[decide] depth={len(self.decisions)} n={len(conds)} why={why!r} at {getattr(self, "cur_loc", "")}', file=_sys.stderr)
        return i

    E.Path.decide = _decide
