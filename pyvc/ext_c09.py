"""Engine extension for C09: a *symbolic heap* -- unbounded pools of objects and of dicts with symbolic int keys.

Why: the L2CAP channel tables are dicts of dicts of channel objects (`channels[handle][cid]`), the same channel
object is stored in two tables, and the property speaks about *all* connections and channels.  The core engine has
dicts with a concrete spine (finitely many entries: a bounded model) and `MapOf` (records stored by value: no
aliasing).  This extension adds the classic heap-as-arrays encoding on top of the engine's MObj/ElemRef:

* `PoolOf('module:Class#view', ...)` (type of a *ghost* field): the set of all objects of these classes.  One z3
  array per modelled field, indexed by an object id; `dom` = the allocated ids.  A reference is `PRef(pool, id)`
  (a subclass of ElemRef): attribute reads/writes are Select/Store, methods are the *real* methods of the class
  (looked up on the class, bound to the reference) or the model's `methods`, identity is equality of ids.
* `PoolOf(dict_of=T)`: the set of all dicts `{int: T}` of one kind.  Columns `dom: id -> (key -> Bool)` and
  `val: id -> (key -> T)`.  A dict has identity (an id) like in Python: `setdefault(h, {})` allocates a new one,
  a popped inner dict stays usable through the variable that holds it.  Supported: `in`, `[k]`, `[k] = v`,
  `del [k]`, `get`, `pop`, `setdefault`, truthiness (non-empty), `values()/keys()/items()` as the iterable of a
  `for` loop with an invariant (iteration order = an arbitrary enumeration without repetition of the key set; the
  local `_keys` names it; mutation of the dict during the loop raises RuntimeError as in CPython).
* `RefT(pool, opt=False)`: type of a field / parameter / dict value that refers to an object of pool `pool`
  (None allowed when opt).  Well-typedness of the heap (every stored reference points to an allocated object) is
  a type invariant like IntRange: assumed when a reference is read, preserved because only references in hand
  can be stored and objects are never deallocated.
* instantiating a pooled class in the code under contract allocates a fresh id (not allocated before) and runs
  the real `__init__` on it.
* spec forms with a native meaning: `forall_items`, `pool_same_except` (record and dict pools), `dict_same`, `is_new`, `allocated`,
  `is_instance_of`, `pool_new`.

Everything is registered by wrapping module-level functions / methods of the core at import time (no core file is
edited; only contracts that import this module are affected).  `range(...)` with more than 32 elements becomes a
symbolic range here, so that a loop over it is cut by its invariant instead of being unrolled.
"""
from __future__ import annotations

import ast
import asyncio
import types

import z3

from . import contracts as C
from . import engine as E
from . import models as M
from . import models_calls as MC
from . import seqspec, solve
from . import values as VAL
from . import vcgen as V
from .engine import PyExc, SymRange, Unsupported, mk_bool, mk_int, zbool, zint
from .values import Bound, Builtin, DObj, ElemRef, Func, HObj, LObj, MObj, Obj, Ref, Sym

I = z3.IntSort()
B = z3.BoolSort()


def _pattern_ok(t):
    seen = set()
    stack = [t]
    while stack:
        x = stack.pop()
        if x.get_id() in seen:
            continue
        seen.add(x.get_id())
        if z3.is_app(x):
            if x.decl().kind() in (z3.Z3_OP_ITE, z3.Z3_OP_AND, z3.Z3_OP_OR, z3.Z3_OP_NOT, z3.Z3_OP_IMPLIES, z3.Z3_OP_EQ):
                return False
            stack.extend(x.children())
    return True


def _forall(vs, body, patterns=()):
    """ForAll with trigger hints where z3 accepts them (a pattern must not contain ite / connectives)"""
    pats = [p for p in patterns if _pattern_ok(p)]
    if pats and len(pats) == len(list(patterns)):
        try:
            return z3.ForAll(vs, body, patterns=pats)
        except z3.Z3Exception:
            pass
    return z3.ForAll(vs, body)


# ---------------------------------------------------------------------------
# contract-language types
# ---------------------------------------------------------------------------
class RefT(C.T):
    """reference to an object of pool `pool` (name of a ghost field of type PoolOf); opt: or None"""

    def __init__(self, pool, opt=False):
        self.pool = pool
        self.opt = opt

    def __repr__(self):
        return f'RefT({self.pool}{", opt" if self.opt else ""})'


class PoolOf(C.T):
    """ghost field: all objects of the given class models (record pool), or all dicts {int: dict_of}"""

    def __init__(self, *models, dict_of=None):
        self.models = list(models)
        self.dict_of = dict_of


# ---------------------------------------------------------------------------
# heap objects / values
# ---------------------------------------------------------------------------
class Pool(MObj):
    """dom = allocated ids; cols: field -> (array id -> value, kind, None)"""

    def __init__(self, dom, cols, name, classes=(), models=(), vkind=None, event_cols=(), ranges=None):
        super().__init__(dom, cols, classes[0] if len(classes) == 1 else None, models[0] if len(models) == 1 else None, None, event_cols)
        self.name = name
        self.classes = tuple(classes)
        self.models = tuple(models)
        self.vkind = vkind  # not None: a pool of dicts
        self.ranges = ranges or {}
        if vkind is not None:
            self.elem_cls = dict

    def clone(self):
        p = Pool(self.dom, dict(self.cols), self.name, self.classes, self.models, self.vkind, self.event_cols, self.ranges)
        return p


class PRef(ElemRef):
    __slots__ = ('opt',)

    def __init__(self, mref, key, opt=False):
        super().__init__(mref, key)
        self.opt = opt

    def __repr__(self):
        return f'PRef({self.mref}, {self.key}{", opt" if self.opt else ""})'


class Moved(HObj):
    """a dict literal that was stored into a dict pool: the pool entry is the object now"""

    def clone(self):
        return self


class DictIter:
    """d.values() / d.keys() / d.items() of a pooled dict, as the iterable of a `for` loop: an enumeration
    key_at(0..n-1) of the key set without repetition (pos is its inverse)"""

    def __init__(self, d, mode, dom0, n, key_at, pos):
        self.d, self.mode, self.dom0, self.n, self.key_at, self.pos = d, mode, dom0, n, key_at, pos


class KeyList:
    """the local `_keys` of a loop over a pooled dict: _keys[j] is the key visited in iteration j, len(_keys) their number"""

    def __init__(self, it):
        self.it = it


# ---------------------------------------------------------------------------
# kinds and sorts
# ---------------------------------------------------------------------------
_orig_sort_of = VAL.sort_of


def sort_of(kind):
    if isinstance(kind, tuple) and kind and kind[0] == 'pref':
        return I
    if isinstance(kind, tuple) and kind and kind[0] == 'arr':
        return z3.ArraySort(I, sort_of(kind[1]))
    if isinstance(kind, tuple) and kind and kind[0] == 'tup':
        if kind not in VAL._tuple_sorts:
            name = 'Tup_' + '_'.join(_kname(k) for k in kind[1])
            sort, mk, projs = z3.TupleSort(name, [sort_of(k) for k in kind[1]])
            VAL._tuple_sorts[kind] = (sort, mk, projs)
        return VAL._tuple_sorts[kind][0]
    if isinstance(kind, tuple) and kind and kind[0] == 'seq':
        return z3.SeqSort(sort_of(kind[1]))
    return _orig_sort_of(kind)


def _kname(k):
    if isinstance(k, tuple) and k and k[0] == 'pref':
        return 'P' + str(k[1])
    return VAL._kname(k)


for _m in (VAL, M, MC, V, E, seqspec):
    if hasattr(_m, 'sort_of'):
        _m.sort_of = sort_of

_orig_kind_of_T = V.kind_of_T


def kind_of_T(t):
    if isinstance(t, RefT):
        return ('pref', t.pool, bool(t.opt))
    if isinstance(t, C.TupleOf):
        return ('tup', tuple(kind_of_T(x) for x in t.ts))
    if isinstance(t, C.ListOf):
        return ('seq', kind_of_T(t.t))
    if isinstance(t, C.Event) or t is C.Event:
        return 'bool'
    return _orig_kind_of_T(t)


V.kind_of_T = kind_of_T


# ---------------------------------------------------------------------------
# pools: creation, lookup, allocation
# ---------------------------------------------------------------------------
def _pool_decl(ex, name):
    tops = [ex.cfg.top] + [ex.cfg.reg.contracts.get(u) for u in getattr(ex.cfg.top, 'uses', [])]
    for t in tops:
        d = getattr(t, 'ghost', {}) if t is not None else {}
        if isinstance(d.get(name), PoolOf):
            return d[name]
    raise Unsupported(f'no pool {name!r} declared in the ghost of this contract')


def pool_ref(ex, name, old=None):
    g = ex.obj(ex.ghost)
    if name not in g.fields:
        ex.wobj(ex.ghost).fields[name] = make_pool(ex, _pool_decl(ex, name), name)
        type_axioms(ex, ex.obj(ex.ghost).fields[name])
    r = ex.obj(ex.ghost).fields[name]
    return Ref(r.oid, old) if old else r


def make_pool(ex, t, name):
    dom = z3.Const(ex.fresh_name(f'{name}.alloc'), z3.ArraySort(I, B))
    if t.dict_of is not None:
        vk = kind_of_T(t.dict_of)
        cols = {
            'dom': (z3.Const(ex.fresh_name(f'{name}.dom'), z3.ArraySort(I, z3.ArraySort(I, B))), ('arr', 'bool'), None),
            'val': (z3.Const(ex.fresh_name(f'{name}.val'), z3.ArraySort(I, z3.ArraySort(I, sort_of(vk)))), ('arr', vk), None),
        }
        rng = {}
        if isinstance(t.dict_of, C.IntRange):
            rng['val'] = (t.dict_of.lo, t.dict_of.hi)
        return ex.alloc(Pool(dom, cols, name, (), (), vk, (), rng))
    models = []
    classes = []
    for mn in t.models:
        mdl = ex.cfg.reg.models.get(mn)
        if mdl is None:
            raise Unsupported(f'no class model {mn}')
        models.append(mdl)
        classes.append(None if mn.startswith('ghost:') else V.resolve_class(mn))
    cols = {}
    evcols = []
    rng = {}
    for mdl in models:
        for fname, ft in mdl.fields.items():
            if isinstance(ft, tuple):
                ft = ft[0]
            if isinstance(ft, C.Event) or ft is C.Event:
                if fname not in evcols:
                    evcols.append(fname)
            k = kind_of_T(ft)
            if fname in cols:
                if cols[fname][1] != k:
                    raise Unsupported(f'pool {name}: field {fname} has different kinds in the class models')
                continue
            cols[fname] = (z3.Const(ex.fresh_name(f'{name}.{fname}'), z3.ArraySort(I, sort_of(k))), k, None)
            if isinstance(ft, C.IntRange):
                rng[fname] = (ft.lo, ft.hi)
    if len(models) > 1:
        cols['__cls__'] = (z3.Const(ex.fresh_name(f'{name}.__cls__'), z3.ArraySort(I, I)), 'int', None)
        rng['__cls__'] = (0, len(models) - 1)
    return ex.alloc(Pool(dom, cols, name, classes, models, None, evcols, rng))


def pool_of(ex, o):
    return ex.obj(o.mref)


def alloc_in(ex, pref_pool, cls_index=None):
    """a fresh object: an id that was not allocated before"""
    pool = ex.wobj(pref_pool)
    i = z3.Int(ex.fresh_name(f'new.{pool.name}'))
    ex.add_def(z3.And(i >= 0, z3.Not(z3.Select(pool.dom, i))))
    pool.dom = z3.Store(pool.dom, i, True)
    if pool.vkind is not None:
        a, k, d = pool.cols['dom']
        pool.cols['dom'] = (z3.Store(a, i, z3.K(I, z3.BoolVal(False))), k, d)
    if '__cls__' in pool.cols:
        a, k, d = pool.cols['__cls__']
        pool.cols['__cls__'] = (z3.Store(a, i, z3.IntVal(cls_index or 0)), k, d)
    return PRef(pref_pool, Sym(i, 'int'), False)


def _ref_ok(ex, kind, term):
    """well-typedness of a stored value of element kind `kind` (None when nothing to say)"""
    if isinstance(kind, tuple) and kind and kind[0] == 'pref':
        tp = ex.obj(pool_ref(ex, kind[1]))
        ok = z3.And(term >= 0, z3.Select(tp.dom, term))
        return z3.Or(term == -1, ok) if kind[2] else ok
    if isinstance(kind, tuple) and kind and kind[0] == 'tup':
        sort, mk, projs = VAL.tuple_parts(kind)
        parts = [_ref_ok(ex, k, p(term)) for p, k in zip(projs, kind[1])]
        parts = [x for x in parts if x is not None]
        return z3.And(*parts) if parts else None
    return None


def _instance(ex, pool, guard, kind, term, rng=None):
    """quantifier-free instance of the typing axioms for a value just read (outside quantifier bodies only: there the
    pool-level axioms apply)"""
    if ex.quant:
        return
    facts = []
    ok = _ref_ok(ex, kind, term)
    if ok is not None:
        facts.append(ok)
    if rng is not None and kind == 'int':
        facts.append(z3.And(term >= rng[0], term <= rng[1]))
    if not facts:
        return
    done = ex.__dict__.setdefault('heap_instances', set())
    key = (term.get_id(), guard.get_id())
    if key in done:
        return
    done.add(key)
    f = z3.Implies(guard, z3.And(*facts))
    ex.keep.append(f)
    ex.keep.append(term)
    ex.keep.append(guard)
    ex.add_def(f)


def type_axioms(ex, pref):
    """the heap state just introduced (pre-state or havoc) is well typed: every stored reference points to an
    allocated object of the declared pool, IntRange fields are in range.  (States derived by stores keep this by
    construction: only references in hand can be stored, objects are never deallocated.)"""
    pool = ex.obj(pref)
    n = ex.fresh_name('ty')
    i = z3.Int(f'__t!{n}')
    k = z3.Int(f'__u!{n}')
    live = z3.And(i >= 0, z3.Select(pool.dom, i))
    ex.add_def(_forall([i], z3.Implies(z3.Select(pool.dom, i), i >= 0), [z3.Select(pool.dom, i)]))
    if pool.vkind is not None:
        dom = z3.Select(z3.Select(pool.cols['dom'][0], i), k)
        v = z3.Select(z3.Select(pool.cols['val'][0], i), k)
        facts = []
        ok = _ref_ok(ex, pool.vkind, v)
        if ok is not None:
            facts.append(ok)
        if 'val' in pool.ranges:
            lo, hi = pool.ranges['val']
            facts.append(z3.And(v >= lo, v <= hi))
        if facts:
            ex.add_def(_forall([i, k], z3.Implies(z3.And(live, dom), z3.And(*facts)), [v]))
        return
    for name, (arr, kind, _d) in pool.cols.items():
        v = z3.Select(arr, i)
        facts = []
        ok = _ref_ok(ex, kind, v)
        if ok is not None:
            facts.append(ok)
        if name in pool.ranges and kind == 'int':
            lo, hi = pool.ranges[name]
            facts.append(z3.And(v >= lo, v <= hi))
        if facts:
            ex.add_def(_forall([i], z3.Implies(live, z3.And(*facts)), [v]))


# ---------------------------------------------------------------------------
# element <-> value
# ---------------------------------------------------------------------------
_orig_e2v = M.elem_to_value
_orig_v2e = M.value_to_elem
_OLD = [None]  # snapshot name of the heap view being read (set by pget / dict reads)


def elem_to_value(ex, term, kind):
    if isinstance(kind, tuple) and kind and kind[0] == 'pref':
        t = z3.simplify(term)
        if kind[2] and z3.is_int_value(t) and t.as_long() < 0:
            return None
        return PRef(pool_ref(ex, kind[1], _OLD[0]), mk_int(t), kind[2])
    if isinstance(kind, tuple) and kind and kind[0] == 'tup':
        sort, mk, projs = VAL.tuple_parts(kind)
        return tuple(elem_to_value(ex, z3.simplify(p(term)), k) for p, k in zip(projs, kind[1]))
    return _orig_e2v(ex, term, kind)


def value_to_elem(ex, v, kind):
    if isinstance(kind, tuple) and kind and kind[0] == 'pref':
        if v is None:
            if not kind[2]:
                raise Unsupported(f'None stored where a reference to pool {kind[1]} is declared (not opt)')
            return z3.IntVal(-1)
        if isinstance(v, Ref) and isinstance(ex.obj(v), DObj) and not ex.obj(v).items:
            # an empty dict literal becomes an object of the dict pool
            tp = pool_ref(ex, kind[1])
            if ex.obj(tp).vkind is None:
                raise Unsupported('dict stored where an object reference is declared')
            nd = alloc_in(ex, tp)
            ex.heap[v.oid] = Moved()
            return zint(nd.key)
        if isinstance(v, Ref) and isinstance(ex.obj(v), LObj) and ex.obj(v).items == []:
            # an empty list / deque literal becomes an object of a pool whose model says so (cls_attrs: adopt_empty_seq)
            tp = pool_ref(ex, kind[1])
            tpool = ex.obj(tp)
            fld = tpool.models[0].cls_attrs.get('adopt_empty_seq') if len(tpool.models) == 1 else None
            if fld:
                nd = alloc_in(ex, tp)
                pset(ex, nd, fld, 0)
                ex.heap[v.oid] = Moved()
                return zint(nd.key)
        if not isinstance(v, PRef):
            raise Unsupported(f'cannot store {v!r} as a reference to pool {kind[1]}')
        if ex.obj(v.mref).name != kind[1]:
            raise Unsupported(f'reference to pool {ex.obj(v.mref).name} stored where pool {kind[1]} is declared')
        if v.opt and not kind[2]:
            if not ex.spec_mode and not ex.proves(zint(v.key) >= 0):
                raise Unsupported('possibly-None reference stored in a non-optional slot')
        return zint(v.key)
    if isinstance(kind, tuple) and kind and kind[0] == 'tup':
        sort, mk, projs = VAL.tuple_parts(kind)
        if not isinstance(v, tuple) or len(v) != len(kind[1]):
            raise Unsupported(f'tuple of shape {kind} expected, got {v!r}')
        return mk(*[value_to_elem(ex, x, k) for x, k in zip(v, kind[1])])
    if kind == 'bool' and isinstance(v, Ref) and isinstance(ex.obj(v), Obj) and ex.obj(v).cls is asyncio.Event:
        return zbool(ex.obj(v).fields['_flag'])
    if kind == 'int':
        v = M.plain(v)
    return _orig_v2e(ex, v, kind)


for _m in (M, MC):
    _m.elem_to_value = elem_to_value
    _m.value_to_elem = value_to_elem


# ---------------------------------------------------------------------------
# record objects: attribute access
# ---------------------------------------------------------------------------
def cls_index(ex, o):
    """index of the class of the object (decided by a case split in code mode)"""
    pool = pool_of(ex, o)
    if len(pool.classes) <= 1:
        return 0
    t = z3.simplify(z3.Select(pool.cols['__cls__'][0], zint(o.key)))
    if z3.is_int_value(t):
        return t.as_long()
    if ex.spec_mode:
        raise Unsupported('class of a pooled object needed in a specification (use is_instance_of)')
    conds = [t == j for j in range(len(pool.classes))]
    if ex.pos >= len(ex.prefix):
        # the class may be fixed by a quantified hypothesis (e.g. "every channel of this connection is an LE channel"),
        # which the inline feasibility check does not use: ask with the whole path condition
        live = []
        for c in conds:
            s_ = z3.Solver()
            s_.set('timeout', 30000)  # the resource limit below ends the attempt (machine independent), not the clock
            s_.set('smt.mbqi', False)  # only `unsat` matters here; model-based instantiation can ignore the time limit
            s_.set('rlimit', 20000000)
            for p in ex.pc:
                s_.add(p)
            s_.add(c)
            live.append(c if s_.check() != z3.unsat else z3.BoolVal(False))
        conds = live
    return ex.decide(conds, 'class of pooled object')


def deref(ex, o, what):
    """a possibly-None reference is used as an object"""
    if not o.opt:
        return o
    if not ex.spec_mode:
        if not ex.branch(mk_bool(zint(o.key) >= 0)):
            ex.raise_(AttributeError, f"'NoneType' object has no attribute {what!r}")
    return PRef(o.mref, o.key, False)


def pget(ex, o, name):
    pool = pool_of(ex, o)
    arr, kind, _d = pool.cols[name]
    idt = zint(o.key)
    if name in pool.event_cols:
        return M.EventView(o, name)
    term = z3.Select(arr, idt)
    _OLD[0] = o.mref.old
    try:
        v = elem_to_value(ex, term, kind)
    finally:
        _OLD[0] = None
    if o.mref.old is None:
        _instance(ex, pool, z3.And(idt >= 0, z3.Select(pool.dom, idt)), kind, term, pool.ranges.get(name))
    return v


def pset(ex, o, name, v):
    pool = ex.wobj(o.mref)
    arr, kind, d = pool.cols[name]
    pool.cols[name] = (z3.Store(arr, zint(o.key), value_to_elem(ex, v, kind)), kind, d)


_orig_getattr = M.getattr_


def getattr_(ex, o, name):
    if isinstance(o, PRef):
        o = deref(ex, o, name)
        pool = pool_of(ex, o)
        if pool.vkind is not None:
            return Bound(name, o)
        if name in pool.cols:
            return pget(ex, o, name)
        j = None
        if len(pool.models) > 1:
            if not any(name in m.methods for m in pool.models) and not any(c is not None and MC.class_lookup(c, name)[0] is not None for c in pool.classes):
                raise Unsupported(f'field {name} of pool {pool.name} is not modelled')
            j = cls_index(ex, o)
        else:
            j = 0
        mdl, cls = pool.models[j], pool.classes[j]
        if name in mdl.methods:
            m_ = mdl.methods[name]
            if isinstance(m_, C.Callback):
                return ex.cfg.fresh(ex, m_, name)
            return Bound(ex.cfg.spec_func(m_), o)
        if name == '__class__':
            return cls
        if cls is not None:
            owner, raw = MC.class_lookup(cls, name)
            if owner is not None:
                if not isinstance(raw, (types.FunctionType, staticmethod, classmethod, property)) and not callable(raw):
                    return ex.import_native(raw)  # class-level constant (EVENT_CLOSE, State, ...)
                return MC.bind_class_attr(ex, o, owner, raw, name, cls)
        raise Unsupported(f'field {name} of pool {pool.name} is not modelled')
    return _orig_getattr(ex, o, name)


_orig_setattr = M.setattr_


def setattr_(ex, o, name, v):
    if isinstance(o, PRef):
        o = deref(ex, o, name)
        pool = pool_of(ex, o)
        if pool.vkind is not None:
            ex.raise_(AttributeError, name)
        if name in pool.cols:
            return pset(ex, o, name, v)
        # a field outside the model: the write is dropped, a later read of it is Unsupported (see getattr_)
        return None
    return _orig_setattr(ex, o, name, v)


_orig_type_of_recv = MC.type_of_recv


def type_of_recv(ex, v):
    if isinstance(v, PRef):
        pool = pool_of(ex, v)
        if pool.vkind is not None:
            return dict
        return pool.classes[cls_index(ex, v)]
    return _orig_type_of_recv(ex, v)


MC.type_of_recv = type_of_recv

_orig_pytype_of = MC.pytype_of


def pytype_of(ex, v):
    if isinstance(v, PRef):
        if v.opt:
            if ex.spec_mode:
                raise Unsupported('isinstance of a possibly-None reference in a specification')
            if not ex.branch(mk_bool(zint(v.key) >= 0)):
                return type(None)
        return type_of_recv(ex, v)
    return _orig_pytype_of(ex, v)


MC.pytype_of = pytype_of


# ---------------------------------------------------------------------------
# identity, equality, truth, ite
# ---------------------------------------------------------------------------
_orig_identical = M.identical


def identical(ex, a, b):
    if isinstance(a, PRef) or isinstance(b, PRef):
        if a is None or b is None:
            p = a if b is None else b
            return mk_bool(zint(p.key) < 0) if p.opt else False
        if isinstance(a, PRef) and isinstance(b, PRef):
            if a.mref.oid != b.mref.oid:
                return False
            return mk_bool(zint(a.key) == zint(b.key))
        return False
    return _orig_identical(ex, a, b)


M.identical = identical

_orig_equal = M.equal


def equal(ex, a, b):
    if isinstance(a, PRef) or isinstance(b, PRef):
        for p in (a, b):
            if isinstance(p, PRef):
                pool = pool_of(ex, p)
                if pool.vkind is not None:
                    if isinstance(a, PRef) and isinstance(b, PRef) and a.mref.oid == b.mref.oid and ex.proves(zint(a.key) == zint(b.key)):
                        return True
                    raise Unsupported('== on pooled dicts (structural)')
                for c in pool.classes:
                    if c is not None and getattr(c, '__eq__', object.__eq__) is not object.__eq__:
                        raise Unsupported(f'__eq__ of pooled class {c.__name__}')
        return identical(ex, a, b)
    return _orig_equal(ex, a, b)


M.equal = equal

_orig_truth = E.Path.truth


def _nonempty(ex, o):
    pool, idt, dom, val = dparts(ex, o)
    return z3.Not(dom == z3.K(I, z3.BoolVal(False)))


def truth(self, v):
    if isinstance(v, PRef):
        pool = pool_of(self, v)
        t = z3.BoolVal(True)
        if pool.vkind is not None:
            t = _nonempty(self, v)
        else:
            for c in pool.classes:
                if c is not None:
                    for nm in ('__bool__', '__len__'):
                        owner, raw = MC.class_lookup(c, nm)
                        if owner is not None and owner is not object:
                            raise Unsupported(f'{nm} of pooled class {c.__name__}')
        if v.opt:
            t = z3.And(zint(v.key) >= 0, t)
        return mk_bool(t)
    return _orig_truth(self, v)


E.Path.truth = truth

_orig_ite = E.Path.ite


def ite(self, c, a, b):
    if (isinstance(a, PRef) or a is None) and (isinstance(b, PRef) or b is None) and not isinstance(c, bool) and not (a is None and b is None):
        p = a if isinstance(a, PRef) else b
        ia = zint(a.key) if a is not None else z3.IntVal(-1)
        ib = zint(b.key) if b is not None else z3.IntVal(-1)
        if isinstance(a, PRef) and isinstance(b, PRef) and a.mref.oid != b.mref.oid:
            raise Unsupported('ite over references to different pools')
        opt = a is None or b is None or a.opt or b.opt
        return PRef(p.mref, mk_int(z3.If(zbool(c), ia, ib)), opt)
    return _orig_ite(self, c, a, b)


E.Path.ite = ite

_orig_length = E.Path.length


def length(self, v):
    if isinstance(v, DictIter):
        return mk_int(v.n)
    if isinstance(v, KeyList):
        return mk_int(v.it.n)
    return _orig_length(self, v)


E.Path.length = length

_orig_as_symseq = E.Path.as_symseq


def as_symseq(self, it):
    if isinstance(it, DictIter):
        return it
    return _orig_as_symseq(self, it)


E.Path.as_symseq = as_symseq

_orig_mark_old = V.mark_old


def mark_old(v, snap):
    if isinstance(v, PRef):
        return PRef(Ref(v.mref.oid, snap), v.key, v.opt) if v.mref.old is None else v
    if isinstance(v, tuple):
        return tuple(mark_old(x, snap) for x in v)
    return _orig_mark_old(v, snap)


V.mark_old = mark_old

_orig_wrap = E.Path.wrap


def wrap(self, v, ref):
    if ref.old is not None and isinstance(v, PRef):
        return mark_old(v, ref.old)
    return _orig_wrap(self, v, ref)


E.Path.wrap = wrap


# ---------------------------------------------------------------------------
# pooled dicts
# ---------------------------------------------------------------------------
def dparts(ex, o):
    pool = pool_of(ex, o)
    if pool.vkind is None:
        raise Unsupported('dict operation on a pooled object that is not a dict')
    idt = zint(o.key)
    return pool, idt, z3.Select(pool.cols['dom'][0], idt), z3.Select(pool.cols['val'][0], idt)


def _key(ex, k):
    k = M.plain(k)
    if not M.is_intlike(ex, k):
        raise Unsupported(f'key {k!r} of a pooled dict is not an int')
    return zint(k)


def d_has(ex, o, k):
    pool, idt, dom, val = dparts(ex, o)
    if k is None or isinstance(k, (str, bytes, tuple)):
        return False  # the keys of a pooled dict are ints
    return mk_bool(z3.Select(dom, _key(ex, k)))


def d_read(ex, o, k):
    """value stored under k (total: unspecified when k is not a key)"""
    pool, idt, dom, val = dparts(ex, o)
    kt = _key(ex, k)
    term = z3.Select(val, kt)
    _OLD[0] = o.mref.old
    try:
        v = elem_to_value(ex, term, pool.vkind)
    finally:
        _OLD[0] = None
    if o.mref.old is None:
        _instance(ex, pool, z3.And(idt >= 0, z3.Select(pool.dom, idt), z3.Select(dom, kt)), pool.vkind, term, pool.ranges.get('val'))
    return v


def d_write(ex, o, k, v, present=True):
    pool = ex.wobj(o.mref)
    idt = zint(o.key)
    kt = _key(ex, k)
    if present:
        e = value_to_elem(ex, v, pool.vkind)  # (may allocate in another pool)
        pool = ex.wobj(o.mref)
        a, kd, d = pool.cols['val']
        pool.cols['val'] = (z3.Store(a, idt, z3.Store(z3.Select(a, idt), kt, e)), kd, d)
    a, kd, d = pool.cols['dom']
    pool.cols['dom'] = (z3.Store(a, idt, z3.Store(z3.Select(a, idt), kt, z3.BoolVal(present))), kd, d)


def d_getitem(ex, o, k):
    if not ex.spec_mode:
        if not ex.branch(d_has(ex, o, k)):
            ex.raise_(KeyError, k)
    return d_read(ex, o, k)


def _lazy_opt(ex, o, k):
    """d.get(k) / d.pop(k, None) of a dict of references: the reference or None, decided when it is used"""
    pool, idt, dom, val = dparts(ex, o)
    if not (isinstance(pool.vkind, tuple) and pool.vkind and pool.vkind[0] == 'pref'):
        return None
    kt = _key(ex, k)
    if o.mref.old is None:
        _instance(ex, pool, z3.And(idt >= 0, z3.Select(pool.dom, idt), z3.Select(dom, kt)), pool.vkind, z3.Select(val, kt))
    t = z3.If(z3.Select(dom, kt), z3.Select(val, kt), z3.IntVal(-1))
    return PRef(pool_ref(ex, pool.vkind[1], o.mref.old), mk_int(t), True)


def d_method(ex, o, name, args, kwargs):
    if name == 'get':
        dflt = args[1] if len(args) > 1 else kwargs.get('default')
        if dflt is None and not isinstance(args[0], (str, bytes, tuple)) and args[0] is not None:
            r = _lazy_opt(ex, o, args[0])
            if r is not None:
                return r
        if ex.branch(d_has(ex, o, args[0])):
            return d_read(ex, o, args[0])
        return dflt
    if name == 'pop':
        if len(args) > 1 and args[1] is None:
            r = _lazy_opt(ex, o, args[0])
            if r is not None:
                d_write(ex, o, args[0], None, present=False)
                return r
        if ex.branch(d_has(ex, o, args[0])):
            v = d_read(ex, o, args[0])
            d_write(ex, o, args[0], None, present=False)
            return v
        if len(args) > 1:
            return args[1]
        ex.raise_(KeyError, args[0])
    if name == 'setdefault':
        if ex.branch(d_has(ex, o, args[0])):
            return d_read(ex, o, args[0])
        d_write(ex, o, args[0], args[1] if len(args) > 1 else None)
        return d_read(ex, o, args[0])
    if name in ('values', 'keys', 'items') and not args:
        return make_iter(ex, o, name)
    if name == '__contains__':
        return d_has(ex, o, args[0])
    if name == 'clear' and not args and not kwargs:
        # dict.clear(): no key is left (the values stay allocated in their pool: other references keep them)
        pool = ex.wobj(o.mref)
        idt = zint(o.key)
        a, kd, d = pool.cols['dom']
        inner_sort = z3.Select(a, idt).sort()
        pool.cols['dom'] = (z3.Store(a, idt, z3.K(inner_sort.domain(), z3.BoolVal(False))), kd, d)
        return None
    raise Unsupported(f'pooled dict method {name}')


def make_iter(ex, o, mode):
    pool, idt, dom, val = dparts(ex, o)
    nm = ex.fresh_name('it')
    n = z3.Int(f'n!{nm}')
    key_at = z3.Function(f'key_at!{nm}', I, I)
    pos = z3.Function(f'pos!{nm}', I, I)
    i = z3.Int(f'__i!{nm}')
    k = z3.Int(f'__k!{nm}')
    ex.add_def(n >= 0)
    # the enumeration lists every key exactly once: pos is the inverse of key_at
    ex.add_def(_forall([i], z3.Implies(z3.And(0 <= i, i < n), z3.And(z3.Select(dom, key_at(i)), pos(key_at(i)) == i)), [key_at(i)]))
    ex.add_def(_forall([k], z3.Implies(z3.Select(dom, k), z3.And(0 <= pos(k), pos(k) < n, key_at(pos(k)) == k)), [z3.Select(dom, k)]))
    it = DictIter(o, mode, dom, n, key_at, pos)
    ex.store_name('_keys', KeyList(it))
    return it


def iter_item(ex, it, i):
    pool, idt, dom, val = dparts(ex, it.d)
    if not ex.spec_mode and not dom.eq(it.dom0):
        if not ex.branch(mk_bool(dom == it.dom0)):
            ex.raise_(RuntimeError, 'dictionary changed size during iteration')
    key = mk_int(it.key_at(zint(i)))
    if it.mode == 'keys':
        return key
    v = d_read(ex, it.d, key)
    return v if it.mode == 'values' else (key, v)


_orig_subscript = M.subscript


def subscript(ex, o, i):
    if isinstance(o, DictIter):
        return iter_item(ex, o, M.plain(i))
    if isinstance(o, KeyList):
        return mk_int(o.it.key_at(zint(M.plain(i))))
    if isinstance(o, PRef):
        o = deref(ex, o, '__getitem__')
        return d_getitem(ex, o, i)
    return _orig_subscript(ex, o, i)


M.subscript = subscript

_orig_store_subscript = M.store_subscript


def store_subscript(ex, o, i, v):
    if isinstance(o, PRef):
        o = deref(ex, o, '__setitem__')
        return d_write(ex, o, i, v)
    return _orig_store_subscript(ex, o, i, v)


M.store_subscript = store_subscript

_orig_del_subscript = M.del_subscript


def del_subscript(ex, o, i):
    if isinstance(o, PRef):
        o = deref(ex, o, '__delitem__')
        if not ex.branch(d_has(ex, o, i)):
            ex.raise_(KeyError, i)
        return d_write(ex, o, i, None, present=False)
    return _orig_del_subscript(ex, o, i)


M.del_subscript = del_subscript

_orig_contains = M.contains


def contains(ex, container, x):
    if isinstance(container, PRef):
        container = deref(ex, container, '__contains__')
        return d_has(ex, container, x)
    return _orig_contains(ex, container, x)


M.contains = contains

_orig_call_method = M.call_method


def call_method(ex, recv, name, args, kwargs, node=None):
    if isinstance(recv, PRef):
        return d_method(ex, recv, name, list(args), kwargs)
    return _orig_call_method(ex, recv, name, args, kwargs, node)


for _m in (M, MC):
    _m.call_method = call_method
    _m.getattr_ = getattr_
    _m.setattr_ = setattr_


# ---------------------------------------------------------------------------
# range(): long ranges are symbolic (cut by an invariant instead of unrolled)
# ---------------------------------------------------------------------------
_orig_range = MC.CLASS_MODELS[range]


def m_range(ex, *args):
    r = _orig_range(ex, *args)
    if isinstance(r, range) and len(r) > 32 and r.step == 1:
        return SymRange(r.start, r.stop, 1)
    return r


MC.CLASS_MODELS[range] = m_range


# ---------------------------------------------------------------------------
# Config: fresh values, havoc, instantiation
# ---------------------------------------------------------------------------
_orig_fresh = V.Config.fresh


def fresh(self, path, t, hint):
    if isinstance(t, PoolOf):
        return pool_ref(path, hint[6:] if hint.startswith('ghost.') else hint)
    if isinstance(t, RefT):
        pr = pool_ref(path, t.pool)
        i = z3.Int(path.fresh_name(hint))
        ok = z3.And(i >= 0, z3.Select(path.obj(pr).dom, i))
        path.add_def(z3.Or(i == -1, ok) if t.opt else ok)
        return PRef(pr, Sym(i, 'int'), bool(t.opt))
    return _orig_fresh(self, path, t, hint)


V.Config.fresh = fresh

_orig_havoc_map = V.Config.havoc_map


def havoc_map(self, path, ref, hint):
    ho = path.heap[ref.oid]
    if isinstance(ho, Pool):
        old_dom = ho.dom
        old_cls = ho.cols['__cls__'][0] if '__cls__' in ho.cols else None
        _orig_havoc_map(self, path, ref, ho.name)
        ho = path.heap[ref.oid]
        i = z3.Int(f'__a!{path.fresh_name("m")}')
        # objects are never deallocated, and an object never changes its class
        path.add_def(_forall([i], z3.Implies(z3.Select(old_dom, i), z3.Select(ho.dom, i)), [z3.Select(old_dom, i)]))
        if old_cls is not None:
            new_cls = ho.cols['__cls__'][0]
            path.add_def(_forall([i], z3.Implies(z3.Select(old_dom, i), z3.Select(new_cls, i) == z3.Select(old_cls, i)), [z3.Select(new_cls, i)]))
        type_axioms(path, ref)
        return
    return _orig_havoc_map(self, path, ref, hint)


V.Config.havoc_map = havoc_map

_orig_havoc_like = V.Config.havoc_like


def havoc_like(self, path, v, hint):
    if isinstance(v, PRef):
        return fresh(self, path, RefT(path.obj(v.mref).name, v.opt), hint)
    if isinstance(v, (DictIter, KeyList)):
        return v
    return _orig_havoc_like(self, path, v, hint)


V.Config.havoc_like = havoc_like

_orig_inst_hook = V.Config.instantiate_hook


def instantiate_hook(self, path, cls, args, kwargs):
    g = path.obj(path.ghost)
    for name, r in g.fields.items():
        if isinstance(r, Ref) and isinstance(path.obj(r), Pool):
            pool = path.obj(r)
            if pool.vkind is None and cls in pool.classes:
                j = pool.classes.index(cls)
                o = alloc_in(path, r, j)
                owner, raw = MC.class_lookup(cls, '__init__')
                import dataclasses as _dc

                if _dc.is_dataclass(cls) and isinstance(raw, types.FunctionType) and raw.__code__.co_filename == '<string>':
                    # generated __init__ (same binding rules as models_calls.instantiate_repo_class)
                    names = [f.name for f in _dc.fields(cls) if f.init]
                    if len(args) > len(names):
                        raise PyExc(TypeError('too many positional arguments'))
                    vals = dict(zip(names, args))
                    for k, v in kwargs.items():
                        if k not in names or k in vals:
                            raise PyExc(TypeError(f'unexpected argument {k}'))
                        vals[k] = v
                    for f in _dc.fields(cls):
                        if f.name in vals:
                            continue
                        if f.default is not _dc.MISSING:
                            vals[f.name] = path.import_native(f.default)
                        elif f.default_factory is not _dc.MISSING:
                            vals[f.name] = path.call(path.import_native(f.default_factory), [], {})
                        elif f.init:
                            raise PyExc(TypeError(f'missing argument {f.name}'))
                    for k, v in vals.items():
                        setattr_(path, o, k, v)
                    pi_owner, pi = MC.class_lookup(cls, '__post_init__')
                    if isinstance(pi, types.FunctionType):
                        f = path.func_of_native(pi)
                        f.cls = pi_owner
                        path.call(f, [o], {})
                    return o
                if isinstance(raw, types.FunctionType):
                    f = path.func_of_native(raw)
                    if isinstance(f, Func):
                        f.cls = owner
                        path.call(f, [o] + list(args), kwargs)
                        return o
                raise Unsupported(f'constructor of pooled class {cls.__name__}')
    return _orig_inst_hook(self, path, cls, args, kwargs)


V.Config.instantiate_hook = instantiate_hook


# ---------------------------------------------------------------------------
# inline feasibility / entailment queries: quantified hypotheses are dropped (a weakening: sound for both)
# ---------------------------------------------------------------------------
_QCACHE = {}


def _has_quant(f):
    key = f.get_id()
    hit = _QCACHE.get(key)
    if hit is not None:
        return hit[0]
    seen = set()
    stack = [f]
    r = False
    while stack:
        t = stack.pop()
        i = t.get_id()
        if i in seen:
            continue
        seen.add(i)
        if z3.is_quantifier(t):
            r = True
            break
        stack.extend(t.children())
    _QCACHE[key] = (r, f)
    return r


def feasible(self, c):
    if c is True:
        return True
    self.explorer.feas_checks += 1
    ca = self._abstract(c) if isinstance(c, z3.ExprRef) else None
    if ca is not None:
        r = self._abs_query(ca)
        if r == z3.unsat:
            return False
        if r == z3.sat and not self.explorer.precise_feasibility:
            return True
    s = z3.Solver()
    s.set('timeout', 1500)
    for p in self.pc:
        if not _has_quant(p):
            s.add(p)
    s.add(c)
    return s.check() != z3.unsat


def proves(self, c):
    c = z3.simplify(c)
    if z3.is_true(c):
        return True
    if z3.is_false(c):
        return False
    self.nproves += 1
    key = (tuple(self.decisions), self.nproves)
    cache = self.explorer.proves_cache
    if key in cache:
        return cache[key]
    self.explorer.feas_checks += 1
    ca = self._abstract(c)
    if ca is not None and self._abs_query(z3.Not(ca)) == z3.unsat:
        r = True
    else:
        s = z3.Solver()
        s.set('timeout', 1000)
        for p in self.pc:
            if not _has_quant(p):
                s.add(p)
        s.add(z3.Not(c))
        r = s.check() == z3.unsat
    cache[key] = r
    return r


E.Path.feasible = feasible
E.Path.proves = proves


# ---------------------------------------------------------------------------
# vacuity covers / cross-check samples (satisfiability queries): z3 cannot build models under the quantified
# heap-typing axioms, so these queries are asked without them (they only say that the heap is well typed)
# ---------------------------------------------------------------------------
_orig_discharge = solve.discharge


def _quick(pcs, goal, timeout_ms, seed):
    import time as _time

    for pcx, budget in pcs:
        t0 = _time.time()
        sq = z3.Solver()
        sq.set('timeout', min(budget, int(timeout_ms)))
        sq.set('random_seed', seed)
        sq.set('smt.mbqi', False)  # a proof attempt: only `unsat` is used
        sq.set('rlimit', 40000000)
        for p in pcx:
            sq.add(p)
        sq.add(z3.Not(goal))
        if sq.check() == z3.unsat:
            return {'status': 'proved', 'backend': 'z3', 'time': _time.time() - t0}
    return None


def discharge(ob, timeout_ms=20000, seed=0, both=False):
    defs = ob.info.get('def_ids', ())
    pc2 = [p for p in ob.pc if not (id(p) in defs and _has_quant(p))]
    # quick attempts first (the generic pipeline prints the whole query as SMT-LIB text for cvc5 before it asks z3,
    # which costs more than the proof itself for these large quantified contexts)
    if not ob.expect_sat and not both and not z3.is_true(z3.simplify(ob.goal)):
        # the time budgets are generous on purpose: the resource limit (deterministic, machine independent) is what ends a
        # hopeless attempt, so that a slower machine gets the same verdicts (a 4 s / 8 s wall-clock cap made a proved
        # obligation come back `refuted` on a loaded copy of the sandbox)
        r = _quick(([(pc2, int(timeout_ms))] if len(pc2) != len(ob.pc) else []) + [(ob.pc, int(timeout_ms))], ob.goal, timeout_ms, seed)
        if r is not None:
            return r
    if len(pc2) == len(ob.pc):
        return _orig_discharge(ob, timeout_ms, seed, both)
    ob2 = E.Obligation(ob.name, ob.kind, pc2, ob.goal, ob.loc, ob.key, ob.info, ob.expect_sat, ob.abstracted)
    note = ' (asked without the quantified heap-typing axioms)'
    if ob.expect_sat and ob.kind == 'xcheck':
        # CPython cross-check sample: its model cannot be rebuilt as real objects (no native builder for pooled heaps
        # yet), so the satisfiability query for the whole path condition is not asked at all
        return {'status': 'unknown', 'backend': '-', 'time': 0.0, 'detail': 'cross-check sample skipped: pooled heap states are not rebuilt natively'}
    if ob.expect_sat:
        for budget in (timeout_ms, 4 * timeout_ms):
            r = _orig_discharge(ob2, budget, seed, both)
            if r.get('status') in ('proved', 'vacuous'):
                r['detail'] = (r.get('detail') or '') + note
                return r
        return _orig_discharge(ob, timeout_ms, seed, both)
    # fewer hypotheses first: a proof without the axioms is a proof; a counter-model without them may be ill typed,
    # so the full query gets its chance to refute it (z3 only: cvc5 answers `unknown` on these array/quantifier queries)
    import time as _time

    t0 = _time.time()
    sq = z3.Solver()
    sq.set('timeout', int(timeout_ms))
    sq.set('random_seed', seed)
    sq.set('rlimit', 60000000)
    for p in pc2:
        sq.add(p)
    sq.add(z3.Not(ob.goal))
    rq = sq.check()
    if rq == z3.unsat:
        return {'status': 'proved', 'backend': 'z3', 'time': _time.time() - t0}
    if rq == z3.sat and not both:
        model = solve.small_model(ob, sq)
        sf = z3.Solver()
        sf.set('timeout', int(timeout_ms))
        sf.set('random_seed', seed)
        sf.set('smt.mbqi', False)  # only `unsat` (the counter-model was ill typed) matters
        sf.set('rlimit', 60000000)
        for p in ob.pc:
            sf.add(p)
        sf.add(z3.Not(ob.goal))
        if sf.check() == z3.unsat:
            return {'status': 'proved', 'backend': 'z3', 'time': _time.time() - t0}
        return {'status': 'refuted', 'backend': 'z3', 'time': _time.time() - t0, 'model': model, 'detail': 'counter-model found' + note + '; the full query is undecided or agrees'}
    r2 = _orig_discharge(ob2, min(timeout_ms, 6000), seed, False)
    if r2.get('status') == 'proved':
        return r2
    r = _orig_discharge(ob, min(timeout_ms, 8000) if r2.get('status') == 'refuted' else timeout_ms, seed, both)
    if r.get('status') == 'unknown' and r2.get('status') == 'refuted':
        r2['detail'] = (r2.get('detail') or '') + ' counter-model found' + note + '; the full query is undecided'
        r2['time'] = r2.get('time', 0) + r.get('time', 0)
        return r2
    return r


solve.discharge = discharge

# consecutive obligations of one path (clause k+1 is stated with clause k as a hypothesis) are first tried as one
# conjunction; if that fails each is discharged on its own (solve._work)
_orig_make_groups = solve.make_groups


def make_groups(obligations, max_group=1):
    return _orig_make_groups(obligations, max(max_group, 8))


solve.make_groups = make_groups


# ---------------------------------------------------------------------------
# counter-model concretisation (best effort: the ids of the objects)
# ---------------------------------------------------------------------------
_orig_model_value = solve.model_value


def model_value(model, v, heap, memo=None):
    if isinstance(v, PRef):
        r = model.eval(zint(v.key), model_completion=True)
        return {'__pref__': [heap[v.mref.oid].name if v.mref.oid in heap else '?', r.as_long() if z3.is_int_value(r) else None]}
    if isinstance(v, Ref) and v.oid in heap and isinstance(heap[v.oid], Pool):
        return {'__pool__': heap[v.oid].name}
    if isinstance(v, (KeyList, DictIter, M.EventView)):
        return {'__opaque__': type(v).__name__}
    return _orig_model_value(model, v, heap, memo)


solve.model_value = model_value


# ---------------------------------------------------------------------------
# spec forms (native meaning: real dicts / objects)
# ---------------------------------------------------------------------------
def forall_items(d, f):
    """f(k, v) holds for every entry of the dict d"""
    return all(f(k, v) for k, v in d.items())


def q_forall_items(ex, args, kwargs):
    d, f = args
    if d is None:
        return True
    if not isinstance(d, PRef):
        raise Unsupported('forall_items over a dict that is not pooled')
    d0 = PRef(d.mref, d.key, False)
    k = ex.fresh_sym('int', 'qk')
    n0 = len(ex.pc)
    ex.quant += 1
    ex.spec_mode += 1
    try:
        has = zbool(d_has(ex, d0, k))
        v = d_read(ex, d0, k)
        body = ex.truth(ex.call(f, [k, v], {}))
    finally:
        ex.quant -= 1
        ex.spec_mode -= 1
    added = ex.pc[n0:]
    del ex.pc[n0:]
    b = zbool(body) if not isinstance(body, bool) else z3.BoolVal(body)
    guard = z3.And(has, *added)
    if d.opt:
        guard = z3.And(zint(d.key) >= 0, guard)
    return mk_bool(z3.ForAll([k.t], z3.Implies(guard, b)))


def forall_elems(lst, f):
    """f(x) holds for every element of the list"""
    return all(f(x) for x in lst)


def q_forall_elems(ex, args, kwargs):
    lst, f = args
    items = ex.concrete_iter(lst)
    if items is not None:
        ex.spec_mode += 1
        try:
            return ex.bool_and([ex.truth(ex.call(f, [x], {})) for x in items])
        finally:
            ex.spec_mode -= 1
    seq = ex.as_symseq(lst)
    if seq is None or seq.k != ('seq', 'int'):
        raise Unsupported('forall_elems: list of ints expected')
    x = ex.fresh_sym('int', 'qe')
    n0 = len(ex.pc)
    ex.quant += 1
    ex.spec_mode += 1
    try:
        body = ex.truth(ex.call(f, [x], {}))
    finally:
        ex.quant -= 1
        ex.spec_mode -= 1
    added = ex.pc[n0:]
    del ex.pc[n0:]
    b = zbool(body) if not isinstance(body, bool) else z3.BoolVal(body)
    return mk_bool(z3.ForAll([x.t], z3.Implies(z3.And(z3.Contains(seq.t, z3.Unit(x.t)), *added), b)))


def _pool_arg(ex, p):
    if isinstance(p, Ref) and isinstance(ex.obj(p), Pool):
        return ex.obj(p)
    raise Unsupported('pool expected')


def pool_same_except(new, old, refs):
    """every modelled field of every object of the pool other than `refs` is unchanged, and no object other than
    `refs` appeared or disappeared (native: pools are {id: object} dicts)"""
    ids = {id(r) for r in refs}
    for i, o in old.items():
        n = new.get(i)
        if n is None:
            return False
        if id(n) in ids:
            continue
        if vars(n) != vars(o):
            return False
    return True


def _except_eq(ex, new_arr, old_arr, keys, ids=False):
    """the arrays agree outside `keys` (ids: the keys are object ids, where a negative one = None names no object)"""
    t = old_arr
    for kt in keys:
        u = z3.Store(t, kt, z3.Select(new_arr, kt))
        if ids and not z3.is_true(z3.simplify(kt >= 0)):
            u = z3.If(kt >= 0, u, t)
        t = u
    return new_arr == t


def q_pool_same_except(ex, args, kwargs):
    new, old, refs = args
    pn, po = _pool_arg(ex, new), _pool_arg(ex, old)
    items = ex.concrete_iter(refs)
    if items is None:
        raise Unsupported('pool_same_except: list of references with a symbolic spine')
    keys = []
    conds = []
    for r in items:
        if r is None:
            continue
        if not isinstance(r, PRef):
            raise Unsupported('pool_same_except: not a reference')
        keys.append(zint(r.key))
    out = []
    for name in po.cols:
        out.append(_except_eq(ex, pn.cols[name][0], po.cols[name][0], keys, ids=True))
    # no object appears or disappears either (a new object must be named in `refs`)
    out.append(_except_eq(ex, pn.dom, po.dom, keys, ids=True))
    return mk_bool(z3.And(*out))


def dict_same(a, b):
    """same keys, and the same object (identity) / value under each key"""
    if a is None or b is None:
        return a is b
    return set(a) == set(b) and all(C.same(a[k], b[k]) or a[k] == b[k] for k in a)


def q_dict_same(ex, args, kwargs):
    a, b = args
    if a is None or b is None:
        return identical(ex, a, b)
    pa, ia, da, va = dparts(ex, PRef(a.mref, a.key))
    pb, ib, db, vb = dparts(ex, PRef(b.mref, b.key))
    k = z3.Int(f'__d!{ex.fresh_name("m")}')
    t = z3.And(da == db, _forall([k], z3.Implies(z3.Select(da, k), z3.Select(va, k) == z3.Select(vb, k)), [z3.Select(va, k)]))
    if a.opt or b.opt:
        na, nb = zint(a.key) < 0, zint(b.key) < 0
        t = z3.If(z3.Or(na, nb), na == nb, t)
    return mk_bool(t)


def dict_same_except(new, old, keys):
    """the two dicts agree (same keys, same values / objects) everywhere except possibly at `keys`"""
    ks = set(keys)
    if {k for k in new if k not in ks} != {k for k in old if k not in ks}:
        return False
    return all(C.same(new[k], old[k]) or new[k] == old[k] for k in new if k not in ks)


def q_dict_same_except(ex, args, kwargs):
    a, b, keys = args
    items = ex.concrete_iter(keys)
    if items is None:
        raise Unsupported('dict_same_except: keys with a symbolic spine')
    pa, ia, da, va = dparts(ex, PRef(a.mref, a.key))
    pb, ib, db, vb = dparts(ex, PRef(b.mref, b.key))
    kts = [_key(ex, k) for k in items]
    k = z3.Int(f'__d!{ex.fresh_name("m")}')
    differ = z3.And(*[k != kt for kt in kts]) if kts else z3.BoolVal(True)
    t = z3.And(_except_eq(ex, da, db, kts), _forall([k], z3.Implies(z3.And(z3.Select(da, k), differ), z3.Select(va, k) == z3.Select(vb, k)), [z3.Select(va, k)]))
    return mk_bool(t)


def is_new(ref, old_pool):
    """ref was allocated after the state `old_pool` was taken"""
    return all(o is not ref for o in old_pool.values())


def q_is_new(ex, args, kwargs):
    ref, old_pool = args
    po = _pool_arg(ex, old_pool)
    return mk_bool(z3.Not(z3.Select(po.dom, zint(ref.key))))


def is_instance_of(ref, cls):
    return isinstance(ref, cls)


def q_is_instance_of(ex, args, kwargs):
    ref, cls = args
    if ref is None:
        return False
    pool = pool_of(ex, ref)
    if cls not in pool.classes:
        hits = [j for j, c in enumerate(pool.classes) if c is not None and issubclass(c, cls)]
    else:
        hits = [pool.classes.index(cls)]
    if len(pool.classes) == 1:
        t = z3.BoolVal(bool(hits))
    else:
        tag = z3.Select(pool.cols['__cls__'][0], zint(ref.key))
        t = z3.Or(*[tag == j for j in hits]) if hits else z3.BoolVal(False)
    if ref.opt:
        t = z3.And(zint(ref.key) >= 0, t)
    return mk_bool(t)


def pool_new(pool, cls, **fields):
    """ghost code: a new object of the pool with the given fields"""
    o = cls.__new__(cls)
    for k, v in fields.items():
        setattr(o, k, v)
    pool[max(pool, default=-1) + 1] = o
    return o


def q_pool_new(ex, args, kwargs):
    pool_r, cls = args
    pool = _pool_arg(ex, pool_r)
    j = pool.classes.index(cls) if cls in pool.classes else 0
    o = alloc_in(ex, Ref(pool_r.oid), j)
    for k, v in kwargs.items():
        pset(ex, o, k, v)
    return o


def now(x):
    """the live object that the entry-state copy x stands for (x itself when it is not a copy)"""
    return C._ORIGIN.get(id(x), x)


def q_now(ex, args, kwargs):
    (x,) = args
    if isinstance(x, PRef):
        return PRef(Ref(x.mref.oid), x.key, x.opt)
    if isinstance(x, Ref):
        return Ref(x.oid)
    return x


def forall_objs(pool, f):
    """f(o) holds for every object of the pool"""
    return all(f(o) for o in pool.values())


def q_forall_objs(ex, args, kwargs):
    pool_r, f = args
    pool = _pool_arg(ex, pool_r)
    i = ex.fresh_sym('int', 'qo')
    o = PRef(pool_r, i, False)
    n0 = len(ex.pc)
    ex.quant += 1
    ex.spec_mode += 1
    try:
        body = ex.truth(ex.call(f, [o], {}))
    finally:
        ex.quant -= 1
        ex.spec_mode -= 1
    added = ex.pc[n0:]
    del ex.pc[n0:]
    b = zbool(body) if not isinstance(body, bool) else z3.BoolVal(body)
    return mk_bool(z3.ForAll([i.t], z3.Implies(z3.And(i.t >= 0, z3.Select(pool.dom, i.t), *added), b)))


def obj_same(new, old, o):
    """the object o has the same modelled fields in the two pool states"""
    for i, x in old.items():
        if x is o or C._ORIGIN.get(id(x)) is o or x is C._ORIGIN.get(id(o)):
            return vars(new[i]) == vars(x) if not isinstance(x, dict) else new[i] == x
    return True


def q_obj_same(ex, args, kwargs):
    new, old, o = args
    pn, po = _pool_arg(ex, new), _pool_arg(ex, old)
    if o is None:
        return True
    idt = zint(o.key)
    return mk_bool(z3.And(*[z3.Select(pn.cols[n][0], idt) == z3.Select(po.cols[n][0], idt) for n in po.cols]))


def allocated(ref, pool):
    return any(o is ref for o in pool.values())


def q_allocated(ex, args, kwargs):
    ref, pool_r = args
    pool = _pool_arg(ex, pool_r)
    if ref is None:
        return False
    t = z3.And(zint(ref.key) >= 0, z3.Select(pool.dom, zint(ref.key)))
    return mk_bool(t)


seqspec.SPEC_FORMS.update({
    forall_items: q_forall_items,
    forall_elems: q_forall_elems,
    forall_objs: q_forall_objs,
    obj_same: q_obj_same,
    now: q_now,
    pool_same_except: q_pool_same_except,
    dict_same: q_dict_same,
    dict_same_except: q_dict_same_except,
    is_new: q_is_new,
    is_instance_of: q_is_instance_of,
    pool_new: q_pool_new,
    allocated: q_allocated,
})
