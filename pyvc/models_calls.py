"""Attribute access, calls, instantiation and the models of library functions."""
from __future__ import annotations

import ast
import asyncio
import collections
import dataclasses
import enum
import functools
import struct as _struct
import types

import z3

from . import models as M
from .engine import (
    ConcIter,
    EngineError,
    PyExc,
    SliceV,
    SuperProxy,
    SymRange,
    Unsupported,
    bytes_lit,
    conc_int,
    mk_bool,
    mk_bytes,
    mk_int,
    zbool,
    zbytes,
    zint,
    zmax,
    zmin,
)
from .values import (
    BAObj,
    Bound,
    Builtin,
    CallbackVal,
    DObj,
    ElemRef,
    ExtObj,
    Func,
    IntSeq,
    LObj,
    MObj,
    Obj,
    OpaqueStr,
    Ref,
    Sym,
    Unknown,
    sort_of,
)

__all__ = [
    'getattr_',
    'setattr_',
    'call_native',
    'call_method',
    'instantiate',
    'isinstance_',
    'obj_truth',
    'obj_len',
    'obj_special',
    'list_extend',
    'NATIVE_MODELS',
    'class_lookup',
]


# ---------------------------------------------------------------------------
# attribute access
# ---------------------------------------------------------------------------


def class_lookup(cls, name, after=None):
    """(defining class, raw attribute) following the MRO, optionally after `after`"""
    mro = cls.__mro__
    if after is not None:
        mro = mro[mro.index(after) + 1 :]
    for k in mro:
        if name in k.__dict__:
            return k, k.__dict__[name]
    return None, None


def bind_class_attr(ex, recv, owner, raw, name, cls_for_classmethod):
    if isinstance(raw, types.FunctionType):
        f = ex.func_of_native(raw)
        if isinstance(f, Func):
            f.cls = owner
            return Bound(f, recv)
        return Bound(NativeMethod(raw), recv)
    if isinstance(raw, staticmethod):
        f = ex.func_of_native(raw.__func__)
        if isinstance(f, Func):
            f.cls = owner
        return f
    if isinstance(raw, classmethod):
        f = ex.func_of_native(raw.__func__)
        if isinstance(f, Func):
            f.cls = owner
        return Bound(f, cls_for_classmethod)
    if isinstance(raw, property):
        if raw.fget is None:
            ex.raise_(AttributeError, name)
        return ex.call(ex.func_of_native(raw.fget), [recv], {})
    if isinstance(raw, functools.cached_property):
        return ex.call(ex.func_of_native(raw.func), [recv], {})
    if isinstance(raw, (types.WrapperDescriptorType, types.MethodDescriptorType, types.BuiltinFunctionType)):
        return Bound(NativeMethod(raw), recv)
    if hasattr(raw, '__get__') and not isinstance(raw, (int, str, bytes, tuple, type, enum.Enum)) and type(raw).__module__ not in ('builtins',):
        # unknown descriptor
        if isinstance(raw, types.MemberDescriptorType):
            ex.raise_(AttributeError, name)
    return ex.import_native(raw)


class NativeMethod:
    """unbound native function/descriptor to be applied to a symbolic receiver"""

    def __init__(self, raw):
        self.raw = raw

    def __repr__(self):
        return f'NativeMethod({self.raw})'


def getattr_(ex, o, name):
    if isinstance(o, Unknown):
        return Unknown(f'.{name}')
    if isinstance(o, SuperProxy):
        owner, raw = class_lookup(type_of_recv(ex, o.selfv), name, after=o.cls)
        if owner is None:
            ex.raise_(AttributeError, name)
        return bind_class_attr(ex, o.selfv, owner, raw, name, type_of_recv(ex, o.selfv))
    if isinstance(o, ElemRef):
        mo = ex.obj(o.mref)
        if name not in mo.cols and mo.elem_cls is not None:
            # not a modelled field: class attribute override of the model, then the real class (methods, properties)
            if mo.elem_model is not None and name in mo.elem_model.cls_attrs:
                return mo.elem_model.cls_attrs[name](ex)
            owner, raw = class_lookup(mo.elem_cls, name)
            if owner is not None:
                return bind_class_attr(ex, o, owner, raw, name, mo.elem_cls)
        return M.elem_get(ex, o, name)
    if isinstance(o, M.EventView):
        ev = o
        if name == 'set':
            return Builtin('set', lambda ex_, a, k: M.elem_set(ex_, ev.er, ev.name, True))
        if name == 'clear':
            return Builtin('clear', lambda ex_, a, k: M.elem_set(ex_, ev.er, ev.name, False))
        if name == 'is_set':
            return Builtin('is_set', lambda ex_, a, k: M.elem_get(ex_, ev.er, ev.name, raw=True))
        if name == 'wait':
            return Builtin('wait', lambda ex_, a, k: None)
        raise Unsupported(f'asyncio.Event.{name}')
    if type(o).__name__ == 'OldView':
        if name == 'ghost':
            v = o.env.get('ghost')
        elif name in o.env:
            v = o.env[name]
        else:
            raise Unsupported(f'old.{name}: no such parameter')
        from .vcgen import mark_old

        return mark_old(v, o.snap)
    if isinstance(o, Ref):
        ho = ex.obj(o)
        if isinstance(ho, Obj):
            if name in ho.fields:
                v_ = ho.fields[name]
                if type(v_).__name__ == 'LazyVal':
                    v_ = ex.force(v_)
                return ex.wrap(v_, o)
            if ho.model is not None and name in ho.model.methods:
                m_ = ho.model.methods[name]
                from . import contracts as _C

                if isinstance(m_, _C.Callback):
                    cbv = ex.cfg.fresh(ex, m_, name)
                    return Bound(cbv, o) if getattr(m_, 'with_self', False) else cbv
                return Bound(m_, o)
            if name == '__class__':
                return ho.cls
            if name == '__dict__' and ho.cls is not None and o.old is None:
                # the instance dictionary: a dict *view* sharing the field table (reads and writes alias)
                return ex.alloc(DObj(ho.fields))
            if ho.cls in LIB_METHODS:
                cls_ = ho.cls
                return Builtin(name, lambda ex_, a, k, _o=o, _n=name: LIB_METHODS[cls_](ex_, _o, _n, a))
            if ho.cls is not None:
                owner, raw = class_lookup(ho.cls, name)
                if owner is not None:
                    return bind_class_attr(ex, o, owner, raw, name, ho.cls)
                ga = class_lookup(ho.cls, '__getattr__')[1]
                if isinstance(ga, types.FunctionType):
                    return ex.call(ex.func_of_native(ga), [o, name], {})
            if ex.skeleton:
                ex.abstraction_used = True
                return Unknown(f'.{name}')
            if ho.model is not None and name in ho.model.fields:
                raise Unsupported(f'field {name} of {ho.cls.__name__ if ho.cls else "?"} read before initialisation')
            ex.raise_(AttributeError, name)
        if name == 'maxlen' and isinstance(ho, LObj) and ho.flavor == 'deque':
            return ho.maxlen
        return Bound(name, o)
    if isinstance(o, Sym):
        return Bound(name, o)
    if isinstance(o, (bytes, bytearray, tuple, str, int, frozenset, range, float)) and not isinstance(o, enum.Enum):
        return getattr(o, name)
    if isinstance(o, OpaqueStr):
        return Bound(name, o)
    if isinstance(o, (ConcIter, SliceV, SymRange)):
        raise Unsupported(f'attribute {name} of {o!r}')
    if isinstance(o, Func):
        if name in ('__name__',):
            return o.qualname.split('.')[-1]
        raise Unsupported(f'attribute {name} of function')
    # native object (module, class, enum member, reflected constant)
    try:
        if isinstance(o, type):
            owner, raw = class_lookup(o, name)
            if owner is not None and isinstance(raw, (types.FunctionType, staticmethod, classmethod)):
                if isinstance(raw, types.FunctionType):
                    f = ex.func_of_native(raw)
                    if isinstance(f, Func):
                        f.cls = owner
                    return f
                return bind_class_attr(ex, o, owner, raw, name, o)
        v = getattr(o, name)
    except AttributeError:
        ex.raise_(AttributeError, name)
    if isinstance(v, types.MethodType) and isinstance(v.__func__, types.FunctionType):
        f = ex.func_of_native(v.__func__)
        if isinstance(f, Func):
            owner, _ = class_lookup(type(v.__self__) if not isinstance(v.__self__, type) else v.__self__, name)
            f.cls = owner
            return Bound(f, v.__self__)
    return ex.import_native(v)


def type_of_recv(ex, v):
    if isinstance(v, Ref):
        ho = ex.obj(v)
        if isinstance(ho, Obj):
            return ho.cls
    if isinstance(v, type):
        return v
    return type(v)


def setattr_(ex, o, name, v):
    if isinstance(o, Unknown):
        ex.abstraction_used = True
        return
    if isinstance(o, ElemRef):
        return M.elem_set(ex, o, name, v)
    if isinstance(o, Ref):
        ho = ex.wobj(o)
        if isinstance(ho, Obj):
            if ho.cls is not None:
                owner, raw = class_lookup(ho.cls, name)
                if isinstance(raw, property):
                    if raw.fset is None:
                        ex.raise_(AttributeError, name)
                    ex.call(ex.func_of_native(raw.fset), [o, v], {})
                    return
                sa = class_lookup(ho.cls, '__setattr__')[1]
                if isinstance(sa, types.FunctionType):
                    raise Unsupported(f'{ho.cls.__name__}.__setattr__')
            ho.fields[name] = v
            ex.cfg.on_field_write(ex, o, name)
            return
    raise Unsupported(f'setattr on {o!r}')


# ---------------------------------------------------------------------------
# isinstance / truth / len of instances
# ---------------------------------------------------------------------------


def pytype_of(ex, v):
    if isinstance(v, Sym):
        if v.k == 'int':
            return int
        if v.k == 'bool':
            return bool
        if v.k == 'bytes':
            return bytes
        if isinstance(v.k, tuple) and v.k[0] == 'seq':
            return list
        return None
    if isinstance(v, Ref):
        ho = ex.obj(v)
        if isinstance(ho, BAObj):
            return bytearray
        if isinstance(ho, LObj):
            return collections.deque if ho.flavor == 'deque' else list
        if isinstance(ho, (DObj, MObj)):
            return collections.defaultdict if ho.default_factory else dict
        if isinstance(ho, Obj):
            return ho.cls
        return None
    if isinstance(v, OpaqueStr):
        return str
    if isinstance(v, (Func, Bound, Builtin, CallbackVal)):
        return types.FunctionType
    if isinstance(v, ElemRef):
        return ex.obj(v.mref).elem_cls
    if isinstance(v, Unknown):
        return None
    return type(v)


def isinstance_(ex, v, cls):
    if isinstance(cls, Ref):
        items = ex.concrete_iter(cls)
        cls = tuple(items)
    t = pytype_of(ex, v)
    if t is None:
        if ex.skeleton:
            return Unknown('isinstance')
        raise Unsupported(f'isinstance of {v!r}')
    try:
        r = issubclass(t, cls)
    except TypeError as e:
        raise PyExc(e)
    if not r and isinstance(v, Sym) and v.k == 'int':
        # enum-as-int: a symbolic int may stand for a member of an int-enum class
        cs = cls if isinstance(cls, tuple) else (cls,)
        if any(isinstance(c, type) and issubclass(c, enum.Enum) and issubclass(c, int) for c in cs):
            raise Unsupported('isinstance(<symbolic int>, <IntEnum>)')
    return r


def obj_truth(ex, ref, ho):
    if ho.cls is None:
        return True
    for name in ('__bool__', '__len__'):
        owner, raw = class_lookup(ho.cls, name)
        if owner is not None and owner is not object:
            if isinstance(raw, types.FunctionType):
                r = ex.call(ex.func_of_native(raw), [ref], {})
                return ex.truth(r) if name == '__bool__' else ex.truth(r)
            lm = LIB_OBJ_TRUTH.get(owner)
            if lm:
                return lm(ex, ref, ho)
            raise Unsupported(f'{name} of {ho.cls.__name__}')
    return True


LIB_OBJ_TRUTH: dict = {}


def obj_len(ex, ref, ho):
    owner, raw = class_lookup(ho.cls, '__len__')
    if isinstance(raw, types.FunctionType):
        return ex.call(ex.func_of_native(raw), [ref], {})
    raise Unsupported(f'len of {ho.cls}')


def obj_special(ex, ref, name, args):
    ho = ex.obj(ref)
    owner, raw = class_lookup(ho.cls, name)
    if isinstance(raw, types.FunctionType):
        return ex.call(ex.func_of_native(raw), [ref] + list(args), {})
    raise Unsupported(f'{name} of {ho.cls}')


# ---------------------------------------------------------------------------
# method calls on built-in receivers
# ---------------------------------------------------------------------------


RECV_MODELS: dict = {}  # type of an engine-level receiver value -> handler(ex, recv, name, args, kwargs) (extension hook)


def call_method(ex, recv, name, args, kwargs, node=None):
    args = [M.plain(a) if not isinstance(a, (Sym, Ref)) else a for a in args]
    h = RECV_MODELS.get(type(recv))
    if h is not None:
        return h(ex, recv, name, args, kwargs)
    if isinstance(recv, OpaqueStr):
        return OpaqueStr()
    if isinstance(recv, Ref):
        ho = ex.obj(recv)
        if isinstance(ho, BAObj):
            return bytearray_method(ex, recv, ho, name, args, kwargs)
        if isinstance(ho, LObj):
            return list_method(ex, recv, ho, name, args, kwargs)
        if isinstance(ho, DObj):
            return dict_method(ex, recv, ho, name, args, kwargs)
        if isinstance(ho, MObj):
            return map_method(ex, recv, ho, name, args, kwargs)
        if isinstance(ho, ExtObj):
            return ho.ext_method(ex, recv, name, args, kwargs)
    if isinstance(recv, (Sym, bytes, bytearray)) and ex.kind_of(recv) == 'bytes':
        return bytes_method(ex, recv, name, args, kwargs)
    if isinstance(recv, Sym) and recv.k in ('int', 'bool'):
        return int_method(ex, recv, name, args, kwargs)
    if isinstance(recv, int) and not ex.is_conc_all(args) if hasattr(ex, 'is_conc_all') else False:
        return int_method(ex, recv, name, args, kwargs)
    if isinstance(recv, int):
        return int_method(ex, recv, name, args, kwargs)
    if M.is_seq_sym(recv):
        raise Unsupported(f'method {name} on symbolic sequence')
    if isinstance(recv, (str, tuple)):
        if all(ex.is_conc(a) for a in args):
            try:
                return getattr(recv, name)(*args, **kwargs)
            except Exception as e:
                raise PyExc(e)
        if isinstance(recv, str) and name in ('format', 'join'):
            return OpaqueStr()
    raise Unsupported(f'method {name} on {recv!r}')


def bytes_method(ex, recv, name, args, kwargs):
    if name == 'hex':
        if isinstance(recv, bytes):
            return recv.hex(*args)
        return OpaqueStr()
    if name == 'decode':
        if isinstance(recv, bytes) and all(ex.is_conc(a) for a in args):
            try:
                return recv.decode(*args, **kwargs)
            except Exception as e:
                raise PyExc(e)
        if DECODE_MODEL is not None:
            return DECODE_MODEL(ex, recv, args, kwargs)  # (an extension models decoded text, see ext_c18.Utf8Str)
        return OpaqueStr()
    if name == 'join':
        items = ex.concrete_iter(args[0])
        if items is None:
            seq = ex.as_symseq(args[0])
            if seq is not None and seq.k == ('seq', 'bytes'):
                # join over a symbolic-length list of byte strings: an uninterpreted pure function of
                # (separator, list) -- only determinism is known about the result
                ex.abstraction_used = True
                jf = z3.Function('pyvc_bytes_join', IntSeq, z3.SeqSort(IntSeq), IntSeq)
                return mk_bytes(jf(zbytes(ex.as_bytes_value(recv)), seq.t))
            raise Unsupported('join over symbolic iterable')
        parts = []
        sep = ex.as_bytes_value(recv)
        for i, it in enumerate(items):
            if i:
                parts.append(zbytes(sep))
            parts.append(zbytes(ex.as_bytes_value(it)))
        if not parts:
            return b''
        return mk_bytes(z3.Concat(*parts)) if len(parts) > 1 else mk_bytes(parts[0])
    if name in ('startswith', 'endswith'):
        p = ex.as_bytes_value(args[0])
        if isinstance(recv, bytes) and isinstance(p, bytes):
            return getattr(recv, name)(p)
        f = z3.PrefixOf if name == 'startswith' else z3.SuffixOf
        return mk_bool(f(zbytes(p), zbytes(recv)))
    if name == 'find' or name == 'index':
        p = args[0]
        pt = z3.Unit(zint(p)) if M.is_intlike(ex, p) else zbytes(ex.as_bytes_value(p))
        start = zint(args[1]) if len(args) > 1 else z3.IntVal(0)
        r = mk_int(z3.IndexOf(zbytes(recv), pt, start))
        if name == 'index':
            if not ex.branch(M.compare(ex, ast.GtE(), r, 0)):
                ex.raise_(ValueError, 'subsection not found')
        return r
    if name in ('ljust', 'rjust') and not isinstance(recv, bytes):
        width = M.plain(args[0])
        fill = args[1] if len(args) > 1 else b' '
        n = conc_int(z3.Length(zbytes(recv)))
        if isinstance(width, int) and isinstance(fill, bytes) and len(fill) == 1 and n is not None:
            if n >= width:
                return recv
            pad = bytes_lit(fill * (width - n))
            return mk_bytes(z3.Concat(zbytes(recv), pad) if name == 'ljust' else z3.Concat(pad, zbytes(recv)))
        raise Unsupported(f'bytes.{name} on data of symbolic length')
    if name == 'count' or name in ('split', 'strip', 'rstrip', 'lstrip', 'replace', 'partition', 'splitlines', 'ljust', 'rjust'):
        if isinstance(recv, bytes) and all(ex.is_conc(a) for a in args):
            return getattr(recv, name)(*args, **kwargs)
        raise Unsupported(f'bytes.{name} on symbolic data')
    if isinstance(recv, bytes) and all(ex.is_conc(a) for a in args):
        try:
            return getattr(recv, name)(*args, **kwargs)
        except Exception as e:
            raise PyExc(e)
    raise Unsupported(f'bytes.{name}')


DECODE_MODEL = None


def int_method(ex, recv, name, args, kwargs):
    if name == 'to_bytes':
        return int_to_bytes(ex, recv, *args, **kwargs)
    if name == 'bit_length' and isinstance(recv, int):
        return int(recv).bit_length()
    if name in ('value', 'real'):
        return recv
    if isinstance(recv, int) and all(ex.is_conc(a) for a in args):
        try:
            return getattr(recv, name)(*args, **kwargs)
        except Exception as e:
            raise PyExc(e)
    raise Unsupported(f'int.{name}')


def bytearray_method(ex, ref, ho, name, args, kwargs):
    if name == 'extend' or name == '__iadd__':
        v = args[0]
        if not M.is_byteslike(ex, v):
            items = ex.concrete_iter(v)
            if items is None:
                raise Unsupported('bytearray.extend with non-bytes')
            v = build_bytes_from_items(ex, items)
        ex.wobj(ref).val = M.binop(ex, ast.Add(), ho.val, ex.as_bytes_value(v))
        return None
    if name == 'append':
        b = build_bytes_from_items(ex, [args[0]])
        ex.wobj(ref).val = M.binop(ex, ast.Add(), ho.val, b)
        return None
    if name == 'clear':
        ex.wobj(ref).val = b''
        return None
    if name == 'copy':
        return ex.alloc(BAObj(ho.val))
    return bytes_method(ex, ho.val, name, args, kwargs)


def list_method(ex, ref, ho, name, args, kwargs):
    w = lambda: ex.wobj(ref)
    if ho.flavor == 'set':
        if name == 'intersection' and len(args) == 1 and ho.items is not None:
            out = []
            for x in ho.items:
                if ex.branch(ex.truth(M.contains(ex, args[0], ex.wrap(x, ref)))):
                    out.append(x)
            return ex.alloc(LObj(out, flavor='set'))
        raise Unsupported(f'set.{name} on a set with symbolic members')
    if name == 'append':
        if ho.maxlen is not None:
            # collections.deque(maxlen=n).append on a full deque discards the item at the left end
            if ho.maxlen == 0:
                return None
            if ho.items is not None:
                if len(ho.items) >= ho.maxlen:
                    del w().items[0]
            elif ex.branch(mk_bool(z3.Length(ho.sym.t) >= ho.maxlen)):
                s_ = ho.sym.t
                w().sym = Sym(z3.simplify(z3.Extract(s_, 1, z3.Length(s_) - 1)), ho.sym.k)
                ho = ex.obj(ref)
        if ho.items is not None:
            w().items.append(args[0])
        else:
            e = M.value_to_elem(ex, args[0], ho.sym.k[1])
            w().sym = Sym(z3.simplify(z3.Concat(ho.sym.t, z3.Unit(e))), ho.sym.k)
        return None
    if name == 'appendleft':
        if ho.items is not None:
            w().items.insert(0, args[0])
        else:
            e = M.value_to_elem(ex, args[0], ho.sym.k[1])
            w().sym = Sym(z3.simplify(z3.Concat(z3.Unit(e), ho.sym.t)), ho.sym.k)
        return None
    if name == 'extend':
        list_extend(ex, ref, args[0])
        return None
    if name in ('pop', 'popleft'):
        left = name == 'popleft'
        idx = None
        if name == 'pop' and args:
            idx = M.plain(args[0])
        if ho.items is not None:
            if not ho.items:
                ex.raise_(IndexError, 'pop from empty list')
            if idx is not None:
                if not isinstance(idx, int):
                    raise Unsupported('pop(symbolic index)')
                try:
                    return w().items.pop(idx)
                except IndexError:
                    ex.raise_(IndexError, 'pop index out of range')
            return w().items.pop(0 if left else -1)
        s = ho.sym.t
        n = z3.Length(s)
        if not ex.branch(mk_bool(n > 0)):
            ex.raise_(IndexError, 'pop from an empty deque')
        if idx is not None and idx != -1:
            if idx == 0:
                left = True
            else:
                raise Unsupported('pop(i) on symbolic list')
        if left:
            v = M.elem_to_value(ex, s[0], ho.sym.k[1])
            w().sym = Sym(z3.simplify(z3.Extract(s, 1, n - 1)), ho.sym.k)
        else:
            v = M.elem_to_value(ex, s[n - 1], ho.sym.k[1])
            w().sym = Sym(z3.simplify(z3.Extract(s, 0, n - 1)), ho.sym.k)
        return v
    if name == 'clear':
        if ho.items is not None:
            w().items.clear()
        else:
            w().sym = Sym(z3.Empty(ho.sym.t.sort()), ho.sym.k)
        return None
    if name == 'copy':
        return ex.alloc(ho.clone())
    if name == 'insert' and ho.items is not None and isinstance(M.plain(args[0]), int):
        w().items.insert(M.plain(args[0]), args[1])
        return None
    if name == 'remove' and ho.items is not None:
        for i, x in enumerate(ho.items):
            r = M.equal(ex, x, args[0])
            if ex.branch(r):
                del w().items[i]
                return None
        ex.raise_(ValueError, 'list.remove(x): x not in list')
    if name == 'index' and ho.items is not None:
        for i, x in enumerate(ho.items):
            if ex.branch(M.equal(ex, x, args[0])):
                return i
        ex.raise_(ValueError, 'not in list')
    if name == 'count' and ho.items is not None:
        tot = 0
        for x in ho.items:
            tot = M.binop(ex, ast.Add(), tot, ex.ite(ex.truth(M.equal(ex, x, args[0])), 1, 0))
        return tot
    if name in ('sort', 'reverse') and ho.items is not None and all(ex.is_conc(x) for x in ho.items):
        getattr(w().items, name)(**kwargs)
        return None
    if name == 'reverse' and ho.items is not None:
        w().items.reverse()
        return None
    if name == 'sort' and ho.items is not None and len(ho.items) <= 4 and not args and set(kwargs) <= {'key'}:
        # short concrete spine, symbolic keys: stable insertion sort (the result CPython's stable sort gives), one
        # case split per comparison; the key function is called once per element, in list order, as CPython does
        keyf = kwargs.get('key')
        items = list(ho.items)
        keys = [ex.call(keyf, [ex.wrap(x, ref)], {}) if keyf is not None else ex.wrap(x, ref) for x in items]
        order = list(range(len(items)))
        for i in range(1, len(order)):
            j = i
            while j > 0 and ex.branch(ex.truth(ex.compare_op(ast.Lt(), keys[order[j]], keys[order[j - 1]]))):
                order[j], order[j - 1] = order[j - 1], order[j]
                j -= 1
        w().items[:] = [items[k] for k in order]
        return None
    raise Unsupported(f'list.{name}')


def list_extend(ex, ref, v):
    ho = ex.wobj(ref)
    if ex.skeleton and isinstance(v, Unknown):
        # skeleton profile: extended by an uninterpreted iterable -> an arbitrary list
        ex.abstraction_used = True
        ho.items = None
        ho.sym = ex.fresh_sym(('seq', ('opq', 'unknown')), 'ext')
        return
    items = ex.concrete_iter(v)
    if ho.items is not None and items is not None:
        ho.items.extend(items)
        return
    if ho.sym is not None and items is not None:
        units = [z3.Unit(M.value_to_elem(ex, x, ho.sym.k[1])) for x in items]
        if units:
            ho.sym = Sym(z3.simplify(z3.Concat(ho.sym.t, *units)), ho.sym.k)
        return
    s = ex.as_symseq(v)
    if s is not None:
        cur = M.list_as_sym(ex, ref, s.k[1] if s.k != 'bytes' else 'int')
        if cur is None:
            cur = Sym(z3.Empty(s.t.sort()), s.k if s.k != 'bytes' else ('seq', 'int'))
        ho.items = None
        ho.sym = Sym(z3.simplify(z3.Concat(cur.t, s.t)), cur.k)
        return
    raise Unsupported('list.extend')


def dict_method(ex, ref, ho, name, args, kwargs):
    if name == 'get':
        key = M.dict_find(ex, ho, M.wrap_key(args[0]))
        if key is M._MISSING:
            return args[1] if len(args) > 1 else kwargs.get('default')
        return ex.wrap(ho.items[key], ref)
    if name == 'pop':
        key = M.dict_find(ex, ho, M.wrap_key(args[0]))
        if key is M._MISSING:
            if len(args) > 1:
                return args[1]
            ex.raise_(KeyError, args[0])
        return ex.wobj(ref).items.pop(key)
    if name == 'setdefault':
        key = M.dict_find(ex, ho, M.wrap_key(args[0]))
        if key is M._MISSING:
            v = args[1] if len(args) > 1 else None
            ex.wobj(ref).items[M.wrap_key(args[0])] = v
            return v
        return ho.items[key]
    if name == 'keys':
        return ConcIter([M.unwrap_key(k) for k in ho.items.keys()])
    if name == 'values':
        return ConcIter([ex.wrap(v, ref) for v in ho.items.values()])
    if name == 'items':
        return ConcIter([(M.unwrap_key(k), ex.wrap(v, ref)) for k, v in ho.items.items()])
    if name == 'clear':
        ex.wobj(ref).items.clear()
        return None
    if name == 'copy':
        return ex.alloc(DObj(dict(ho.items), ho.default_factory))
    if name == 'update':
        src = args[0] if args else None
        if src is not None:
            if isinstance(src, Ref) and isinstance(ex.obj(src), DObj):
                for k, v in ex.obj(src).items.items():
                    M.store_subscript(ex, ref, M.unwrap_key(k), v)
            elif isinstance(src, dict):
                for k, v in src.items():
                    M.store_subscript(ex, ref, k, ex.import_native(v))
            else:
                raise Unsupported('dict.update source')
        for k, v in kwargs.items():
            M.store_subscript(ex, ref, k, v)
        return None
    raise Unsupported(f'dict.{name}')


def map_method(ex, ref, ho, name, args, kwargs):
    k = M.plain(args[0]) if args else None
    if name == 'get':
        if ex.branch(M.map_has(ex, ho, k)):
            return ElemRef(ref, k)
        return args[1] if len(args) > 1 else None
    if name == 'pop':
        if ex.branch(M.map_has(ex, ho, k)):
            v = M.elem_detach(ex, ElemRef(ref, k))
            w = ex.wobj(ref)
            w.dom = z3.Store(w.dom, zint(k), False)
            return v
        if len(args) > 1:
            return args[1]
        ex.raise_(KeyError, k)
    raise Unsupported(f'symbolic-map method {name}')


def build_bytes_from_items(ex, items):
    parts = []
    for x in items:
        x = M.plain(x)
        if not M.is_intlike(ex, x):
            if isinstance(x, Unknown):
                raise Unsupported('bytes() of uninterpreted value')
            ex.raise_(TypeError, 'an integer is required')
        if ex.is_conc(x):
            if not (0 <= x <= 255):
                ex.raise_(ValueError, 'bytes must be in range(0, 256)')
            parts.append(z3.Unit(z3.IntVal(int(x))))
        elif M.is_known_byte(ex, x):
            parts.append(z3.Unit(zint(x)))
        else:
            t = zint(x)
            if not ex.spec_mode:
                if not ex.branch(mk_bool(z3.And(t >= 0, t <= 255))):
                    ex.raise_(ValueError, 'bytes must be in range(0, 256)')
            parts.append(z3.Unit(t))
    if not parts:
        return b''
    return mk_bytes(z3.Concat(*parts)) if len(parts) > 1 else mk_bytes(parts[0])


# ---------------------------------------------------------------------------
# integer <-> bytes
# ---------------------------------------------------------------------------


def int_to_bytes(ex, v, length=1, byteorder='big', *, signed=False):
    length = M.plain(length)
    if not isinstance(length, int):
        raise Unsupported('to_bytes with symbolic length')
    if not isinstance(byteorder, str):
        raise Unsupported('to_bytes with symbolic byteorder')
    if ex.is_conc(v):
        try:
            return int(v).to_bytes(length, byteorder, signed=signed)
        except OverflowError as e:
            raise PyExc(e)
    t = zint(v)
    lim = 1 << (8 * length)
    fields = M.bf_get(ex, v) if not signed else None
    if fields is not None and all(off + w <= 8 * length for (_, off, w) in fields):
        # assembled from disjoint bit fields that all lie below 8*length bits: in range, and each
        # output byte is a function of the (at most two) fields that overlap it
        units = [z3.Unit(M.bf_byte(fields, i)) for i in range(length)]
        if byteorder == 'big':
            units.reverse()
        if not units:
            return b''
        r = mk_bytes(z3.Concat(*units) if len(units) > 1 else units[0])
        return r
    if signed:
        ok = z3.And(t >= -(lim // 2), t < lim // 2)
    else:
        ok = z3.And(t >= 0, t < lim)
    src = _split_bytes(ex, v, length, bool(signed))
    if src is not None and length:
        units = [z3.Unit(zint(b)) for b in src]
        if byteorder == 'big':
            units.reverse()
        return mk_bytes(z3.Concat(*units) if len(units) > 1 else units[0])
    if not ex.spec_mode and not (M.in_known_range(ex, v, -(lim // 2), lim // 2 - 1) if signed else M.in_known_range(ex, v, 0, lim - 1)):
        if not ex.branch(mk_bool(ok)):
            ex.raise_(OverflowError, 'int too big to convert')
    u = t % lim if signed else t
    units = []
    for i in range(length):
        units.append(_byte_unit(ex, (u / (1 << (8 * i))) % 256 if i else u % 256))
    if not ex.spec_mode:
        _note_split(ex, v, [un.arg(0) for un in units], length, bool(signed))
    if byteorder == 'big':
        units.reverse()
    if not units:
        return b''
    return mk_bytes(z3.Concat(*units) if len(units) > 1 else units[0])


# ---------------------------------------------------------------------------
# byte decomposition bookkeeping (exact, purely syntactic shortcuts for two theorems of arithmetic):
#   (1) re-assembling, at the same width and signedness, the bytes that an in-range integer v was split
#       into gives v again;   (2) splitting an integer that was assembled from sz bytes, at the same width and
#       signedness, gives those bytes again.
# Without them every 2/3/4-byte field of every packet costs the solver a div/mod proof.
# ---------------------------------------------------------------------------
def _note_split(ex, v, byte_terms, sz, signed):
    """byte_terms[p] is the (simplified) term of the byte of significance p of the in-range value v"""
    if ex.quant or not isinstance(v, Sym):
        return
    tbl = ex.__dict__.setdefault('split_origin', {})
    for p, bt in enumerate(byte_terms):
        if not z3.is_int_value(bt):
            tbl[bt.get_id()] = (v, p, sz, signed)
            ex.keep.append(bt)


def _joined_value(ex, bytes_by_sig, sz, signed):
    """the value whose own decomposition (same width, same signedness) these bytes are, or None"""
    tbl = ex.__dict__.get('split_origin')
    if not tbl or ex.quant:
        return None
    v0 = None
    for p, b in enumerate(bytes_by_sig):
        if not isinstance(b, Sym):
            return None
        ent = tbl.get(b.t.get_id())
        if ent is None or ent[1] != p or ent[2] != sz or ent[3] != signed:
            return None
        if v0 is None:
            v0 = ent[0]
        elif ent[0] is not v0:
            return None
    return v0


def _note_join(ex, r, bytes_by_sig, sz, signed):
    """r is the integer assembled from the bytes (by significance) at width sz"""
    if ex.quant or not isinstance(r, Sym):
        return
    ex.__dict__.setdefault('join_origin', {})[r.t.get_id()] = (list(bytes_by_sig), sz, signed)
    ex.keep.append(r.t)


def _split_bytes(ex, v, sz, signed):
    """the bytes (by significance) v was assembled from at this width and signedness, or None"""
    tbl = ex.__dict__.get('join_origin')
    if not tbl or ex.quant or not isinstance(v, Sym):
        return None
    ent = tbl.get(v.t.get_id())
    if ent is None or ent[1] != sz or ent[2] != signed:
        return None
    return ent[0]


def _byte_unit(ex, t):
    """unit sequence of a term of the form x % 256 (a byte by construction: remembered as such, so that reading
    it back needs no range analysis)"""
    t = z3.simplify(t)
    if not ex.quant and not z3.is_int_value(t):
        M.mark_byte(ex, t)
    return z3.Unit(t)


def int_from_bytes(ex, b, byteorder='big', *, signed=False):
    b = ex.as_bytes_value(b) if M.is_byteslike(ex, b) else b
    if isinstance(b, Ref):
        items = ex.concrete_iter(b)
        if items is None:
            raise Unsupported('int.from_bytes of symbolic list')
        b = build_bytes_from_items(ex, items)
    if isinstance(b, bytes):
        return int.from_bytes(b, byteorder, signed=signed)
    n = conc_int(z3.Length(b.t))
    if n is None and not ex.quant:
        for k in range(0, 9):
            if ex.proves(z3.Length(b.t) == k):
                n = k
                break
    if n is None:
        raise Unsupported('int.from_bytes of a string of symbolic length')
    total = z3.IntVal(0)
    fields = []
    by_sig = [None] * n
    for i in range(n):
        byte = M.read_byte(ex, b.t, z3.IntVal(i))
        p = i if byteorder == 'little' else n - 1 - i
        by_sig[p] = byte
        total = total + zint(byte) * (1 << (8 * p))
        fields.append((zint(byte), 8 * p, 8))
    if n:
        whole = _joined_value(ex, by_sig, n, bool(signed))
        if whole is not None:
            return whole
    if signed and n:
        lim = 1 << (8 * n)
        total = z3.If(total >= lim // 2, total - lim, total)
        r = mk_int(total)
        _note_join(ex, r, by_sig, n, True)
        return r
    r = mk_int(total)
    if n > 4:
        r = M.name_int(ex, r, 'ifb')  # one name for the big sum keeps later terms small
    if n:
        _note_join(ex, r, by_sig, n, False)
    return M.bf_set(ex, r, fields)


_STRUCT_CODES = {'b': (1, True), 'B': (1, False), 'h': (2, True), 'H': (2, False), 'i': (4, True), 'I': (4, False),
                 'l': (4, True), 'L': (4, False), 'q': (8, True), 'Q': (8, False)}


def parse_struct_fmt(ex, fmt):
    if not isinstance(fmt, str):
        raise Unsupported('struct format is not a concrete string')
    order = 'little'  # assumption A3 for native-order formats
    s = fmt
    if s and s[0] in '<>=!@':
        if s[0] in '>!':
            order = 'big'
        if s[0] == '@':
            raise Unsupported('struct native alignment')
        s = s[1:]
    items = []
    count = ''
    for ch in s:
        if ch.isdigit():
            count += ch
            continue
        if ch == ' ':
            continue
        n = int(count) if count else 1
        count = ''
        if ch == 's':
            items.append(('s', n))
        elif ch == 'x':
            items.append(('x', n))
        elif ch in _STRUCT_CODES:
            items.extend([(ch, 1)] * n)
        else:
            raise Unsupported(f'struct code {ch!r}')
    return order, items


def struct_size(items):
    tot = 0
    for code, n in items:
        tot += n if code in 'sx' else _STRUCT_CODES[code][0]
    return tot


def struct_unpack_from(ex, fmt, buf, offset=0):
    order, items = parse_struct_fmt(ex, fmt)
    size = struct_size(items)
    b = ex.as_bytes_value(buf)
    n = ex.length(b)
    offset = M.plain(offset)
    # struct.error when the buffer is too small (negative offsets are normalised by struct)
    off_t = zint(offset)
    ok = z3.And(off_t >= 0, zint(n) - off_t >= size)
    if isinstance(offset, int) and offset < 0:
        raise Unsupported('negative struct offset')
    if not ex.spec_mode:
        if not ex.branch(mk_bool(ok)):
            raise PyExc(ex.new_exception(_struct.error, 'unpack_from requires a bigger buffer'))
    out = []
    pos = off_t
    bt = zbytes(b)
    for code, cnt in items:
        if code == 'x':
            pos = pos + cnt
            continue
        if code == 's':
            out.append(mk_bytes(z3.Extract(bt, pos, z3.IntVal(cnt))))
            pos = pos + cnt
            continue
        sz, signed = _STRUCT_CODES[code]
        total = z3.IntVal(0)
        by_sig = [None] * sz
        for i in range(sz):
            byte = M.read_byte(ex, bt, z3.simplify(pos + i))
            p = i if order == 'little' else sz - 1 - i
            by_sig[p] = byte
            total = total + zint(byte) * (1 << (8 * p))
        pos = pos + sz
        whole = _joined_value(ex, by_sig, sz, signed)
        if whole is not None:
            out.append(whole)
            continue
        if signed:
            lim = 1 << (8 * sz)
            total = z3.If(total >= lim // 2, total - lim, total)
        r = mk_int(total)
        _note_join(ex, r, by_sig, sz, signed)
        out.append(r)
    return tuple(out)


def struct_unpack(ex, fmt, buf):
    order, items = parse_struct_fmt(ex, fmt)
    size = struct_size(items)
    b = ex.as_bytes_value(buf)
    if not ex.spec_mode:
        if not ex.branch(M.compare(ex, ast.Eq(), ex.length(b), size)):
            raise PyExc(ex.new_exception(_struct.error, f'unpack requires a buffer of {size} bytes'))
    saved = ex.spec_mode
    ex.spec_mode += 1  # bounds already established
    try:
        return struct_unpack_from(ex, fmt, b, 0)
    finally:
        ex.spec_mode = saved


def struct_pack(ex, fmt, *vals):
    order, items = parse_struct_fmt(ex, fmt)
    vals = list(vals)
    parts = []
    for code, cnt in items:
        if code == 'x':
            parts.append(bytes_lit(bytes(cnt)))
            continue
        if not vals:
            raise PyExc(ex.new_exception(_struct.error, 'pack expected more items'))
        v = M.plain(vals.pop(0))
        if code == 's':
            b = ex.as_bytes_value(v)
            ln = ex.length(b)
            if isinstance(ln, int):
                if isinstance(b, bytes):
                    parts.append(bytes_lit(b[:cnt].ljust(cnt, b'\0')))
                elif ln >= cnt:
                    parts.append(z3.Extract(zbytes(b), 0, cnt))
                else:
                    parts.append(z3.Concat(zbytes(b), bytes_lit(bytes(cnt - ln))))
            else:
                raise Unsupported("struct 's' with symbolic length")
            continue
        sz, signed = _STRUCT_CODES[code]
        if not M.is_intlike(ex, v):
            raise PyExc(ex.new_exception(_struct.error, 'required argument is not an integer'))
        lim = 1 << (8 * sz)
        if ex.is_conc(v):
            lo, hi = (-(lim // 2), lim // 2 - 1) if signed else (0, lim - 1)
            if not (lo <= v <= hi):
                raise PyExc(ex.new_exception(_struct.error, 'argument out of range'))
            parts.append(bytes_lit(int(v).to_bytes(sz, order, signed=signed)))
            continue
        t = zint(v)
        src = _split_bytes(ex, v, sz, signed)
        if src is not None:
            # assembled from these very bytes at this width: in range by construction
            units = [z3.Unit(zint(b)) for b in src]
            if order == 'big':
                units.reverse()
            parts.extend(units)
            continue
        ok = z3.And(t >= -(lim // 2), t < lim // 2) if signed else z3.And(t >= 0, t < lim)
        if not ex.spec_mode and not (M.in_known_range(ex, v, -(lim // 2), lim // 2 - 1) if signed else M.in_known_range(ex, v, 0, lim - 1)):
            if not ex.branch(mk_bool(ok)):
                raise PyExc(ex.new_exception(_struct.error, 'argument out of range'))
        u = t % lim if signed else t
        units = [_byte_unit(ex, (u / (1 << (8 * i))) % 256 if i else u % 256) for i in range(sz)]
        if not ex.spec_mode:
            _note_split(ex, v, [un.arg(0) for un in units], sz, signed)
        if order == 'big':
            units.reverse()
        parts.extend(units)
    if vals:
        raise PyExc(ex.new_exception(_struct.error, 'pack expected fewer items'))
    if not parts:
        return b''
    return mk_bytes(z3.Concat(*parts) if len(parts) > 1 else parts[0])


def struct_calcsize(ex, fmt):
    order, items = parse_struct_fmt(ex, fmt)
    return struct_size(items)


# ---------------------------------------------------------------------------
# builtin functions
# ---------------------------------------------------------------------------


def m_len(ex, v):
    return ex.length(v)


def m_min(ex, *args, **kw):
    return _minmax(ex, args, kw, True)


def m_max(ex, *args, **kw):
    return _minmax(ex, args, kw, False)


def _minmax(ex, args, kw, is_min):
    if 'key' in kw:
        raise Unsupported('min/max with key')
    if len(args) == 1:
        items = ex.concrete_iter(args[0])
        if items is None:
            raise Unsupported('min/max over symbolic iterable')
        if not items:
            if 'default' in kw:
                return kw['default']
            ex.raise_(ValueError, 'min() arg is an empty sequence')
    else:
        items = list(args)
    items = [M.plain(x) for x in items]
    if any(isinstance(x, Unknown) for x in items):
        return Unknown('min/max')
    if all(ex.is_conc(x) for x in items):
        return min(items) if is_min else max(items)
    acc = zint(items[0])
    for x in items[1:]:
        acc = zmin(acc, zint(x)) if is_min else zmax(acc, zint(x))
    return M.name_int(ex, mk_int(acc), 'min' if is_min else 'max')


def m_abs(ex, v):
    if ex.is_conc(v):
        return abs(v)
    t = zint(v)
    return mk_int(z3.If(t >= 0, t, -t))


def m_sum(ex, it, start=0):
    items = ex.concrete_iter(it)
    if items is None:
        raise Unsupported('sum over symbolic iterable')
    acc = start
    for x in items:
        acc = M.binop(ex, ast.Add(), acc, x)
    return acc


def m_all(ex, it):
    items = ex.concrete_iter(it)
    if items is None:
        raise Unsupported('all() over symbolic iterable')
    return ex.bool_and([ex.truth(x) for x in items])


def m_any(ex, it):
    items = ex.concrete_iter(it)
    if items is None:
        raise Unsupported('any() over symbolic iterable')
    return ex.bool_or([ex.truth(x) for x in items])


def m_bytes(ex, *args):
    if not args:
        return b''
    v = M.plain(args[0])
    if len(args) > 1:
        if isinstance(v, str) and all(ex.is_conc(a) for a in args):
            return bytes(v, *args[1:])
        if isinstance(v, OpaqueStr):
            raise Unsupported('bytes(str) of opaque string')
        raise Unsupported('bytes() with encoding')
    if isinstance(v, Unknown):
        return Unknown('bytes()')
    if M.is_byteslike(ex, v):
        return ex.as_bytes_value(v)
    if isinstance(v, int) and not isinstance(v, bool):
        if v < 0:
            ex.raise_(ValueError, 'negative count')
        return bytes(v)
    if isinstance(v, Sym) and v.k == 'int':
        if not ex.spec_mode and not ex.branch(mk_bool(v.t >= 0)):
            ex.raise_(ValueError, 'negative count')
        return M.bytes_repeat(ex, b'\0', v)
    if isinstance(v, ElemRef):
        owner, raw = class_lookup(ex.obj(v.mref).elem_cls, '__bytes__')
        if isinstance(raw, types.FunctionType):
            r = ex.call(ex.func_of_native(raw), [v], {})
            return ex.as_bytes_value(r) if M.is_byteslike(ex, r) else r
        raise PyExc(TypeError('cannot convert to bytes'))
    if isinstance(v, Ref):
        ho = ex.obj(v)
        if isinstance(ho, Obj):
            owner, raw = class_lookup(ho.cls, '__bytes__')
            if isinstance(raw, types.FunctionType):
                r = ex.call(ex.func_of_native(raw), [v], {})
                return ex.as_bytes_value(r) if M.is_byteslike(ex, r) else r
            raise PyExc(TypeError('cannot convert to bytes'))
        if isinstance(ho, LObj) and ho.sym is not None and ho.sym.k == ('seq', 'int'):
            if not ex.spec_mode:
                raise Unsupported('bytes(<symbolic int list>) range check')
            return Sym(ho.sym.t, 'bytes')
    items = ex.concrete_iter(v)
    if items is not None:
        return build_bytes_from_items(ex, items)
    if ex.is_conc(v):
        try:
            return bytes(v)
        except Exception as e:
            raise PyExc(e)
    raise Unsupported(f'bytes({v!r})')


def m_bytearray(ex, *args):
    if not args:
        return ex.alloc(BAObj(b''))
    return ex.alloc(BAObj(m_bytes(ex, *args)))


def m_int(ex, *args, **kw):
    if not args:
        return 0
    v = M.plain(args[0])
    if isinstance(v, Unknown):
        return Unknown('int()')
    if len(args) == 1 and M.is_intlike(ex, v):
        if isinstance(v, Sym) and v.k == 'bool':
            return mk_int(zint(v))
        return int(v) if ex.is_conc(v) else v
    if all(ex.is_conc(a) for a in args):
        try:
            return int(*args, **kw)
        except Exception as e:
            raise PyExc(e)
    if isinstance(v, OpaqueStr):
        raise Unsupported('int(<opaque str>)')
    raise Unsupported(f'int({v!r})')


def m_bool(ex, v=False):
    return ex.truth(v)


def m_str(ex, *args):
    if args and all(ex.is_conc(a) for a in args) and not isinstance(args[0], (Func, Bound)):
        try:
            return str(*args)
        except Exception as e:
            raise PyExc(e)
    return OpaqueStr()


def m_repr(ex, v):
    return OpaqueStr()


def m_isinstance(ex, v, cls):
    return ex.isinstance_(v, cls)


def m_callable(ex, v):
    if isinstance(v, (Func, Bound, Builtin, CallbackVal)):
        return True
    if isinstance(v, (Sym, Ref)):
        if isinstance(v, Ref) and isinstance(ex.obj(v), Obj):
            return class_lookup(ex.obj(v).cls, '__call__')[0] is not None
        return False
    if isinstance(v, Unknown):
        return v
    return callable(v)


def m_hasattr(ex, o, name):
    if isinstance(o, Ref) and isinstance(ex.obj(o), Obj):
        ho = ex.obj(o)
        if name in ho.fields:
            return True
        if ho.cls is not None and class_lookup(ho.cls, name)[0] is not None:
            return True
        if ho.model is not None and name in ho.model.fields:
            return False
        return False
    if ex.is_conc(o):
        return hasattr(o, name)
    raise Unsupported(f'hasattr on {o!r}')


def m_getattr(ex, o, name, *default):
    if not isinstance(name, str):
        raise Unsupported('getattr with non-constant name')
    try:
        return ex.getattr(o, name)
    except PyExc as e:
        if default and issubclass(ex.exc_class_of(e.value), AttributeError):
            return default[0]
        raise


def m_setattr(ex, o, name, v):
    if not isinstance(name, str):
        raise Unsupported('setattr with non-constant name')
    ex.setattr(o, name, v)


def m_range(ex, *args):
    args = [M.plain(a) for a in args]
    if all(isinstance(a, int) for a in args):
        return range(*args)
    if len(args) == 1:
        return SymRange(0, args[0], 1)
    if len(args) == 2:
        return SymRange(args[0], args[1], 1)
    if isinstance(args[2], int) and args[2] == 0:
        ex.raise_(ValueError, 'range() arg 3 must not be zero')
    return SymRange(*args)


def m_list(ex, *args):
    if not args:
        return ex.alloc(LObj([]))
    v = args[0]
    items = ex.concrete_iter(v)
    if items is not None:
        return ex.alloc(LObj(list(items)))
    s = ex.as_symseq(v)
    if s is not None:
        k = s.k if s.k != 'bytes' else ('seq', 'int')
        return ex.alloc(LObj(None, Sym(s.t, k)))
    raise Unsupported(f'list({v!r})')


def m_tuple(ex, *args):
    if not args:
        return ()
    items = ex.concrete_iter(args[0])
    if items is None:
        raise Unsupported('tuple() of symbolic iterable')
    return tuple(items)


def m_dict(ex, *args, **kw):
    d = {}
    if args:
        src = args[0]
        if isinstance(src, Ref) and isinstance(ex.obj(src), DObj):
            d.update(ex.obj(src).items)
        else:
            items = ex.concrete_iter(src)
            if items is None:
                raise Unsupported('dict() source')
            if isinstance(src, dict):
                for k in items:
                    d[k] = ex.import_native(src[k])
            else:
                for k, v in items:
                    d[M.wrap_key(k)] = v
    d.update(kw)
    return ex.alloc(DObj(d))


def m_set(ex, *args):
    if not args:
        return frozenset()
    items = ex.concrete_iter(args[0])
    if items is None:
        raise Unsupported('set() of an iterable of symbolic length')
    if not all(ex.is_hashable_conc(x) for x in items):
        # members with symbolic values: a concrete spine of members that may coincide (flavor 'set':
        # membership, iteration, truth value and intersection are exact; len() is refused)
        return ex.alloc(LObj([M.unwrap_key(x) for x in items], flavor='set'))
    return frozenset(items)


def m_enumerate(ex, it, start=0):
    items = ex.concrete_iter(it)
    if items is None and ex.skeleton and isinstance(it, Unknown):
        return Unknown('enumerate')
    if items is None:
        raise Unsupported('enumerate over symbolic iterable')
    return ConcIter([(start + i, x) for i, x in enumerate(items)])


def m_zip(ex, *its, **kw):
    lists = [ex.concrete_iter(i) for i in its]
    if ex.skeleton and any(isinstance(i, Unknown) for i in its):
        return Unknown('zip')
    if any(l is None for l in lists):
        if kw:
            raise Unsupported('zip(strict=) over symbolic iterable')
        seqs = [ex.as_symseq(i) for i in its]
        if any(q is None for q in seqs):
            raise Unsupported('zip over a mix of concrete and symbolic iterables')
        from .engine import SymZip

        # only usable as the iterable of a `for` statement with a loop invariant (engine.st_For)
        return SymZip(seqs)
    return ConcIter([tuple(t) for t in zip(*lists)])


def m_reversed(ex, it):
    items = ex.concrete_iter(it)
    if items is None:
        raise Unsupported('reversed over symbolic iterable')
    return ConcIter(list(reversed(items)))


def m_sorted(ex, it, **kw):
    items = ex.concrete_iter(it)
    if items is None or not all(ex.is_conc(x) for x in items) or kw.get('key') is not None and not callable(kw['key']):
        raise Unsupported('sorted over symbolic data')
    return ex.alloc(LObj(sorted(items, **kw)))


def m_iter(ex, it):
    items = ex.concrete_iter(it)
    if items is None:
        raise Unsupported('iter() over symbolic iterable')
    return ConcIter(list(items))


def m_next(ex, it, *default):
    if isinstance(it, ConcIter):
        if it.items:
            return it.items.pop(0)
        if default:
            return default[0]
        ex.raise_(StopIteration)
    raise Unsupported('next()')


def m_id(ex, v):
    if isinstance(v, Ref):
        return v.oid
    raise Unsupported('id()')


def m_type(ex, v):
    t = pytype_of(ex, v)
    if t is None:
        raise Unsupported('type()')
    return t


def m_print(ex, *a, **k):
    return None


def m_divmod(ex, a, b):
    return (M.binop(ex, ast.FloorDiv(), a, b), M.binop(ex, ast.Mod(), a, b))


def m_from_bytes(ex, b, byteorder='big', **kw):
    return int_from_bytes(ex, b, byteorder, **kw)


def m_bytes_fromhex(ex, s):
    if isinstance(s, str):
        try:
            return bytes.fromhex(s)
        except ValueError as e:
            raise PyExc(e)
    raise Unsupported('bytes.fromhex of opaque string')


def m_issubclass(ex, a, b):
    if isinstance(a, type):
        return issubclass(a, b)
    raise Unsupported('issubclass')


def _wrap(fn):
    return lambda ex, args, kwargs: fn(ex, *args, **kwargs)


NATIVE_MODELS = {
    len: m_len,
    min: m_min,
    max: m_max,
    abs: m_abs,
    sum: m_sum,
    all: m_all,
    any: m_any,
    isinstance: m_isinstance,
    issubclass: m_issubclass,
    callable: m_callable,
    hasattr: m_hasattr,
    getattr: m_getattr,
    setattr: m_setattr,
    enumerate: m_enumerate,
    zip: m_zip,
    reversed: m_reversed,
    sorted: m_sorted,
    iter: m_iter,
    next: m_next,
    id: m_id,
    print: m_print,
    repr: m_repr,
    divmod: m_divmod,
    int.from_bytes: m_from_bytes,
    bytes.fromhex: m_bytes_fromhex,
    _struct.pack: struct_pack,
    _struct.unpack: struct_unpack,
    _struct.unpack_from: struct_unpack_from,
    _struct.calcsize: struct_calcsize,
}

CLASS_MODELS = {
    bytes: m_bytes,
    bytearray: m_bytearray,
    int: m_int,
    bool: m_bool,
    str: m_str,
    list: m_list,
    tuple: m_tuple,
    dict: m_dict,
    set: m_set,
    frozenset: m_set,
    range: m_range,
    type: m_type,
    enumerate: m_enumerate,
    zip: m_zip,
    reversed: m_reversed,
}


def m_map(ex, f, *its):
    lists = [ex.concrete_iter(i) for i in its]
    if any(l is None for l in lists):
        raise Unsupported('map over symbolic iterable')
    return ConcIter([ex.call(f, list(t), {}) for t in zip(*lists)])


def _m_operator(op):
    return lambda ex, a, b: M.binop(ex, op, a, b)


import operator as _operator  # noqa: E402
import secrets as _secrets  # noqa: E402


def m_token_bytes(ex, n=32):
    """secrets.token_bytes(n): any byte string of length n (fresh symbolic content)"""
    n = M.plain(n)
    if not isinstance(n, int):
        raise Unsupported('token_bytes with symbolic length')
    if n == 0:
        return b''
    units = []
    for i in range(n):
        b = z3.Int(ex.fresh_name(f'rnd[{i}]'))
        ex.add_def(z3.And(b >= 0, b <= 255))
        M.mark_byte(ex, b)
        units.append(z3.Unit(b))
    return mk_bytes(units[0] if n == 1 else z3.Concat(*units))


NATIVE_MODELS[_secrets.token_bytes] = m_token_bytes

NATIVE_MODELS[_operator.xor] = _m_operator(ast.BitXor())
NATIVE_MODELS[_operator.and_] = _m_operator(ast.BitAnd())
NATIVE_MODELS[_operator.or_] = _m_operator(ast.BitOr())
NATIVE_MODELS[_operator.add] = _m_operator(ast.Add())
NATIVE_MODELS[_operator.sub] = _m_operator(ast.Sub())
CLASS_MODELS[map] = m_map


def m_deque(ex, *args, **kw):
    maxlen = M.plain(kw.get('maxlen'))
    if maxlen is not None and (not isinstance(maxlen, int) or args):
        raise Unsupported('deque(iterable, maxlen) / symbolic maxlen')
    r = m_list(ex, *args)
    ex.wobj(r).flavor = 'deque'
    ex.wobj(r).maxlen = maxlen
    return r


def m_defaultdict(ex, *args, **kw):
    factory = args[0] if args else None
    r = m_dict(ex, *args[1:], **kw)
    ex.wobj(r).default_factory = factory
    return r


def m_event(ex):
    return ex.alloc(Obj(asyncio.Event, {'_flag': False}))


CLASS_MODELS[collections.deque] = m_deque
CLASS_MODELS[collections.defaultdict] = m_defaultdict
CLASS_MODELS[asyncio.Event] = m_event


def event_method(ex, recv, name, args):
    if name == 'set':
        ex.setattr(recv, '_flag', True)
        return None
    if name == 'clear':
        ex.setattr(recv, '_flag', False)
        return None
    if name == 'is_set':
        return ex.getattr(recv, '_flag')
    if name == 'wait':
        return None
    raise Unsupported(f'asyncio.Event.{name}')


LIB_METHODS = {asyncio.Event: event_method}


def _deep_conc(ex, a):
    """a value python itself can take as an argument of a native method: no symbolic part, no engine-level wrapper"""
    if isinstance(a, ConcIter):
        return False
    if isinstance(a, (tuple, list)):
        return all(_deep_conc(ex, x) for x in a)
    return ex.is_conc(a)


def call_native(ex, f, args, kwargs, node=None):
    # contract kwarg `stubs={native callable: Callback}`: a library function outside the kernel
    # (asyncio.wait_for, asyncio.create_task, ...) is replaced by a recorded callback (environment)
    stubs = getattr(getattr(ex.cfg, 'top', None), 'extra', {}).get('stubs')
    if stubs:
        try:
            cb = stubs.get(f)
        except TypeError:
            cb = None
        if cb is not None:
            return ex.call(ex.cfg.fresh(ex, cb, cb.name), args, kwargs, node)
    try:
        model = NATIVE_MODELS.get(f)
    except TypeError:
        model = None
    if model is not None:
        return model(ex, *args, **kwargs)
    if isinstance(f, functools.partial):
        # functools.partial(func, *a, **k)(*args, **kwargs) == func(*a, *args, **{**k, **kwargs})
        kw = {k: ex.import_native(v) for k, v in f.keywords.items()}
        kw.update(kwargs)
        return ex.call(ex.import_native(f.func), [ex.import_native(a) for a in f.args] + list(args), kw, node)
    if isinstance(f, NativeMethod):
        mod_ = getattr(f.raw, '__module__', '') or ''
        if getattr(f.raw, '__name__', '') == '__init__' and (mod_.startswith('pyee') or f.raw is object.__init__):
            return None  # event-emitter bookkeeping: environment
        if f.raw in (BaseException.__init__, Exception.__init__) and args and isinstance(args[0], Ref) and not kwargs:
            ex.setattr(args[0], 'args', tuple(args[1:]))  # BaseException.__init__(self, *args)
            return None
        raise Unsupported(f'native method {f.raw}')
    if isinstance(f, types.MethodType) and isinstance(f.__func__, types.FunctionType):
        fn = ex.func_of_native(f.__func__)
        if isinstance(fn, Func):
            return ex.call(fn, [f.__self__] + list(args), kwargs, node)
    if isinstance(f, types.FunctionType):
        # a plain function object reached through a reflected container (e.g. a lambda stored in a field spec)
        fn = ex.func_of_native(f)
        if isinstance(fn, Func):
            return ex.call(fn, args, kwargs, node)
    recv = getattr(f, '__self__', None)
    name = getattr(f, '__name__', None)
    if recv is not None and not isinstance(recv, types.ModuleType) and name:
        conc = all(_deep_conc(ex, a) for a in args) and all(_deep_conc(ex, a) for a in kwargs.values())
        if conc and (isinstance(recv, (int, str, bytes, tuple, frozenset, float, range, enum.Enum)) or isinstance(recv, type)):
            try:
                return ex.import_native(f(*args, **kwargs))
            except Exception as e:
                raise PyExc(e)
        if isinstance(recv, (dict, types.MappingProxyType)):
            if name == 'get':
                return M.native_dict_get(ex, recv, args[0], missing='default', default=args[1] if len(args) > 1 else None)
            if name in ('keys', 'values', 'items') and not args:
                return ConcIter([ex.import_native(x) if not isinstance(x, tuple) else tuple(ex.import_native(y) for y in x) for x in getattr(recv, name)()])
            raise Unsupported(f'method {name} of a reflected constant dict')
        if isinstance(recv, (list,)) and name in ('index', 'count', 'copy') and conc:
            return f(*args)
        return call_method(ex, recv, name, args, kwargs, node)
    if isinstance(f, Bound):
        return ex.call(f, args, kwargs, node)
    if callable(f) and all(ex.is_conc(a) for a in args) and all(ex.is_conc(a) for a in kwargs.values()):
        if ex.cfg.native_call_allowed(f):
            try:
                return ex.import_native(f(*args, **kwargs))
            except Exception as e:
                raise PyExc(e)
    if ex.skeleton:
        return ex.cfg.call_unknown(ex, Unknown(repr(f)), args, kwargs, node)
    raise Unsupported(f'call of native {f!r} with symbolic arguments')


# ---------------------------------------------------------------------------
# instantiation
# ---------------------------------------------------------------------------


def instantiate(ex, cls, args, kwargs, node=None):
    model = CLASS_MODELS.get(cls)
    if model is not None:
        return model(ex, *args, **kwargs)
    hook = ex.cfg.instantiate_hook(ex, cls, args, kwargs)
    if hook is not NotImplemented:
        return hook
    if isinstance(cls, type) and issubclass(cls, BaseException):
        o = ex.alloc(Obj(cls, {'args': tuple(args)}))
        owner, raw = class_lookup(cls, '__init__')
        if isinstance(raw, types.FunctionType) and raw.__module__.startswith('bumble'):
            f = ex.func_of_native(raw)
            f.cls = owner
            ex.run_func(f, [o] + list(args), kwargs)
        return o
    if isinstance(cls, type) and issubclass(cls, enum.Enum):
        return enum_call(ex, cls, args, kwargs)
    if isinstance(cls, type) and cls.__module__.startswith('bumble'):
        return instantiate_repo_class(ex, cls, args, kwargs, node)
    if all(ex.is_conc(a) for a in args) and all(ex.is_conc(a) for a in kwargs.values()) and ex.cfg.native_call_allowed(cls):
        try:
            return cls(*args, **kwargs)
        except Exception as e:
            raise PyExc(e)
    if ex.skeleton:
        return ex.cfg.call_unknown(ex, Unknown(repr(cls)), args, kwargs, node)
    raise Unsupported(f'instantiation of {cls!r}')


def enum_call(ex, cls, args, kwargs):
    v = M.plain(args[0]) if args else None
    if ex.is_conc(v):
        try:
            return cls(v)
        except ValueError as e:
            raise PyExc(e)
    if isinstance(v, Unknown):
        return v
    if not issubclass(cls, int):
        raise Unsupported('non-int enum of symbolic value')
    # enum-as-int: members are represented by their integer value
    is_open = issubclass(cls, enum.Flag) or '_missing_' in {k for c in cls.__mro__ for k in c.__dict__ if c is not enum.Enum and c is not enum.IntEnum and c is not enum.Flag and c is not enum.IntFlag}
    if is_open:
        return v
    members = sorted({int(m) for m in cls})
    if not ex.branch(ex.bool_or([M.equal(ex, v, m) for m in members])):
        ex.raise_(ValueError, 'not a valid enum value')
    return v


def instantiate_repo_class(ex, cls, args, kwargs, node):
    owner, raw_new = class_lookup(cls, '__new__')
    if owner is not object and owner is not None and not dataclasses.is_dataclass(cls):
        if isinstance(raw_new, (staticmethod, types.FunctionType)):
            raise Unsupported(f'{cls.__name__}.__new__')
    owner, raw = class_lookup(cls, '__init__')
    mdl = ex.cfg.class_model_for(cls)
    o = ex.alloc(Obj(cls, {}, mdl))
    if dataclasses.is_dataclass(cls) and isinstance(raw, types.FunctionType) and raw.__code__.co_filename == '<string>':
        # generated __init__: bind fields in order, defaults from the field objects
        flds = [f for f in dataclasses.fields(cls) if f.init]
        names = [f.name for f in flds]
        if len(args) > len(names):
            raise PyExc(TypeError('too many positional arguments'))
        vals = dict(zip(names, args))
        for k, v in kwargs.items():
            if k not in names or k in vals:
                raise PyExc(TypeError(f'unexpected argument {k}'))
            vals[k] = v
        for f in dataclasses.fields(cls):
            if f.name in vals:
                continue
            if not f.init and f.default_factory is dataclasses.MISSING:
                # the generated __init__ does not assign an init=False field without a default_factory:
                # a plain default stays a *class* attribute (which a subclass may override)
                continue
            if f.default is not dataclasses.MISSING:
                vals[f.name] = ex.import_native(f.default)
            elif f.default_factory is not dataclasses.MISSING:
                vals[f.name] = ex.call(ex.import_native(f.default_factory), [], {})
            elif f.init:
                raise PyExc(TypeError(f'missing argument {f.name}'))
        ex.wobj(o).fields.update(vals)
        pi_owner, pi = class_lookup(cls, '__post_init__')
        if isinstance(pi, types.FunctionType):
            f = ex.func_of_native(pi)
            f.cls = pi_owner
            ex.call(f, [o], {})
        return o
    if isinstance(raw, types.FunctionType):
        f = ex.func_of_native(raw)
        if isinstance(f, Func):
            f.cls = owner
            ex.call(f, [o] + list(args), kwargs, node)
            return o
    if owner is object or raw is object.__init__:
        if args or kwargs:
            raise PyExc(TypeError(f'{cls.__name__}() takes no arguments'))
        return o
    raise Unsupported(f'constructor of {cls!r}')
