"""Discharge of obligations: z3 first, cvc5 (CLI) on `unknown`."""
from __future__ import annotations

import os
import re
import subprocess
import tempfile
import time

import z3

from .values import BAObj, DObj, LObj, MObj, Obj, Ref, Sym, Frame

CVC5 = '/usr/bin/cvc5'


def _solver(timeout_ms, seed=0):
    s = z3.Solver()
    s.set('timeout', int(timeout_ms))
    s.set('random_seed', seed)
    return s


def to_cvc5_text(smt2):
    t = smt2
    t = t.replace('bv2int', 'bv2nat').replace('seq.nth_i', 'seq.nth').replace('seq.nth_u', 'seq.nth')
    t = t.replace('int_to_bv', 'int2bv').replace('ubv_to_int', 'bv2nat')
    t = re.sub(r'\(set-info [^)]*\)\n?', '', t)
    t = re.sub(r'\(_ (comp\d+) 0\)', r'\1', t)
    return '(set-logic ALL)\n' + t


def run_cvc5(smt2, timeout_ms):
    if not os.path.exists(CVC5):
        return 'unknown', 'cvc5 missing'
    with tempfile.NamedTemporaryFile('w', suffix='.smt2', delete=False) as f:
        f.write(to_cvc5_text(smt2))
        fn = f.name
    try:
        p = subprocess.run(
            [CVC5, '--lang=smt2', '--strings-exp', f'--tlimit={int(timeout_ms)}', fn],
            capture_output=True,
            text=True,
            timeout=timeout_ms / 1000 + 10,
        )
        out = (p.stdout or '').strip().splitlines()
        verdict = out[0].strip() if out else 'unknown'
        if verdict not in ('sat', 'unsat', 'unknown'):
            return 'unknown', (p.stdout + p.stderr)[:300]
        return verdict, ''
    except subprocess.TimeoutExpired:
        return 'unknown', 'cvc5 timeout'
    finally:
        try:
            os.unlink(fn)
        except OSError:
            pass


def discharge(ob, timeout_ms=20000, seed=0, both=False):
    """returns dict(status=proved|refuted|unknown, backend, time, model?)"""
    t0 = time.time()
    if ob.kind == 'xcheck':
        timeout_ms = min(timeout_ms, 4000)  # an optional sample: not worth the full budget when no model is found quickly
    s = _solver(timeout_ms, seed)
    for p in ob.pc:
        s.add(p)
    if ob.expect_sat:
        # bounded universal quantifiers over sequences: the solvers answer `unknown` on satisfiability; a model of
        # finitely many instances whose ranges it covers is a model (tried first: cheap when it applies)
        bm = bounded_instance_model(ob.pc, min(timeout_ms, 8000), seed)
        if bm is not None:
            out = {'status': 'proved', 'backend': 'z3-bounded-instances', 'time': time.time() - t0, 'detail': 'cover sat'}
            if ob.kind == 'xcheck':
                out['model'] = bm
            return out
        from .engine import has_quantifier

        if any(has_quantifier(p) for p in ob.pc):
            # quantified facts over sequences (membership-quantified invariants): z3 finds no model by itself, but
            # does when the sequences of records/tuples of the pre-state are empty (a stronger query: `sat` is conclusive)
            pre = ob.info.get('prestate')
            terms, seen = [], set()
            if pre is not None:
                for v in list(pre['env'].values()) + [pre['ghost']]:
                    _seq_syms(v, pre['heap'], terms, seen, only_structured=True)
            s1 = _solver(int(timeout_ms), seed)
            for p in ob.pc:
                s1.add(p)
            for t in terms:
                s1.add(t == z3.Empty(t.sort()))
            if s1.check() == z3.sat:
                return {'status': 'proved', 'backend': 'z3', 'time': time.time() - t0, 'detail': 'cover sat (with empty record lists)'}
        r = s.check()
        dt = time.time() - t0
        if r == z3.sat:
            out = {'status': 'proved', 'backend': 'z3', 'time': dt, 'detail': 'cover sat'}
            if ob.kind == 'xcheck':
                out['model'] = small_model(ob, s)
            return out
        if r == z3.unsat:
            return {'status': 'vacuous', 'backend': 'z3', 'time': dt}
        s0 = _solver(timeout_ms, seed)
        for p in ob.pc:
            s0.add(p)
        v, msg = run_cvc5(s0.to_smt2(), timeout_ms)
        dt = time.time() - t0
        if v == 'sat':
            return {'status': 'proved', 'backend': 'cvc5', 'time': dt, 'detail': 'cover sat'}
        if v == 'unsat':
            return {'status': 'vacuous', 'backend': 'cvc5', 'time': dt}
        return {'status': 'unknown', 'backend': 'z3+cvc5', 'time': dt, 'detail': 'cover undecided'}
    g = z3.simplify(ob.goal)
    if z3.is_true(g):
        return {'status': 'proved', 'backend': 'simplifier', 'time': time.time() - t0}
    s.add(z3.Not(ob.goal))
    # portfolio: z3 briefly, then cvc5 (far better on sequences), then z3 with the full budget
    first = min(int(timeout_ms), 2500)
    s.set('timeout', first)
    if os.environ.get('PYVC_DUMP') and os.environ['PYVC_DUMP'] in ob.name:
        # developer aid: keep the query of the obligations whose name contains $PYVC_DUMP
        with open(f'/tmp/pyvc-dump-{os.getpid()}-{abs(hash(ob.name + str(len(ob.pc)))) % 100000}.smt2', 'w') as f_:
            f_.write('; ' + ob.name + '\n' + s.to_smt2())
    r = s.check()
    smt2 = None
    if r == z3.unknown or both:
        # printed from a fresh solver: after check() the printer shows preprocessed internals
        sp = _solver(timeout_ms, seed)
        for p in ob.pc:
            sp.add(p)
        sp.add(z3.Not(ob.goal))
        smt2 = sp.to_smt2()
    res = None
    if r == z3.unsat:
        res = {'status': 'proved', 'backend': 'z3', 'time': time.time() - t0}
    elif r == z3.sat:
        res = {'status': 'refuted', 'backend': 'z3', 'time': time.time() - t0, 'model': small_model(ob, s)}
    if res is None and not both:
        from .engine import has_quantifier

        if any(has_quantifier(p) for p in ob.pc):
            # counter-model search under quantified hypotheses: give the lists of records of the pre-state an explicit
            # spine of 0..2 elements (membership then unfolds to equalities and z3 finds models); only `sat` is used
            pre = ob.info.get('prestate')
            terms, seen = [], set()
            if pre is not None:
                for v_ in list(pre['env'].values()) + [pre['ghost']]:
                    _seq_syms(v_, pre['heap'], terms, seen, only_structured=True)
            for n in ((0, 1, 2) if terms else ()):
                s1 = _solver(min(int(timeout_ms), 4000), seed)
                for p in ob.pc:
                    s1.add(p)
                s1.add(z3.Not(ob.goal))
                for ti, t in enumerate(terms):
                    es = [z3.Const(f'spine!{ti}!{j}', t.sort().basis()) for j in range(n)]
                    s1.add(t == (z3.Empty(t.sort()) if n == 0 else (z3.Unit(es[0]) if n == 1 else z3.Concat(*[z3.Unit(e) for e in es]))))
                if s1.check() == z3.sat:
                    res = {'status': 'refuted', 'backend': 'z3', 'time': time.time() - t0, 'model': s1.model(), 'detail': f'counter-model with record lists of length {n}'}
                    return res
    if res is None or both:
        # portfolio: cvc5 gets a short first slice unless both verdicts are wanted; if z3 with the full budget then
        # still does not decide, cvc5 is asked again with the full budget (stage 4 below)
        short_cvc5 = (not both) and timeout_ms > 6000
        v, msg = run_cvc5(smt2, 6000 if short_cvc5 else timeout_ms)
        if res is not None:
            if v in ('sat', 'unsat') and (v == 'unsat') != (res['status'] == 'proved'):
                return {'status': 'disagree', 'backend': 'z3+cvc5', 'time': time.time() - t0, 'detail': f'z3 says {res["status"]}, cvc5 says {v}'}
            if v in ('sat', 'unsat'):
                res['backend'] += '+cvc5'
            return res
        if v == 'unsat':
            return {'status': 'proved', 'backend': 'cvc5', 'time': time.time() - t0}
        # sat or unknown from cvc5: give z3 the full budget (also to obtain a model)
        s2 = _solver(timeout_ms if v != 'sat' else min(timeout_ms, 4000), seed + 7)
        for p in ob.pc:
            s2.add(p)
        s2.add(z3.Not(ob.goal))
        r2 = s2.check()
        if r2 == z3.unsat:
            if v == 'sat':
                return {'status': 'disagree', 'backend': 'z3+cvc5', 'time': time.time() - t0, 'detail': 'cvc5 says sat, z3 says unsat'}
            return {'status': 'proved', 'backend': 'z3', 'time': time.time() - t0}
        if r2 == z3.sat:
            return {'status': 'refuted', 'backend': 'z3' + ('+cvc5' if v == 'sat' else ''), 'time': time.time() - t0, 'model': small_model(ob, s2)}
        if v not in ('sat', 'unsat') and short_cvc5:
            v, msg = run_cvc5(smt2, timeout_ms)
            if v == 'unsat':
                return {'status': 'proved', 'backend': 'cvc5', 'time': time.time() - t0}
        if v == 'sat':
            out = {'status': 'refuted', 'backend': 'cvc5', 'time': time.time() - t0, 'detail': 'no model (cvc5 CLI); seed for the native search is a model of the path condition only'}
            s3 = _solver(3000, seed)
            for p in ob.pc:
                s3.add(p)
            if s3.check() == z3.sat:
                out['model'] = small_model(ob, s3)
                out['seed_only'] = True
            return out
        from .engine import has_quantifier

        if any(has_quantifier(p) for p in ob.pc):
            # last resort of the counter-model search: bounded universal quantifiers over sequences in the hypotheses
            # (representation invariants, callee postconditions) make both solvers answer `unknown` on a refutable goal
            # even when the goal itself is about scalars.  The finite-instance search that decides covers is asked for
            # a model of hypotheses + negated goal; it accepts a model only when every quantifier's range lies inside
            # the instantiated window, so the model satisfies the original formula: only `sat` is used
            bm = bounded_instance_model(list(ob.pc) + [z3.Not(ob.goal)], min(int(timeout_ms), 8000), seed)
            if bm is not None:
                return {'status': 'refuted', 'backend': 'z3-bounded-instances', 'time': time.time() - t0, 'model': bm,
                        'detail': 'counter-model with explicit short sequences and finitely many quantifier instances'}
        return {'status': 'unknown', 'backend': 'z3+cvc5', 'time': time.time() - t0, 'detail': f'z3: {s2.reason_unknown()}; cvc5: {msg or v}'}
    return res


def _match_bounded_forall(f):
    """f == ForAll([i], Implies(And(lo <= i, i < hi, ...), body)) (the shape seqspec._quant builds, possibly rewritten by
    the simplifier to Or(Not(And(..)), body)) -> (lo, hi) else None"""
    if not (z3.is_quantifier(f) and f.is_forall() and f.num_vars() == 1 and f.var_sort(0) == z3.IntSort()):
        return None
    b = f.body()
    cands = []
    if z3.is_app(b) and b.decl().kind() == z3.Z3_OP_IMPLIES:
        cands.append(b.arg(0))
    elif z3.is_app(b) and b.decl().kind() == z3.Z3_OP_OR:
        for c in b.children():
            if z3.is_app(c) and c.decl().kind() == z3.Z3_OP_NOT:
                cands.append(c.arg(0))
    for g in cands:
        r = _range_of_guard(g)
        if r is not None:
            return r
    return None


def _range_of_guard(g):
    conj = g.children() if z3.is_app(g) and g.decl().kind() == z3.Z3_OP_AND else [g]
    lo = hi = None
    for c in conj:
        neg = False
        if z3.is_app(c) and c.decl().kind() == z3.Z3_OP_NOT:
            neg, c = True, c.arg(0)
        if not z3.is_app(c) or c.num_args() != 2:
            continue
        k = c.decl().kind()
        a0, a1 = c.arg(0), c.arg(1)
        if not neg:
            if k == z3.Z3_OP_LE and z3.is_var(a1) and lo is None and not _has_var(a0):
                lo = a0  # lo <= i
            elif k == z3.Z3_OP_GE and z3.is_var(a0) and lo is None and not _has_var(a1):
                lo = a1  # i >= lo
            elif k == z3.Z3_OP_LT and z3.is_var(a0) and hi is None and not _has_var(a1):
                hi = a1  # i < hi
            elif k == z3.Z3_OP_GT and z3.is_var(a1) and hi is None and not _has_var(a0):
                hi = a0  # hi > i
        else:
            if k == z3.Z3_OP_LE and z3.is_var(a1) and hi is None and not _has_var(a0):
                hi = a0  # not (hi <= i)
            elif k == z3.Z3_OP_GE and z3.is_var(a0) and hi is None and not _has_var(a1):
                hi = a1  # not (i >= hi)
    if lo is None or hi is None:
        return None
    return lo, hi


def _has_var(t):
    stack = [t]
    while stack:
        x = stack.pop()
        if z3.is_var(x):
            return True
        if z3.is_app(x):
            stack.extend(x.children())
    return False


def _top_conjuncts(f):
    if z3.is_app(f) and f.decl().kind() == z3.Z3_OP_AND:
        out = []
        for c in f.children():
            out.extend(_top_conjuncts(c))
        return out
    return [f]


def bounded_instance_model(pc, timeout_ms, seed=0, window=5, max_len=3):
    """satisfiability of a path condition with bounded universal quantifiers (`forall(lo, hi, f)` of the clause
    language), which the solvers answer `unknown` on over sequences: every such quantifier is replaced by its instances
    at -1 .. window, all sequence constants are limited to max_len elements, and a model of that *weaker* formula is
    accepted only if the range [lo, hi) of every replaced quantifier lies inside the instantiated window in the model
    (then every instance that matters was asserted, so the model satisfies the original formula).  Returns the
    model or None."""
    flat = []
    for p in pc:
        flat.extend(_top_conjuncts(p))
    qs = []
    rest = []
    for f in flat:
        if z3.is_quantifier(f):
            m = _match_bounded_forall(f)
            if m is None:
                return None
            qs.append((f, m[0], m[1]))
        else:
            # a quantifier below a connective: give up (polarity unknown)
            stack = [f]
            seen = set()
            while stack:
                t = stack.pop()
                if t.get_id() in seen:
                    continue
                seen.add(t.get_id())
                if z3.is_quantifier(t):
                    return None
                if z3.is_app(t):
                    stack.extend(t.children())
            rest.append(f)
    if not qs:
        return None
    consts = {}
    seen = set()
    stack = list(rest) + [f.body() for f, _, _ in qs]
    while stack:
        t = stack.pop()
        if t.get_id() in seen:
            continue
        seen.add(t.get_id())
        if z3.is_const(t) and t.decl().kind() == z3.Z3_OP_UNINTERPRETED and t.sort().kind() == z3.Z3_SEQ_SORT:
            consts[t.get_id()] = t
        if z3.is_app(t):
            stack.extend(t.children())
    # make the sequences explicit: every sequence constant becomes a concatenation of fresh elements -- n of them
    # (n = 1, 0, 2), none for constants that a conjunct says are empty, the same number for constants a conjunct says
    # have equal lengths -- so that the instantiated problem is (almost) ground; a model of it is a model of the original
    ids = list(consts)
    parent = {i: i for i in ids}

    def find(i):
        while parent[i] != i:
            parent[i] = parent[parent[i]]
            i = parent[i]
        return i

    def len_of_const(t):
        if z3.is_app(t) and t.decl().kind() == z3.Z3_OP_SEQ_LENGTH and t.arg(0).get_id() in consts:
            return t.arg(0).get_id()
        return None

    forced = {}
    for f in rest:
        if not (z3.is_app(f) and f.decl().kind() == z3.Z3_OP_EQ):
            continue
        a, b = f.arg(0), f.arg(1)
        la, lb = len_of_const(a), len_of_const(b)
        if la is not None and lb is not None:
            parent[find(la)] = find(lb)
        elif la is not None and z3.is_int_value(b):
            forced[la] = b.as_long()
        elif lb is not None and z3.is_int_value(a):
            forced[lb] = a.as_long()
        else:
            for x, y in ((a, b), (b, a)):
                if x.get_id() in consts and z3.is_app(y) and y.decl().kind() == z3.Z3_OP_SEQ_EMPTY:
                    forced[x.get_id()] = 0
    for n in (1, 0, 2):
        cnt = [0]
        glen = {}
        for i, v in forced.items():
            glen[find(i)] = v

        def explicit(sort, k, depth=0):
            es = sort.basis()
            elems = []
            for _ in range(k):
                cnt[0] += 1
                if es.kind() == z3.Z3_SEQ_SORT and depth < 2:
                    elems.append(explicit(es, n, depth + 1))
                else:
                    elems.append(z3.Const(f'bi!e{cnt[0]}', es))
            if not elems:
                return z3.Empty(sort)
            units = [z3.Unit(e) for e in elems]
            return units[0] if len(units) == 1 else z3.Concat(*units)

        sub = [(c, explicit(c.sort(), min(glen.get(find(i), n), 4))) for i, c in consts.items()]
        win = max([n] + [min(v, 4) for v in glen.values()]) + 1
        inst = list(rest)
        for f, lo, hi in qs:
            for v in range(-1, win + 1):
                inst.append(z3.substitute_vars(f.body(), z3.IntVal(v)))
            inst.append(lo >= -1)
            inst.append(hi <= win + 1)
        s = _solver(max(1500, timeout_ms // 3), seed)
        for g in inst:
            s.add(z3.simplify(z3.substitute(g, *sub)))
        r_ = s.check()
        if os.environ.get('PYVC_DEBUG_BI'):
            print(f'[bounded-instances] n={n} forced={len(forced)} quantifiers={len(qs)} consts={len(consts)} -> {r_} {s.reason_unknown() if r_ == z3.unknown else ""}', flush=True)
        if r_ != z3.sat:
            continue
        m = s.model()
        # a model over the original constants: pin every sequence constant to its explicit value
        s2 = _solver(max(1500, timeout_ms // 3), seed)
        for g in inst:
            s2.add(g)
        for c, v in sub:
            s2.add(c == z3.simplify(m.eval(v, model_completion=True)))
        if s2.check() == z3.sat:
            return s2.model()
    return None


def _seq_syms(v, heap, out, seen, only_structured=False):
    if only_structured:
        # sequences of records / tuples / opaque identities only (not byte strings, not lists of ints)
        def walk(x):
            if isinstance(x, Sym):
                if isinstance(x.k, tuple) and x.k[0] == 'seq' and isinstance(x.k[1], tuple):
                    out.append(x.t)
            elif isinstance(x, tuple):
                for y in x:
                    walk(y)
            elif isinstance(x, Ref) and x.oid not in seen and x.oid in heap:
                seen.add(x.oid)
                o = heap[x.oid]
                if isinstance(o, LObj):
                    if o.items is not None:
                        for y in o.items:
                            walk(y)
                    elif o.sym is not None:
                        walk(o.sym)
                elif isinstance(o, Obj):
                    for y in o.fields.values():
                        walk(y)

        walk(v)
        return
    if isinstance(v, Sym):
        if v.k == 'bytes' or (isinstance(v.k, tuple) and v.k[0] == 'seq'):
            out.append(v.t)
    elif isinstance(v, tuple):
        for x in v:
            _seq_syms(x, heap, out, seen)
    elif isinstance(v, Ref):
        if v.oid in seen or v.oid not in heap:
            return
        seen.add(v.oid)
        o = heap[v.oid]
        if isinstance(o, BAObj):
            _seq_syms(o.val, heap, out, seen)
        elif isinstance(o, LObj):
            if o.items is not None:
                for x in o.items:
                    _seq_syms(x, heap, out, seen)
            elif o.sym is not None:
                out.append(o.sym.t)
        elif isinstance(o, Obj):
            for x in o.fields.values():
                _seq_syms(x, heap, out, seen)


def small_model(ob, s):
    """after sat: prefer a model with short sequences in the pre-state (readable, fast to
    concretise); falls back to the solver's first model"""
    m = s.model()
    pre = ob.info.get('prestate')
    if pre is None:
        return m
    terms, seen = [], set()
    for v in list(pre['env'].values()) + [pre['ghost']]:
        _seq_syms(v, pre['heap'], terms, seen)
    head = ob.info.get('headstate')
    if head is not None:
        for v in list(head['env'].values()):
            _seq_syms(v, head['heap'], terms, seen)
    if not terms:
        return m
    try:
        for bound in (6, 40, 600):
            s.push()
            s.set('timeout', 1500)
            for t in terms:
                s.add(z3.Length(t) <= bound)
            r = s.check()
            if r == z3.sat:
                m = s.model()
                s.pop()
                break
            s.pop()
    except z3.Z3Exception:
        pass
    return m


# ---------------------------------------------------------------------------
# model -> concrete pre-state
# ---------------------------------------------------------------------------


def model_value(model, v, heap, memo=None):
    """concretise an engine value under a z3 model into a plain python
    description (ints, bools, bytes, lists, dicts {'__obj__': cls, fields})"""
    if memo is None:
        memo = {}
    if type(v).__name__ == 'LazyVal':
        lz = memo.get('__lazy__', {})
        if v.lid in lz:
            return model_value(model, lz[v.lid], heap, memo)
        o = v.options[0]
        return o if not hasattr(o, '__dict__') or isinstance(o, tuple) else None
    if isinstance(v, Sym):
        return eval_term(model, v.t, v.k)
    if isinstance(v, tuple):
        return tuple(model_value(model, x, heap, memo) for x in v)
    if isinstance(v, Ref):
        if v.oid in memo:
            return memo[v.oid]
        o = heap[v.oid]
        if isinstance(o, BAObj):
            r = {'__bytearray__': model_value(model, o.val, heap, memo)}
        elif isinstance(o, LObj):
            if o.items is not None:
                items = [model_value(model, x, heap, memo) for x in o.items]
            else:
                items = model_value(model, o.sym, heap, memo)
            r = {'__list__': items, 'flavor': o.flavor}
            if getattr(o, 'maxlen', None) is not None:
                r['maxlen'] = o.maxlen
        elif isinstance(o, DObj):
            r = {'__dict__': [(model_value(model, getattr(k, 'sym', k), heap, memo), model_value(model, x, heap, memo)) for k, x in o.items.items()]}
        elif isinstance(o, MObj):
            r = {'__map__': map_value(model, o)}
        elif hasattr(o, 'ext_model'):
            r = o.ext_model(lambda x: model_value(model, x, heap, memo))
        elif isinstance(o, Obj):
            r = {'__obj__': o.model.name if o.model is not None else ((o.cls.__module__ + ':' + o.cls.__qualname__) if o.cls is not None else None), 'fields': {}}
            memo[v.oid] = r
            for n, x in o.fields.items():
                r['fields'][n] = model_value(model, x, heap, memo)
        else:
            r = None
        memo[v.oid] = r
        return r
    if type(v).__name__ == 'ElemRef':
        # reference to a record of a symbolic map: the key (the records themselves are in the map's description)
        return {'__rec__': eval_term(model, v.key.t, 'int') if isinstance(v.key, Sym) else v.key}
    if type(v).__name__ == 'CallbackVal':
        return {'__callback__': v.name}
    if type(v).__name__ in ('Func', 'Bound', 'Builtin', 'OpaqueStr', 'Unknown'):
        return {'__opaque__': repr(v)}
    return v


def eval_term(model, t, kind):
    from .values import ext_kind

    if ext_kind(kind) is not None:
        return ext_kind(kind).eval_term(model, t, kind, eval_term)
    if isinstance(kind, tuple) and kind[0] == 'opq':
        r = model.eval(t, model_completion=True)
        # an opaque object identity: rebuilt natively as a unique (truthy, hashable) token per id
        return {'__opq__': [str(kind[1]), r.as_long() if z3.is_int_value(r) else 0]}
    if kind == 'int' or (isinstance(kind, tuple) and kind[0] == 'rec'):
        r = model.eval(t, model_completion=True)
        return r.as_long() if z3.is_int_value(r) else 0
    if kind == 'bool':
        return z3.is_true(model.eval(t, model_completion=True))
    if kind == 'bytes':
        from .engine import conc_bytes

        v = model.eval(t, model_completion=True)
        cb = conc_bytes(z3.simplify(v))
        if cb is not None:
            return cb
    if kind == 'bytes' or (isinstance(kind, tuple) and kind[0] == 'seq'):
        n = model.eval(z3.Length(t), model_completion=True)
        n = n.as_long() if z3.is_int_value(n) else 0
        n = min(n, 4096)
        ek = 'int' if kind == 'bytes' else kind[1]
        items = [eval_term(model, z3.simplify(t[z3.IntVal(i)]), ek) for i in range(n)]
        if kind == 'bytes':
            return bytes(x & 0xFF for x in items)
        return items
    if isinstance(kind, tuple) and kind[0] == 'tup':
        from .values import tuple_parts

        sort, mk, projs = tuple_parts(kind)
        return tuple(eval_term(model, p(t), k) for p, k in zip(projs, kind[1]))
    return None


def map_value(model, o):
    """finite part of a symbolic map relevant in the model: keys named by
    store/select terms are not enumerable in general; evaluate the domain array
    as a function graph"""
    dom = model.eval(o.dom, model_completion=True)
    # an integer constant the model leaves unassigned evaluates to 0 under model completion (that is what the
    # rebuilt pre-state uses for it), so 0 is always a candidate key
    keys = {0}
    # candidate keys: every integer constant of the model (parameters, havoc'd locals, ...)
    try:
        for d in model.decls():
            if d.arity() == 0 and d.range() == z3.IntSort():
                v = model[d]
                if z3.is_int_value(v):
                    keys.add(v.as_long())
            elif d.arity() == 0 and d.range() == z3.SeqSort(z3.IntSort()):
                # keys also travel in sequences (lists of record references)
                t = d()
                n = model.eval(z3.Length(t), model_completion=True)
                for i in range(min(n.as_long() if z3.is_int_value(n) else 0, 64)):
                    v = model.eval(t[z3.IntVal(i)], model_completion=True)
                    if z3.is_int_value(v):
                        keys.add(v.as_long())
    except z3.Z3Exception:
        pass
    _array_keys(dom, keys)
    for n, (arr, k, d) in o.cols.items():
        _array_keys(model.eval(arr, model_completion=True), keys)
    out = {}
    for key in sorted(keys):
        kv = z3.IntVal(key)
        if z3.is_true(model.eval(z3.Select(o.dom, kv), model_completion=True)):
            out[key] = {n: eval_term(model, z3.Select(arr, kv), k) for n, (arr, k, d) in o.cols.items()}
    return out


def _array_keys(a, keys):
    try:
        while z3.is_store(a):
            k = a.arg(1)
            if z3.is_int_value(k):
                keys.add(k.as_long())
            a = a.arg(0)
        if z3.is_as_array(a):
            pass
    except Exception:
        pass


# ---------------------------------------------------------------------------
# parallel discharge (fork: children see the parent's z3 terms by index)
# ---------------------------------------------------------------------------

_OBS = None
_CFG = None
_GROUPS = None


def _concretise(ob, r):
    m = r.pop('model', None)
    if m is not None:
        pre = ob.info.get('prestate')
        if pre is not None:
            try:
                memo = {'__lazy__': pre.get('lazy', {})}
                r['cex'] = {
                    'env': {n: model_value(m, v, pre['heap'], memo) for n, v in pre['env'].items()},
                    'ghost': model_value(m, pre['ghost'], pre['heap'], memo),
                }
                head = ob.info.get('headstate')
                if head is not None:
                    memo2 = {'__lazy__': head.get('lazy', {})}
                    r['cex_head'] = {
                        'env': {n: model_value(m, v, head['heap'], memo2) for n, v in head['env'].items() if not n.startswith('__')},
                        'ghost': model_value(m, head['ghost'], head['heap'], memo2),
                    }
            except Exception as e:  # concretisation is best effort
                r['cex_error'] = repr(e)
    return r


def _work_one(i):
    """run the discharge of obligation i in a forked child under a hard wall-clock
    limit (z3's sequence solver does not always honour its own timeout)"""
    import os
    import pickle
    import select
    import signal

    if not os.environ.get('PYVC_HARD_GUARD'):
        # fork per obligation costs more than it saves; opt-in only
        return _work_one_inner(i)
    limit = _CFG['timeout_ms'] / 1000.0 * 2 + 20
    rfd, wfd = os.pipe()
    pid = os.fork()
    if pid == 0:
        try:
            os.close(rfd)
            r = _work_one_inner(i)
            data = pickle.dumps(r)
            with os.fdopen(wfd, 'wb') as f:
                f.write(data)
        except BaseException as e:  # noqa: BLE001
            try:
                with os.fdopen(wfd, 'wb') as f:
                    f.write(pickle.dumps({'status': 'unknown', 'backend': '?', 'time': 0.0, 'detail': f'discharge crashed: {e!r}'}))
            except Exception:
                pass
        finally:
            os._exit(0)
    os.close(wfd)
    chunks = []
    t_end = time.time() + limit
    timed_out = False
    with os.fdopen(rfd, 'rb') as f:
        while True:
            left = t_end - time.time()
            if left <= 0:
                timed_out = True
                break
            rl, _, _ = select.select([f], [], [], left)
            if not rl:
                timed_out = True
                break
            b = os.read(f.fileno(), 1 << 20)
            if not b:
                break
            chunks.append(b)
    if timed_out:
        try:
            os.kill(pid, signal.SIGKILL)
        except OSError:
            pass
    try:
        os.waitpid(pid, 0)
    except OSError:
        pass
    if timed_out or not chunks:
        return {'status': 'unknown', 'backend': 'z3+cvc5', 'time': limit, 'detail': 'hard wall-clock limit hit (solver ignored its time limit)'}
    try:
        return pickle.loads(b''.join(chunks))
    except Exception as e:  # noqa: BLE001
        return {'status': 'unknown', 'backend': '?', 'time': 0.0, 'detail': f'result not transferable: {e!r}'}


def _work_one_inner(i):
    ob = _OBS[i]
    try:
        r = discharge(ob, _CFG['timeout_ms'], _CFG.get('seed', 0), _CFG.get('both', False))
    except z3.Z3Exception as e:
        return {'status': 'unknown', 'backend': 'z3', 'time': 0.0, 'detail': f'z3 exception {e}'}
    return _concretise(ob, r)


def _work(gi):
    grp = _GROUPS[gi]
    if len(grp) > 1:
        obs = [_OBS[i] for i in grp]
        gids = {id(o.goal) for o in obs}
        pc = [p for p in obs[-1].pc if id(p) not in gids]
        from .engine import Obligation

        conj = Obligation('group', 'group', pc, z3.And(*[o.goal for o in obs]))
        try:
            r = discharge(conj, _CFG['timeout_ms'], _CFG.get('seed', 0), False)
        except z3.Z3Exception:
            r = {'status': 'unknown'}
        if r['status'] == 'proved':
            t = r['time'] / len(grp)
            return [(i, {'status': 'proved', 'backend': r['backend'] + '(grouped)', 'time': t}) for i in grp]
    return [(i, _work_one(i)) for i in grp]


def make_groups(obligations, max_group=1):
    groups = []
    cur = []
    for i, ob in enumerate(obligations):
        ok = False
        if cur and not ob.expect_sat and len(cur) < max_group:
            prev = obligations[cur[-1]]
            if prev.info.get('decisions') == ob.info.get('decisions') and not prev.expect_sat and len(ob.pc) >= len(prev.pc):
                defs = ob.info.get('def_ids', ())
                extra = ob.pc[len(prev.pc):]
                if all(id(p) in defs or p is prev.goal for p in extra) and all(a is b for a, b in zip(prev.pc[-3:], ob.pc[len(prev.pc) - 3:len(prev.pc)])):
                    ok = True
        if ok:
            cur.append(i)
        else:
            if cur:
                groups.append(cur)
            cur = [i]
    if cur:
        groups.append(cur)
    return groups


def discharge_all(obligations, timeout_ms=20000, procs=14, seed=0, both=False):
    import multiprocessing as mp

    global _OBS, _CFG, _GROUPS
    _OBS = obligations
    _CFG = {'timeout_ms': timeout_ms, 'seed': seed, 'both': both}
    if not obligations:
        return []
    _GROUPS = make_groups(obligations) if not both else [[i] for i in range(len(obligations))]
    out = [None] * len(obligations)
    if not both:
        # goals that the simplifier already reduces to true need neither a solver nor a worker process
        rest = []
        for grp in _GROUPS:
            if len(grp) == 1 and not obligations[grp[0]].expect_sat and z3.is_true(z3.simplify(obligations[grp[0]].goal)):
                out[grp[0]] = {'status': 'proved', 'backend': 'simplifier', 'time': 0.0}
            else:
                rest.append(grp)
        _GROUPS = rest
        if not _GROUPS:
            return out
    if procs <= 1 or len(_GROUPS) < 4:
        for gi in range(len(_GROUPS)):
            for i, r in _work(gi):
                out[i] = r
        return out
    ctx = mp.get_context('fork')
    with ctx.Pool(min(procs, len(_GROUPS))) as pool:
        for lst in pool.imap_unordered(_work, range(len(_GROUPS)), chunksize=2):
            for i, r in lst:
                out[i] = r
    return out
