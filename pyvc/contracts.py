"""Sidecar contract language: type descriptors, class models, contracts.

A contract file (under /verif/contracts) is a plain Python module that calls
`model(...)`, `contract(...)`, `lemma(...)`.  Clauses are real Python functions
(or lambdas): the verifier executes their AST symbolically, the replay executes
them natively on real objects, so a clause has one meaning for both.
"""
from __future__ import annotations

# ---------------------------------------------------------------------------
# type descriptors (for pre-state construction and havoc)
# ---------------------------------------------------------------------------


class T:
    pass


class _Scalar(T):
    def __init__(self, name):
        self.name = name

    def __repr__(self):
        return self.name


Int = _Scalar('Int')
Bool = _Scalar('Bool')
Bytes = _Scalar('Bytes')
ByteArray = _Scalar('ByteArray')
Str = _Scalar('Str')  # opaque string
Any = _Scalar('Any')  # opaque, never inspected (Unknown)


class IntRange(T):
    """Int with lo <= v <= hi assumed (a *type* invariant, e.g. a wire field)."""

    def __init__(self, lo, hi):
        self.lo, self.hi = lo, hi

    def __repr__(self):
        return f'IntRange({self.lo},{self.hi})'


class BytesN(T):
    """byte string of concrete length n with symbolic content (n fresh bytes 0..255)"""

    def __init__(self, n):
        self.n = n

    def __repr__(self):
        return f'BytesN({self.n})'


class OneOf(T):
    def __init__(self, *values):
        self.values = list(values)

    def __repr__(self):
        return f'OneOf({self.values})'


class Opt(T):
    def __init__(self, t):
        self.t = t


class Const(T):
    def __init__(self, value):
        self.value = value


class Inst(T):
    """Instance of a modelled class (by model name 'module:QualName')."""

    def __init__(self, name, **overrides):
        self.name = name
        self.overrides = overrides


class Opaque(T):
    """Object whose identity is all that matters."""

    def __init__(self, tag):
        self.tag = tag


class Rec(T):
    """Reference to a record living in the symbolic map `MapOf(elem)` held in a ghost field (the *record heap*
    of that class): usable as element type of ListOf (a symbolic-length list of objects with identity) and as
    a parameter type (an arbitrary existing record)."""

    def __init__(self, elem):
        self.elem = elem


class Callback(T):
    """Opaque callable; `effect(ghost, *args)` is ghost code run at each call;
    `returns` a type for the result (default None); `raises` exception classes
    the ghost effect may raise into the calling code."""

    def __init__(self, name, effect=None, returns=None, raises=(), is_async=False, with_self=False):
        self.name = name
        self.effect = effect
        self.returns = returns
        self.raises = tuple(raises)
        self.is_async = is_async
        self.with_self = with_self  # as a model *method*: the effect is called as effect(ghost, receiver, *args)


class ListOf(T):
    """list with symbolic spine of elements of scalar type t."""

    def __init__(self, t, flavor='list', maxlen=None):
        self.t = t
        self.flavor = flavor
        self.maxlen = maxlen  # collections.deque(maxlen=n): len <= n is a type invariant, append on a full deque drops the left end


def DequeOf(t, maxlen=None):
    return ListOf(t, 'deque', maxlen)


class TupleOf(T):
    def __init__(self, *ts):
        self.ts = ts


class ConcList(T):
    """list with a concrete spine of n fresh elements of type t."""

    def __init__(self, t, n, flavor='list', maxlen=None):
        self.t, self.n, self.flavor, self.maxlen = t, n, flavor, maxlen


class EmptyDict(T):
    def __init__(self, default_factory=None):
        self.default_factory = default_factory


class MapOf(T):
    """dict from symbolic int keys to records of model `elem` (struct of arrays).
    `key=Opaque(tag)`: the keys are objects known only by identity (the symbolic side is unchanged -- an opaque
    value *is* an integer id --; a native rebuild keys the dict by the same tokens that stand for Opaque(tag) values)."""

    def __init__(self, elem, default_factory=False, key=None):
        self.elem = elem
        self.default_factory = default_factory
        self.key = key


class ExtT(T):
    """Extension point: a type descriptor defined outside the core; `fresh(cfg, path, hint)` builds the value."""

    def fresh(self, cfg, path, hint):
        raise NotImplementedError


class Event(T):
    """asyncio.Event with symbolic flag."""


# ---------------------------------------------------------------------------
# registry
# ---------------------------------------------------------------------------


class ClassModel:
    def __init__(self, name, fields, methods=None, build=None, snapshot=None, cls_attrs=None):
        self.name = name
        self.fields = fields
        self.methods = methods or {}
        self.build = build  # native builder hook: build(values:dict, callbacks) -> real object
        self.snapshot = snapshot
        self.cls_attrs = cls_attrs or {}


class Contract:
    def __init__(self, target, **kw):
        self.target = target  # 'module:QualName'
        self.params = kw.pop('params', {})  # name -> T (incl. self)
        self.ghost = kw.pop('ghost', {})  # name -> T
        self.requires = kw.pop('requires', None)  # fn(**params, ghost) -> bool | [bool]
        self.ensures = kw.pop('ensures', None)  # fn(**params, res, old, ghost) -> [bool]
        self.raises = kw.pop('raises', {})  # exc class -> fn(**params, exc, old, ghost) -> [bool]
        self.modifies = kw.pop('modifies', [])  # ['self.x', 'ghost.y', ...]
        self.returns = kw.pop('returns', None)  # T for the result at call sites
        self.invariants = kw.pop('invariants', {})  # loop ordinal -> fn(locals..., old, ghost)
        self.decreases = kw.pop('decreases', {})  # loop ordinal -> fn(locals...) -> int
        self.loop_locals = kw.pop('loop_locals', {})  # loop ordinal -> {name: T}
        self.inline = kw.pop('inline', [])  # qualnames allowed to be executed in place
        self.uses = kw.pop('uses', [])  # contracts of callees that may be used
        self.profile = kw.pop('profile', 'value')
        self.prop = kw.pop('prop', None)
        self.note = kw.pop('note', '')
        self.ensures_names = kw.pop('ensures_names', None)
        self.trusted = kw.pop('trusted', False)  # contract assumed, body not verified
        self.pure_reads = kw.pop('pure_reads', False)
        self.native_setup = kw.pop('native_setup', None)
        self.extra = kw
        self.module = None  # sidecar module (for globals)


class Lemma:
    """Ghost driver: a Python function in the sidecar, verified like code, that
    may call real functions only through their contracts."""

    def __init__(self, name, fn, **kw):
        self.name = name
        self.fn = fn
        self.params = kw.pop('params', {})
        self.ghost = kw.pop('ghost', {})
        self.requires = kw.pop('requires', None)
        self.ensures = kw.pop('ensures', None)
        self.ensures_names = kw.pop('ensures_names', None)
        self.invariants = kw.pop('invariants', {})
        self.decreases = kw.pop('decreases', {})
        self.loop_locals = kw.pop('loop_locals', {})
        self.uses = kw.pop('uses', [])
        self.inline = kw.pop('inline', [])
        self.prop = kw.pop('prop', None)
        self.modifies = kw.pop('modifies', ['*'])
        self.raises = {}
        self.native_setup = kw.pop('native_setup', None)
        self.extra = kw
        self.module = None


class Registry:
    def __init__(self):
        self.models: dict[str, ClassModel] = {}
        self.contracts: dict[str, Contract] = {}
        self.lemmas: dict[str, Lemma] = {}
        self.by_prop: dict[str, list] = {}

    def model(self, name, fields, **kw):
        m = ClassModel(name, fields, **kw)
        self.models[name] = m
        return m

    def contract(self, target, **kw):
        key = kw.pop('key', None) or target
        c = Contract(target, **kw)
        c.key = key
        self.contracts[key] = c
        if c.prop:
            self.by_prop.setdefault(c.prop, []).append(c)
        return c

    def lemma(self, name, fn, **kw):
        l = Lemma(name, fn, **kw)
        self.lemmas[name] = l
        if l.prop:
            self.by_prop.setdefault(l.prop, []).append(l)
        return l


REG = Registry()
model = REG.model
contract = REG.contract
lemma = REG.lemma


# ---------------------------------------------------------------------------
# spec helpers with a native meaning (the symbolic meaning is in the executor)
# ---------------------------------------------------------------------------


def forall(lo, hi, f):
    return all(f(i) for i in range(lo, hi))


def exists(lo, hi, f):
    return any(f(i) for i in range(lo, hi))


_ORIGIN = {}  # id(entry copy) -> live object (filled by replay.snapshot)
_KEEP = []


def same(a, b):
    """object identity that also works across `old`: natively the entry snapshot holds copies, so `old.x is y`
    would always be false; same(old.x, y) asks whether y is the object that x was at entry"""
    return _ORIGIN.get(id(a), a) is _ORIGIN.get(id(b), b)


def forall_in(seq, f):
    """f holds of every element of the sequence (symbolically quantified over the element value, `e in seq`, rather
    than over the index: cheap for append / freshness reasoning)"""
    return all(f(x) for x in seq)


def implies(a, b):
    return (not a) or bool(b)


def iff(a, b):
    return bool(a) == bool(b)


def ite(c, a, b):
    return a if c else b


def as_bytes(x):
    return bytes(x)


def isnone(x):
    return x is None


def at(seq, i):
    """element i of a sequence, total: 0 outside the bounds natively, an
    unspecified value symbolically (clauses must guard the index)"""
    return seq[i] if 0 <= i < len(seq) else 0


def mhas(m, k):
    """is k a key of the dict m"""
    return k in m


def mget(m, k, name):
    """field `name` of the record stored under k (asyncio.Event fields read as their flag);
    only meaningful when mhas(m, k)"""
    if k not in m:
        return 0
    v = getattr(m[k], name)
    return v.is_set() if hasattr(v, 'is_set') else v


def rec_live(x):
    """is the record reference x an allocated object of its record heap (natively: every real object is)"""
    return True


NATIVE_UF = {}


def uf(name, *args):
    """application of the pure function `name` (symbolically an uninterpreted function:
    only determinism is known; natively the registered real function)"""
    return NATIVE_UF[name](*args)


def ufb(name, n, *args):
    """bytes-valued application of the pure function `name`, result of length n (symbolically an
    uninterpreted function into byte strings of that length; natively the registered real function)"""
    r = NATIVE_UF[name](*args)
    assert len(r) == n
    return r


def fresh_int():
    """ghost havoc (only meaningful symbolically)."""
    return 0
