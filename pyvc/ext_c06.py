"""PyVC extension for C06 (virtual link / controller connection tables).

Everything is registered from the outside (no edit of the core files); it becomes active when a contract file imports
this module.  Every wrapper defers to the original function for the values it does not own.

What is added (all for *symbolic maps*, `MapOf(record)` = a dict of unknown size from scalar keys to records):

* `m[k] = record`  -- storing a whole record object into a symbolic map: the modelled columns are copied from the
  object's fields.  The object is *absorbed*: any later write to one of its fields is Unsupported (CPython would alias
  the dict entry and the local variable; reads stay exact because nothing can change either copy unnoticed --
  writes through the map entry after an absorb of the same object are refused as well).
* `m.values()`  -- a view object.  `for v in m.values():` is the invariant rule over an *arbitrary enumeration order*:
  the local `_seen` is the set of keys already visited (a key-only symbolic map: use `mhas(_seen, k)`), each
  iteration picks some key of the map that is not in `_seen`; the loop ends when every key has been visited.
  Changing the key set of the map inside the loop is Unsupported (CPython raises RuntimeError).
* `itertools.chain(v1, v2, ...)` of such views; generator expressions over a view / a chain of views / a long concrete
  `range` are kept *symbolic* (no unrolling): `KeyComp` / `RangeComp`.
    set(KeyComp)            -> SymSet: membership is `exists key. guard(key) and elt(key) == x`
    next(KeyComp[, d])      -> some element whose key satisfies the guard (which one is not specified: an
                               over-approximation of "the first in dict order"), else d / StopIteration
    next(RangeComp[, d])    -> some r in the range satisfying the condition (minimality is not modelled: an
                               over-approximation of "the first"), else d / StopIteration
    any(KeyComp)            -> exists key. guard(key) and truth(elt(key))
* spec forms `all_keys(m, f)` / `any_key(m, f)`: quantifiers over the keys of a symbolic map (natively: over the
  real dict's keys);  `key_kind(model name, kind)` declares the kind of a map's keys (default int) so that the bound
  variable compares with opaque keys.
* attribute `address_type` of an `Opaque('addr')` value: an unspecified integer 0..3 (an address value is abstracted to
  its equality class, see contracts/c06_link.py; the type octet is not a function of that class).
* a nested function under contract (`f.<locals>.g`) gets the contract parameters that are not in its signature as the
  variables of its enclosing scope (closure cells).
"""
from __future__ import annotations

import ast
import itertools
import typing

import z3

from . import contracts as C
from . import engine as E
from . import models as M
from . import models_calls as MC
from . import seqspec as SS
from . import vcgen as VG
from .engine import Infeasible, PyExc, Unsupported, mk_bool, mk_int, zbool, zint
from .values import ElemRef, ExtObj, Frame, MObj, Obj, Ref, Sym

ADDR_KIND = ('opq', 'addr')

# ---------------------------------------------------------------------------
# key kinds
# ---------------------------------------------------------------------------
_KEY_KIND = {}


def key_kind(model_name, kind):
    _KEY_KIND[model_name] = kind


def _kind_of_map(ho):
    mdl = getattr(ho, 'elem_model', None)
    return _KEY_KIND.get(getattr(mdl, 'name', None), 'int')


def _fresh_key(ex, ho, hint='k'):
    return ex.fresh_sym(_kind_of_map(ho), hint)


# ---------------------------------------------------------------------------
# attribute reads on opaque addresses
# ---------------------------------------------------------------------------
_orig_getattr = MC.getattr_


def getattr_(ex, o, name):
    if isinstance(o, Sym) and o.k == ADDR_KIND:
        if name == 'address_type':
            v = ex.fresh_sym('int', 'address_type')
            ex.add_def(z3.And(v.t >= 0, v.t <= 3))
            return v
        raise Unsupported(f'attribute {name} of an abstract address value')
    return _orig_getattr(ex, o, name)


MC.getattr_ = getattr_
M.getattr_ = getattr_


# ---------------------------------------------------------------------------
# m[k] = record
# ---------------------------------------------------------------------------
def _absorbed(ex):
    s = ex.__dict__.get('_c06_absorbed')
    if s is None:
        s = ex.__dict__['_c06_absorbed'] = {}
    return s


def map_setitem(ex, ref, ho, k, v):
    v = M.plain(v)
    if isinstance(v, ElemRef):
        src = ex.obj(v.mref)
        if src.elem_cls is not ho.elem_cls:
            raise Unsupported('record of another class stored into a symbolic map')
        vals = {n: M.elem_get(ex, v, n, raw=True) for n in ho.cols}
    elif isinstance(v, Ref) and isinstance(ex.obj(v), Obj):
        o = ex.obj(v)
        if o.cls is not ho.elem_cls:
            raise Unsupported(f'object of class {getattr(o.cls, "__name__", o.cls)} stored into a symbolic map of {getattr(ho.elem_cls, "__name__", ho.elem_cls)}')
        vals = {}
        for n in ho.cols:
            if n not in o.fields:
                raise Unsupported(f'record field {n} missing in the object stored into a symbolic map')
            x = o.fields[n]
            if type(x).__name__ == 'LazyVal':
                x = ex.force(x)
            vals[n] = x
        _absorbed(ex)[v.oid] = (ref.oid, k)
    else:
        raise Unsupported(f'value {v!r} stored into a symbolic map')
    w = ex.wobj(ref)
    kt = zint(M.plain(k))
    w.dom = z3.Store(w.dom, kt, True)
    for n, (arr, kind, default) in list(w.cols.items()):
        w.cols[n] = (z3.Store(arr, kt, M.value_to_elem(ex, vals[n], kind)), kind, default)


M.map_setitem = map_setitem

_orig_setattr = MC.setattr_


def setattr_(ex, o, name, v):
    if isinstance(o, Ref) and o.oid in _absorbed(ex):
        raise Unsupported('write to an object after it was stored into a symbolic map (aliasing not modelled)')
    if isinstance(o, ElemRef) and any(m == o.mref.oid for (m, _k) in _absorbed(ex).values()):
        raise Unsupported('write through a symbolic-map entry after an object was stored into that map (aliasing not modelled)')
    return _orig_setattr(ex, o, name, v)


MC.setattr_ = setattr_
M.setattr_ = setattr_


# ---------------------------------------------------------------------------
# values() views, chain
# ---------------------------------------------------------------------------
class MapValues(ExtObj):
    """m.values() of a symbolic map"""

    def __init__(self, mref):
        self.mref = mref

    def clone(self):
        return MapValues(self.mref)

    def __repr__(self):
        return f'MapValues({self.mref})'

    def ext_truth(self, ex, ref):
        return True

    def ext_len(self, ex, ref):
        raise Unsupported('len of the values of a symbolic map')

    def ext_havoc(self, ex, ref, hint):
        return None

    def ext_unchanged(self, ex, other):
        return isinstance(other, MapValues) and other.mref == self.mref

    def ext_method(self, ex, ref, name, args, kwargs):
        raise Unsupported(f'method {name} of a dict values view')

    def ext_subscript(self, ex, ref, i):
        ex.raise_(TypeError, "'dict_values' object is not subscriptable")

    def ext_for(self, ex, ref, s, spec):
        if spec is None:
            raise Unsupported(f'for loop over the values of a symbolic map without invariant at {ex.cur_loc}')
        mref = self.mref
        ho0 = ex.obj(mref)
        seen_ref = ex.alloc(MObj(z3.K(z3.IntSort(), z3.BoolVal(False)), {}, None, ho0.elem_model))
        ex.store_name('_seen', seen_ref)
        cur = {}
        orig_havoc = spec.havoc

        def havoc(path, node, extra):
            orig_havoc(path, node, extra)
            path.wobj(seen_ref).dom = z3.Const(path.fresh_name('_seen.dom'), z3.ArraySort(z3.IntSort(), z3.BoolSort()))
            hs = getattr(path, 'headstate', None)
            if hs is not None:
                hs['heap'][seen_ref.oid] = path.heap[seen_ref.oid].clone()
            if getattr(spec, 'mods', None) is not None:
                # per-loop frame: the bookkeeping set is not part of the program state
                path.snapshots.get(spec.snap_name(), {}).pop(seen_ref.oid, None)

        spec.havoc = havoc

        def test():
            ho = ex.obj(mref)
            cur['dom'] = ho.dom
            k = _fresh_key(ex, ho, 'k')
            seen = ex.obj(seen_ref).dom
            body = z3.And(z3.Select(ho.dom, k.t), z3.Not(z3.Select(seen, k.t)))
            return mk_bool(z3.Exists([k.t], body))

        def pre_body():
            ho = ex.obj(mref)
            k0 = _fresh_key(ex, ho, 'key')
            seen = ex.obj(seen_ref).dom
            ex.assume(mk_bool(z3.And(z3.Select(ho.dom, k0.t), z3.Not(z3.Select(seen, k0.t)))))
            cur['k'] = k0
            ex.wobj(seen_ref).dom = z3.Store(seen, k0.t, True)
            ex.assign(s.target, ElemRef(mref, k0))

        def stepf():
            if ex.obj(mref).dom is not cur['dom']:
                raise Unsupported('the key set of a dict changes while its values are being iterated')

        try:
            ex.cut_loop(s, spec, test, pre_body, (), stepf)
        finally:
            spec.havoc = orig_havoc


class ChainVal(ExtObj):
    """itertools.chain(...) of iterables.  A `for` over a chain of values views is the invariant rule over an arbitrary
    enumeration of all their entries (an over-approximation of "first all of part 0, then all of part 1, ..."); the
    locals `_seen0`, `_seen1`, ... are the keys already visited in each part."""

    def __init__(self, parts):
        self.parts = list(parts)

    def clone(self):
        return ChainVal(self.parts)

    def __repr__(self):
        return f'ChainVal({self.parts})'

    def ext_truth(self, ex, ref):
        return True

    def ext_len(self, ex, ref):
        ex.raise_(TypeError, "object of type 'itertools.chain' has no len()")

    def ext_havoc(self, ex, ref, hint):
        return None

    def ext_unchanged(self, ex, other):
        return True

    def ext_method(self, ex, ref, name, args, kwargs):
        raise Unsupported(f'method {name} of itertools.chain')

    def ext_subscript(self, ex, ref, i):
        ex.raise_(TypeError, "'itertools.chain' object is not subscriptable")

    def ext_for(self, ex, ref, s, spec):
        if spec is None:
            raise Unsupported(f'for loop over a chain of symbolic views without invariant at {ex.cur_loc}')
        mrefs = _view_parts(ex, ref)
        if mrefs is None:
            raise Unsupported('for loop over a chain of something else than values views of symbolic maps')
        seen = []
        for i, mref in enumerate(mrefs):
            r = ex.alloc(MObj(z3.K(z3.IntSort(), z3.BoolVal(False)), {}, None, ex.obj(mref).elem_model))
            ex.store_name(f'_seen{i}', r)
            seen.append(r)
        cur = {}
        orig_havoc = spec.havoc

        def havoc(path, node, extra):
            orig_havoc(path, node, extra)
            hs = getattr(path, 'headstate', None)
            for r in seen:
                path.wobj(r).dom = z3.Const(path.fresh_name('_seen.dom'), z3.ArraySort(z3.IntSort(), z3.BoolSort()))
                if hs is not None:
                    hs['heap'][r.oid] = path.heap[r.oid].clone()
                if getattr(spec, 'mods', None) is not None:
                    path.snapshots.get(spec.snap_name(), {}).pop(r.oid, None)

        spec.havoc = havoc

        def unvisited(i, k):
            return z3.And(z3.Select(ex.obj(mrefs[i]).dom, k.t), z3.Not(z3.Select(ex.obj(seen[i]).dom, k.t)))

        def test():
            cur['doms'] = [ex.obj(m).dom for m in mrefs]
            alts = []
            for i, mref in enumerate(mrefs):
                k = _fresh_key(ex, ex.obj(mref), 'k')
                alts.append(z3.Exists([k.t], unvisited(i, k)))
            return mk_bool(z3.Or(*alts))

        def pre_body():
            conds = []
            keys = []
            for i, mref in enumerate(mrefs):
                k0 = _fresh_key(ex, ex.obj(mref), 'key')
                keys.append(k0)
                conds.append(unvisited(i, k0))
            i = ex.decide(conds, 'chain part') if len(conds) > 1 else 0
            if len(conds) == 1:
                ex.assume(mk_bool(conds[0]))
            ex.wobj(seen[i]).dom = z3.Store(ex.obj(seen[i]).dom, keys[i].t, True)
            ex.assign(s.target, ElemRef(mrefs[i], keys[i]))

        def stepf():
            if any(ex.obj(m).dom is not d for m, d in zip(mrefs, cur['doms'])):
                raise Unsupported('the key set of a dict changes while its values are being iterated')

        try:
            ex.cut_loop(s, spec, test, pre_body, (), stepf)
        finally:
            spec.havoc = orig_havoc


_orig_map_method = MC.map_method


def map_method(ex, ref, ho, name, args, kwargs):
    if name == 'values' and not args and not kwargs:
        if ref.old is not None:
            raise Unsupported('values() of an old() map')
        return ex.alloc(MapValues(ref))
    return _orig_map_method(ex, ref, ho, name, args, kwargs)


MC.map_method = map_method


def m_chain(ex, *its):
    return ex.alloc(ChainVal(its))


MC.NATIVE_MODELS[itertools.chain] = m_chain
MC.CLASS_MODELS[itertools.chain] = m_chain


def m_cast(ex, typ, val):
    return val


MC.NATIVE_MODELS[typing.cast] = m_cast


def _view_parts(ex, it):
    """list of map refs if `it` is a values view or a chain of values views, else None"""
    if isinstance(it, Ref) and isinstance(ex.obj(it), MapValues):
        return [ex.obj(it).mref]
    if isinstance(it, Ref) and isinstance(ex.obj(it), ChainVal):
        out = []
        for p in ex.obj(it).parts:
            q = _view_parts(ex, p)
            if q is None:
                return None
            out.extend(q)
        return out
    return None


# ---------------------------------------------------------------------------
# symbolic generator expressions
# ---------------------------------------------------------------------------
class KeyComp:
    """(elt for x in <values of symbolic maps> if conds): parts = [(key Sym, guard term, elt value)]"""

    def __init__(self, parts):
        self.parts = parts

    def __repr__(self):
        return f'KeyComp({len(self.parts)} parts)'


class RangeComp:
    """(elt for j in range(lo, hi) if conds) over a long concrete range: (j Sym, guard term incl. the range, elt value)"""

    def __init__(self, j, guard, elt):
        self.j, self.guard, self.elt = j, guard, elt

    def __repr__(self):
        return 'RangeComp'


class LazyRangeComp:
    """(elt for j in range(lo, hi) if conds) over a long concrete range whose conditions need case splits (calls of
    functions under contract / inlined functions that branch): only `next()` is modelled, as an over-approximation --
    either some j of the range for which the conditions, *executed as code* with the target bound to j, are all true
    (not necessarily the first such j: the same as RangeComp), or exhaustion (default / StopIteration) without any
    knowledge about the range.  That the conditions change no object that existed before is a frame obligation (they are executed for one j only)."""

    def __init__(self, g, elt, rng, scope):
        self.g, self.elt, self.rng, self.scope = g, elt, rng, scope

    def __repr__(self):
        return 'LazyRangeComp'


class SymSet:
    """set(KeyComp): immutable; only membership is modelled"""

    def __init__(self, parts):
        self.parts = parts

    def __repr__(self):
        return f'SymSet({len(self.parts)} parts)'


def _eval_bound(ex, g, elt, bound_value):
    """evaluate the conditions and the element expression of a one-generator comprehension with its target bound to
    `bound_value` (which contains a quantified variable): term level, no case split"""
    frame = ex.alloc(Frame())
    saved_scope = ex.scope
    ex.scope = [frame] + list(ex.scope)
    n0 = len(ex.pc)
    ex.quant += 1
    ex.spec_mode += 1
    try:
        ex.assign(g.target, bound_value)
        conds = [ex.truth(ex.eval(c)) for c in g.ifs]
        ev = ex.eval(elt)
    finally:
        ex.quant -= 1
        ex.spec_mode -= 1
        ex.scope = saved_scope
    added = list(ex.pc[n0:])
    del ex.pc[n0:]
    terms = [zbool(c) if not isinstance(c, bool) else z3.BoolVal(c) for c in conds] + added
    return (z3.And(*terms) if terms else z3.BoolVal(True)), ev


_GEN_ITER_NAMES = ('values', 'chain', 'range')


def _maybe_symbolic(n):
    if len(n.generators) != 1 or n.generators[0].is_async:
        return False
    it = n.generators[0].iter
    if not isinstance(it, ast.Call):
        return False
    f = it.func
    name = f.attr if isinstance(f, ast.Attribute) else getattr(f, 'id', None)
    return name in _GEN_ITER_NAMES


_orig_genexp = E.Path.ev_GeneratorExp


def ev_GeneratorExp(self, n):
    if not _maybe_symbolic(n):
        return _orig_genexp(self, n)
    g = n.generators[0]
    it = self.eval(g.iter)
    parts = _view_parts(self, it)
    if parts is not None:
        out = []
        for mref in parts:
            ho = self.obj(mref)
            k = _fresh_key(self, ho, 'gk')
            guard, ev = _eval_bound(self, g, n.elt, ElemRef(mref, k))
            out.append((k, z3.And(z3.Select(ho.dom, k.t), guard), ev))
        return KeyComp(out)
    if isinstance(it, range) and len(it) > 64 and it.step == 1:
        j = self.fresh_sym('int', 'gj')
        n0 = len(self.pc)
        try:
            guard, ev = _eval_bound(self, g, n.elt, j)
        except Unsupported as e:
            if 'case split inside a quantifier body' not in str(e):
                raise
            # the filter cannot be a term (it calls functions that branch): evaluated as code at next() instead
            del self.pc[n0:]
            return LazyRangeComp(g, n.elt, it, list(self.scope))
        return RangeComp(j, z3.And(j.t >= it.start, j.t < it.stop, guard), ev)
    # anything else: the generic unrolling, without evaluating the iterable twice
    out = []
    frame = self.alloc(Frame())
    saved = self.scope
    self.scope = [frame] + list(self.scope)
    try:
        self._comp(n.elt, n.generators, 0, out, it)
    except E._UnknownComprehension:
        self.abstraction_used = True
        return E.Unknown('comprehension')
    finally:
        self.scope = saved
    return E.ConcIter(out)


E.Path.ev_GeneratorExp = ev_GeneratorExp


def _subst(ex, v, var, by):
    """value v with the quantified variable replaced by the witness"""
    if isinstance(v, Sym):
        return Sym(z3.substitute(v.t, (var.t, by.t)), v.k)
    if isinstance(v, ElemRef):
        return ElemRef(v.mref, _subst(ex, v.key, var, by))
    if isinstance(v, tuple):
        return tuple(_subst(ex, x, var, by) for x in v)
    if isinstance(v, Ref):
        raise Unsupported('heap object built inside a symbolic generator expression')
    return v


_orig_set = MC.CLASS_MODELS[set]


def m_set(ex, *args):
    if args and isinstance(args[0], KeyComp):
        for (_k, _g, ev) in args[0].parts:
            if not (isinstance(ev, Sym) or isinstance(ev, (int, bool))):
                raise Unsupported('set() of non-scalar elements of a symbolic generator')
        return SymSet(args[0].parts)
    return _orig_set(ex, *args)


MC.CLASS_MODELS[set] = m_set
MC.CLASS_MODELS[frozenset] = m_set

_orig_contains = M.contains


def contains(ex, container, x):
    if isinstance(container, SymSet):
        alts = []
        for (k, guard, ev) in container.parts:
            eq = M.equal(ex, ev, M.plain(x))
            eqt = zbool(eq) if not isinstance(eq, bool) else z3.BoolVal(eq)
            alts.append(z3.Exists([k.t], z3.And(guard, eqt)))
        if not alts:
            return False
        return mk_bool(z3.Or(*alts))
    return _orig_contains(ex, container, x)


M.contains = contains

_orig_next = MC.NATIVE_MODELS[next]


def m_next(ex, it, *default):
    if isinstance(it, KeyComp):
        if ex.quant or ex.spec_mode:
            raise Unsupported('next() of a symbolic generator in a specification')
        for (k, guard, ev) in it.parts:
            if ex.branch(mk_bool(z3.Exists([k.t], guard))):
                k0 = ex.fresh_sym(k.k, 'found')
                ex.assume(mk_bool(z3.substitute(guard, (k.t, k0.t))))
                return _subst(ex, ev, k, k0)
        if default:
            return default[0]
        ex.raise_(StopIteration)
    if isinstance(it, LazyRangeComp):
        if ex.quant or ex.spec_mode:
            raise Unsupported('next() of a symbolic generator in a specification')
        if ex.decide([True, True], 'next-of-a-filtered-range') == 0:
            r = ex.fresh_sym('int', 'first')
            ex.assume(mk_bool(z3.And(r.t >= it.rng.start, r.t < it.rng.stop)))
            frame = ex.alloc(Frame())
            saved_scope = ex.scope
            ex.scope = [frame] + list(it.scope)
            # the filter is executed for this one j only: that it changes nothing is an obligation (frame#...genexp-filter)
            snap = ex.fresh_name('genexp-filter')
            ex.snapshot(snap)
            try:
                ex.assign(it.g.target, r)
                for c in it.g.ifs:
                    if not ex.branch(ex.truth(ex.eval(c))):
                        raise Infeasible()  # next() does not return a j that the filter rejects
                ex.cfg.check_frame(ex, 'genexp', snap=snap, modifies=[], label='genexp-filter')
                return ex.eval(it.elt)
            finally:
                ex.scope = saved_scope
        # exhausted: nothing is assumed about the range (over-approximation: this outcome is always explored)
        ex.abstraction_used = True
        if default:
            return default[0]
        ex.raise_(StopIteration)
    if isinstance(it, RangeComp):
        if ex.quant or ex.spec_mode:
            raise Unsupported('next() of a symbolic generator in a specification')
        if ex.branch(mk_bool(z3.Exists([it.j.t], it.guard))):
            r = ex.fresh_sym('int', 'first')
            ex.assume(mk_bool(z3.substitute(it.guard, (it.j.t, r.t))))
            return _subst(ex, it.elt, it.j, r)
        if default:
            return default[0]
        ex.raise_(StopIteration)
    return _orig_next(ex, it, *default)


MC.NATIVE_MODELS[next] = m_next

_orig_any = MC.NATIVE_MODELS[any]


def m_any(ex, it):
    if isinstance(it, KeyComp):
        alts = []
        for (k, guard, ev) in it.parts:
            n0 = len(ex.pc)
            ex.quant += 1
            ex.spec_mode += 1
            try:
                t = ex.truth(ev)
            finally:
                ex.quant -= 1
                ex.spec_mode -= 1
            del ex.pc[n0:]
            tt = zbool(t) if not isinstance(t, bool) else z3.BoolVal(t)
            alts.append(z3.Exists([k.t], z3.And(guard, tt)))
        return mk_bool(z3.Or(*alts)) if alts else False
    return _orig_any(ex, it)


MC.NATIVE_MODELS[any] = m_any


# ---------------------------------------------------------------------------
# spec forms: quantifiers over the keys of a map
# ---------------------------------------------------------------------------
def all_keys(m, f):
    """f(k) for every key k of the dict m"""
    return all(f(k) for k in list(m.keys()))


def any_key(m, f):
    """f(k) for some key k of the dict m"""
    return any(f(k) for k in list(m.keys()))


def _key_quant(ex, m, f, universal):
    ho = ex.obj(m)
    if isinstance(ho, M.DObj):
        keys = [M.unwrap_key(k) for k in ho.items.keys()]
        vals = [ex.truth(ex.call(f, [k], {})) for k in keys]
        return ex.bool_and(vals) if universal else ex.bool_or(vals)
    if not isinstance(ho, MObj):
        raise Unsupported('all_keys / any_key on a non-dict')
    k = _fresh_key(ex, ho, 'qk')
    n0 = len(ex.pc)
    ex.quant += 1
    ex.spec_mode += 1
    try:
        body = ex.truth(ex.call(f, [k], {}))
    finally:
        ex.quant -= 1
        ex.spec_mode -= 1
    added = list(ex.pc[n0:])
    del ex.pc[n0:]
    b = zbool(body) if not isinstance(body, bool) else z3.BoolVal(body)
    dom = z3.Select(ho.dom, k.t)
    if universal:
        return mk_bool(z3.ForAll([k.t], z3.Implies(z3.And(dom, *added), b)))
    return mk_bool(z3.Exists([k.t], z3.And(dom, b, *added)))


def q_all_keys(ex, args, kwargs):
    m, f = args
    return _key_quant(ex, m, f, True)


def q_any_key(ex, args, kwargs):
    m, f = args
    return _key_quant(ex, m, f, False)


SS.SPEC_FORMS[all_keys] = q_all_keys
SS.SPEC_FORMS[any_key] = q_any_key


# ---------------------------------------------------------------------------
# nested functions under contract: extra contract parameters are the enclosing scope
# ---------------------------------------------------------------------------
_orig_run_func = E.Path.run_func


def run_func(self, f, args, kwargs):
    top = getattr(self.cfg, 'top', None)
    if (
        f.closure is None
        and self.cfg.is_target(f)
        and '<locals>' in getattr(f, 'qualname', '')
        and not getattr(self, '_c06_closure_done', False)
    ):
        a = f.node.args
        pnames = {p.arg for p in a.posonlyargs + a.args + a.kwonlyargs}
        extra = {n: v for n, v in self.entry_env.items() if n not in pnames and n != 'ghost' and n in top.params}
        if extra:
            self._c06_closure_done = True
            fr = self.alloc(Frame(dict(extra)))
            f = E.Func(f.node, f.module, f.qualname, native=f.native, closure=[fr], cls=f.cls, origin=f.origin)
            f.defaults = []
            f.kw_defaults = []
    return _orig_run_func(self, f, args, kwargs)


E.Path.run_func = run_func


# ---------------------------------------------------------------------------
# satisfiability queries (vacuity covers, cross-check samples) over quantified table invariants: z3's model finder
# often answers `unknown` although small models exist.  Such a query is retried *strengthened*: every key-set array
# (Int -> Bool constant) is constrained to hold at most n explicit keys.  A model of the strengthened query is a model
# of the original one, so `sat` stays sound; nothing is concluded from `unsat`/`unknown` of the strengthened query.
# ---------------------------------------------------------------------------
from . import solve as S  # noqa: E402

_orig_discharge = S.discharge
_DOM_SORT = z3.ArraySort(z3.IntSort(), z3.BoolSort())


def _dom_consts(fs):
    out, seen, stack = {}, set(), list(fs)
    while stack:
        t = stack.pop()
        i = t.get_id()
        if i in seen:
            continue
        seen.add(i)
        if z3.is_quantifier(t):
            stack.append(t.body())
            continue
        if z3.is_const(t) and t.decl().kind() == z3.Z3_OP_UNINTERPRETED and t.sort() == _DOM_SORT:
            out[t.decl().name()] = t
            continue
        if z3.is_app(t):
            stack.extend(t.children())
    return list(out.values())


def _finite_sat(ob, timeout_ms, seed):
    doms = _dom_consts(ob.pc)
    if not doms:
        return None
    for n in (1, 2, 3):
        s = S._solver(min(int(timeout_ms), 5000), seed)
        for p in ob.pc:
            s.add(p)
        for d in doms:
            a = z3.K(z3.IntSort(), z3.BoolVal(False))
            for i in range(n):
                a = z3.Store(a, z3.Int(f'{d.decl().name()}!fk{i}'), z3.Bool(f'{d.decl().name()}!fb{i}'))
            s.add(d == a)
        if s.check() == z3.sat:
            return s
    return None


def discharge(ob, timeout_ms=20000, seed=0, both=False):
    import time as _t

    if ob.kind == 'xcheck':
        t0 = _t.time()
        s = S._solver(min(int(timeout_ms), 3000), seed)
        for p in ob.pc:
            s.add(p)
        r = s.check()
        if r != z3.sat:
            s = _finite_sat(ob, 3000, seed)
            if s is None:
                return {'status': 'unknown', 'backend': 'z3', 'time': _t.time() - t0, 'detail': 'cross-check sample without model'}
        return {'status': 'proved', 'backend': 'z3', 'time': _t.time() - t0, 'detail': 'cover sat', 'model': S.small_model(ob, s)}
    if ob.expect_sat:
        t0 = _t.time()
        s = S._solver(min(int(timeout_ms), 3000), seed)
        for p in ob.pc:
            s.add(p)
        r = s.check()
        if r == z3.sat:
            return {'status': 'proved', 'backend': 'z3', 'time': _t.time() - t0, 'detail': 'cover sat'}
        if r == z3.unknown and _finite_sat(ob, timeout_ms, seed) is not None:
            return {'status': 'proved', 'backend': 'z3', 'time': _t.time() - t0, 'detail': 'cover sat (finite tables)'}
    return _orig_discharge(ob, timeout_ms, seed, both)


S.discharge = discharge


# ---------------------------------------------------------------------------
# ConcDictOf(T, n): a dict with the concrete keys 0..n-1 and n fresh values of type T
# ---------------------------------------------------------------------------
class ConcDictOf(C.ExtT):
    def __init__(self, t, n):
        self.t, self.n = t, n

    def __repr__(self):
        return f'ConcDictOf({self.t!r}, {self.n})'

    def fresh(self, cfg, path, hint):
        from .values import DObj

        return path.alloc(DObj({i: cfg.fresh(path, self.t, f'{hint}[{i}]') for i in range(self.n)}))


# ---------------------------------------------------------------------------
# lazily chosen pre-state objects (OneOf fields) exist since entry: when the choice is made after a snapshot was
# taken (first read through `old.` in a postcondition), the new objects are added to the snapshots as well
# ---------------------------------------------------------------------------
_orig_force = E.Path.force


def force(self, lv):
    if lv.lid in self.lazy:
        return self.lazy[lv.lid]
    before = set(self.heap)
    v = _orig_force(self, lv)
    new = [oid for oid in self.heap if oid not in before]
    if new:
        heaps = list(self.snapshots.values())
        for st in (getattr(self, 'prestate', None), getattr(self, 'headstate', None)):
            if st is not None and 'heap' in st:
                heaps.append(st['heap'])  # (the state a counter-model is read from)
        for snap in heaps:
            for oid in new:
                if oid not in snap:
                    snap[oid] = self.heap[oid].clone()
    return v


E.Path.force = force


# ---------------------------------------------------------------------------
# modifies clauses may name an element of a concrete-spine dict / list: 'self.sets[0].enabled'
# ---------------------------------------------------------------------------
class _SubscriptToAttr(ast.NodeTransformer):
    """x[<const>]  ->  x.__item_<const>  (resolved by the patched attribute reader below)"""

    def visit_Subscript(self, n):
        self.generic_visit(n)
        if isinstance(n.slice, ast.Constant) and isinstance(n.slice.value, int):
            return ast.copy_location(ast.Attribute(n.value, f'__item_{n.slice.value}', ast.Load()), n)
        return n


_orig_loc = VG.Config._loc


def _loc(self, path, node, env, out, star):
    node2 = _SubscriptToAttr().visit(node)
    ast.fix_missing_locations(node2)
    return _orig_loc(self, _ItemView(path), node2, env, out, star)


class _ItemView:
    """path proxy for Config._loc: an object's pseudo-field __item_<i> is element i of a concrete-spine container"""

    def __init__(self, path):
        self._p = path

    def __getattr__(self, n):
        return getattr(self._p, n)

    def obj(self, ref):
        from .values import DObj, LObj

        o = self._p.obj(ref)
        if isinstance(o, DObj):
            return Obj(None, {f'__item_{k}': v for k, v in o.items.items() if isinstance(k, int)}, None)
        if isinstance(o, LObj) and o.items is not None:
            return Obj(None, {f'__item_{i}': v for i, v in enumerate(o.items)}, None)
        return o


VG.Config._loc = _loc


# ---------------------------------------------------------------------------
# holds(lambda: clauses): a specification expression inside a ghost driver, evaluated at term level (no path split)
# ---------------------------------------------------------------------------
def _flat(v):
    if isinstance(v, (list, tuple)):
        return all(_flat(x) for x in v)
    return bool(v)


def holds(f):
    """the clause (or list of clauses) f() holds"""
    return _flat(f())


def q_holds(ex, args, kwargs):
    (f,) = args
    n0 = len(ex.pc)
    ex.spec_mode += 1
    try:
        v = ex.call(f, [], {})
        cls = ex.cfg.as_clause_list(ex, v)
    finally:
        ex.spec_mode -= 1
    del ex.pc[n0:]
    return ex.bool_and(cls)


SS.SPEC_FORMS[holds] = q_holds


# ---------------------------------------------------------------------------
# contract / lemma kwarg feas_timeout_ms: budget of one inline feasibility query (default 3000 ms).  With quantified
# table invariants in the path condition z3 answers `unknown` to most of them after the whole budget; `unknown` is
# treated as feasible either way (exploring an infeasible path is sound: its obligations are valid), so a small
# budget only saves time.
# ---------------------------------------------------------------------------
_orig_verify = VG.verify
_OrigExplorer = VG.Explorer
_FEAS = {'ms': None}


class _Explorer(_OrigExplorer):
    def __init__(self, *a, **k):
        super().__init__(*a, **k)
        if _FEAS['ms'] is not None:
            self.feas_timeout_ms = _FEAS['ms']


VG.Explorer = _Explorer


def verify(registry, top, *a, **k):
    _FEAS['ms'] = (getattr(top, 'extra', None) or {}).get('feas_timeout_ms')
    try:
        return _orig_verify(registry, top, *a, **k)
    finally:
        _FEAS['ms'] = None


VG.verify = verify


# ---------------------------------------------------------------------------
# old.<param> where the argument is an entry of a symbolic map: the entry as it was in the snapshot
# ---------------------------------------------------------------------------
_orig_mark_old = VG.mark_old


def mark_old(v, snap):
    if isinstance(v, ElemRef) and v.mref.old is None:
        return ElemRef(Ref(v.mref.oid, snap), v.key)
    return _orig_mark_old(v, snap)


VG.mark_old = mark_old


# ---------------------------------------------------------------------------
# after a callee contract was applied, a path whose condition became inconsistent (the assumed postcondition excludes
# the chosen outcome, e.g. "returns None" although the precondition says the entry exists) ends there
# ---------------------------------------------------------------------------
_orig_apply_contract = VG.Config.apply_contract


def apply_contract(self, path, c2, f, args, kwargs):
    r = _orig_apply_contract(self, path, c2, f, args, kwargs)
    # (Path.feasible first asks a weakening of the path condition without quantified / array facts, which cannot see
    # such a contradiction: ask the solver about the whole path condition; `unknown` keeps the path)
    s = z3.Solver()
    s.set('timeout', min(path.explorer.feas_timeout_ms, 2000))
    for p in path.pc:
        s.add(p)
    if s.check() == z3.unsat:
        raise Infeasible()
    return r


VG.Config.apply_contract = apply_contract


# ---------------------------------------------------------------------------
# native side of a nested function under contract: replay.resolve compiles the nested def on its own (free variables
# become globals of a copy of the module namespace); the contract parameters that are not in its signature are
# installed there before the call
# ---------------------------------------------------------------------------
from . import replay as R  # noqa: E402

_orig_resolve = R.resolve


def resolve(name):
    import types as _types

    o = _orig_resolve(name)
    if '<locals>' in name.split('#')[0] and isinstance(o, _types.FunctionType):
        own = set(o.__code__.co_varnames[: o.__code__.co_argcount + o.__code__.co_kwonlyargcount])

        def call(**kw):
            for k, v in kw.items():
                if k not in own:
                    o.__globals__[k] = v
            return o(**{k: v for k, v in kw.items() if k in own})

        call.__name__ = o.__name__
        return call
    return o


R.resolve = resolve
