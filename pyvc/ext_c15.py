"""PyVC extension for C15 (JSON key store): dynamic JSON values, symbolic strings, mutable JSON dict objects.

Everything here is registered from the outside (no edit of the core files).  It becomes active only when a contract file
imports this module; the wrappers below defer to the original function for every value they do not own.

Value domain added
------------------
* `Sym(t, 'str')`  -- a Python str as an *identity*: t is an Int.  Concrete strings are interned injectively
  (`str_id`), so `==`, `in`, dict keys and truthiness (`!= ''`) are exact; content is never inspected.  `+` of two
  strings, `bytes.hex()` and `bytes.fromhex()` are uninterpreted functions over identities with the facts
  fromhex(hex(b)) == b and ishex(hex(b)).
* `Sym(t, 'dyn')`  -- a value of dynamic type: None | bool | int | str | bytes | dict(str -> dyn)  (z3 algebraic datatype
  `Dyn`, the dict alternative carries domain array, value array and size).  JSON documents, `dict.get` results and
  Optional[...] fields are such values, so that "absent or present" does not fork a path.  In *spec mode* every
  operation on a dyn value is a total term; in *code mode* an operation that needs one Python type narrows the value
  (case split over the feasible constructors; the other alternatives raise the exception CPython raises).
* `JObj` / `JView` heap objects -- a *mutable* dict whose content is a dyn term (`json.load` result).  `d[k]` of a
  mutable dict whose value is a dict is a `JView` (root, path): reads and writes go through the root term, which is
  how Python's aliasing of nested dicts (`key_map is db[ns]`) is kept.  Storing a concrete-spine dict into a JObj
  absorbs it (its Ref becomes a view of the place it was stored in).

Wrapped core functions (each defers to the original): models.equal / identical / subscript / store_subscript /
del_subscript / contains / binop, models_calls.call_method / bytes_method / enum_call / isinstance_,
NATIVE_MODELS[bytes.fromhex, iter, next], engine.Path.truth / length / ite, engine.sort_of (+ importers),
vcgen.Config.fresh / check_frame, solve.eval_term / model_value.
"""
from __future__ import annotations

import ast
import copy

import z3

from . import contracts as C
from . import engine as E
from . import models as M
from . import models_calls as MC
from . import seqspec as SS
from . import solve as S
from . import values as VAL
from . import vcgen as VG
from .engine import PyExc, Unsupported, bytes_lit, mk_bool, mk_bytes, mk_int, zbool, zbytes, zint
from .values import BAObj, DObj, HObj, Obj, OpaqueStr, Ref, Sym

# ---------------------------------------------------------------------------
# sorts
# ---------------------------------------------------------------------------
_IntS = z3.IntSort()
_D = z3.Datatype('Dyn')
_D.declare('absent')  # marks a missing key inside a dict; never a value
_D.declare('none')
_D.declare('b', ('bv', z3.BoolSort()))
_D.declare('i', ('iv', _IntS))
_D.declare('s', ('sv', _IntS))
_D.declare('y', ('yv', z3.SeqSort(_IntS)))
_D.declare('d', ('items', z3.ArraySort(_IntS, z3.DatatypeSort('Dyn'))))  # key identity -> value | absent
Dyn = _D.create()
ItemsS = z3.ArraySort(_IntS, Dyn)

EMPTY_ITEMS = z3.K(_IntS, Dyn.absent)
EMPTY = Dyn.d(EMPTY_ITEMS)
CARD = z3.Function('dict_len', ItemsS, _IntS)  # number of keys (facts are added where a length is observed / changed)


def cell(t, k):
    return z3.Select(Dyn.items(t), k)


def has(t, k):
    return z3.Not(Dyn.is_absent(z3.Select(Dyn.items(t), k)))

HEX = z3.Function('str_hex', z3.SeqSort(_IntS), _IntS)  # bytes -> str id
UNHEX = z3.Function('str_unhex', _IntS, z3.SeqSort(_IntS))  # str id -> bytes
ISHEX = z3.Function('str_ishex', _IntS, z3.BoolSort())
CONCAT = z3.Function('str_concat', _IntS, _IntS, _IntS)
SOLE = z3.Function('dict_sole_key', z3.ArraySort(_IntS, z3.DatatypeSort('Dyn')), _IntS)  # the key of a one-entry dict


def str_id(s):
    """injective interning of a concrete string as a (negative) integer"""
    return -int.from_bytes(b'\x01' + s.encode('utf-8'), 'big')


def id_str(n):
    if n < 0:
        m = -n
        b = m.to_bytes((m.bit_length() + 7) // 8, 'big')
        if b[:1] == b'\x01':
            try:
                return b[1:].decode('utf-8')
            except UnicodeDecodeError:
                pass
    return f'~{n}'


_orig_sort_of = VAL.sort_of


def sort_of(kind):
    if kind == 'str':
        return _IntS
    if kind == 'dyn':
        return Dyn
    return _orig_sort_of(kind)


for _m in (VAL, E, M, MC, VG, SS):
    if hasattr(_m, 'sort_of'):
        _m.sort_of = sort_of


def is_str_sym(v):
    return isinstance(v, Sym) and v.k == 'str'


def is_dyn(v):
    return isinstance(v, Sym) and v.k == 'dyn'


def mk_dyn(t):
    return Sym(z3.simplify(t), 'dyn')


def mk_str(t):
    t = z3.simplify(t)
    if z3.is_int_value(t):
        s = id_str(t.as_long())
        if not s.startswith('~'):
            return s
    return Sym(t, 'str')


def zstr(v):
    if isinstance(v, str):
        return z3.IntVal(str_id(v))
    if is_str_sym(v):
        return v.t
    raise Unsupported(f'not a string with an identity: {v!r}')


# ---------------------------------------------------------------------------
# heap objects
# ---------------------------------------------------------------------------


class JObj(HObj):
    """mutable dict whose content is the dyn term `term` (always a dict term)"""

    def __init__(self, term):
        self.term = term

    def clone(self):
        return JObj(self.term)

    def __repr__(self):
        return 'JObj'


class JView(HObj):
    """the dict stored at `path` (key terms) inside the JObj `root` (oid)"""

    def __init__(self, root, path):
        self.root = root
        self.path = tuple(path)

    def clone(self):
        return JView(self.root, self.path)

    def __repr__(self):
        return f'JView({self.root},{len(self.path)})'


def is_jref(ex, v):
    return isinstance(v, Ref) and isinstance(ex.obj(v), (JObj, JView))


def jterm(ex, ref):
    ho = ex.obj(ref)
    if isinstance(ho, JObj):
        return ho.term
    t = ex.obj(Ref(ho.root, ref.old)).term
    for k in ho.path:
        t = cell(t, k)
    return z3.simplify(t)


def _rebuild(t, path, new):
    if not path:
        return new
    k = path[0]
    return Dyn.d(z3.Store(Dyn.items(t), k, _rebuild(cell(t, k), path[1:], new)))


def jwrite(ex, ref, new):
    ho = ex.wobj(ref)
    if isinstance(ho, JObj):
        ho.term = z3.simplify(new)
        return
    root = ex.heap[ho.root]
    root.term = z3.simplify(_rebuild(root.term, list(ho.path), new))


def _loc(ex, ref):
    ho = ex.obj(ref)
    if isinstance(ho, JObj):
        return ref.oid, ()
    return ho.root, ho.path


def _same_key(ex, a, b):
    """True / False / None (undetermined)"""
    e = z3.simplify(a == b)
    if z3.is_true(e):
        return True
    if z3.is_false(e):
        return False
    if ex.quant:
        return None
    if ex.proves(a == b):
        return True
    if ex.proves(a != b):
        return False
    return None


def view_of(ex, ref, key):
    """Ref of the view of ref[key] (one view object per location, so that `is` works)"""
    root, path = _loc(ex, ref)
    npath = tuple(path) + (key,)
    for oid, o in ex.heap.items():
        if isinstance(o, JView) and o.root == root and len(o.path) == len(npath) and all(x.eq(y) for x, y in zip(o.path, npath)):
            return Ref(oid, ref.old)
    if ref.old is not None:
        raise Unsupported('new view of a dict of an old() state')
    return ex.alloc(JView(root, npath))


def detach_below(ex, ref, key=None):
    """before ref[key] is overwritten / deleted (key None: every key): dict objects that lived there stop being part of
    ref -- a view of exactly that place becomes a root of its own with the current content"""
    root, path = _loc(ex, ref)
    n = len(path)
    for oid, o in list(ex.heap.items()):
        if not isinstance(o, JView) or o.root != root or len(o.path) <= n:
            continue
        pre = True
        for x, y in zip(o.path[:n], path):
            r = _same_key(ex, x, y)
            if r is None:
                raise Unsupported('aliasing of nested dict views undetermined')
            if not r:
                pre = False
                break
        if not pre:
            continue
        if key is not None:
            r = _same_key(ex, o.path[n], key)
            if r is None:
                raise Unsupported('aliasing of nested dict views undetermined')
            if not r:
                continue
        if len(o.path) > n + 1:
            raise Unsupported('a view nested below a dict that is being replaced')
        ex.heap[oid] = JObj(jterm(ex, Ref(oid)))


def redirect(ex, vref, root, path):
    """the mutable dict vref has been stored (by value) at root/path: from now on it *is* that place"""
    ho = ex.obj(vref)
    if isinstance(ho, DObj):
        for k, x in ho.items.items():
            if isinstance(x, Ref) and isinstance(ex.obj(x), (DObj, JObj, JView)):
                redirect(ex, x, root, tuple(path) + (key_id(ex, M.unwrap_key(k)),))
    elif isinstance(ho, JObj):
        for oid, o in list(ex.heap.items()):
            if isinstance(o, JView) and o.root == vref.oid:
                ex.heap[oid] = JView(root, tuple(path) + tuple(o.path))
    elif isinstance(ho, JView):
        raise Unsupported('a dict that already lives inside another dict is stored a second time')
    ex.heap[vref.oid] = JView(root, tuple(path))


# ---------------------------------------------------------------------------
# conversions
# ---------------------------------------------------------------------------


def key_id(ex, k):
    k = M.unwrap_key(k) if hasattr(M, 'unwrap_key') else k
    k = M.plain(k) if not isinstance(k, (Sym, Ref)) else k
    if isinstance(k, str):
        return z3.IntVal(str_id(k))
    if is_str_sym(k):
        return k.t
    if is_dyn(k):
        if ex.spec_mode:
            return Dyn.sv(k.t)
        v = narrow(ex, k)
        if is_dyn(v):
            raise PyExc(ex.new_exception(TypeError, 'unhashable type: dict'))
        return key_id(ex, v)
    raise Unsupported(f'dict key without a string identity: {k!r}')


def d_put(d, k, v):
    return Dyn.d(z3.Store(Dyn.items(d), k, v))


def d_drop(d, k):
    return Dyn.d(z3.Store(Dyn.items(d), k, Dyn.absent))


def card_step(ex, old, new, k):
    """len after d[k] = v / del d[k]: a valid fact about finite dicts (added so that a later len() knows it)"""
    if ex.quant:
        return
    a0, a1 = Dyn.items(old), Dyn.items(new)
    was, now = z3.Not(Dyn.is_absent(z3.Select(a0, k))), z3.Not(Dyn.is_absent(z3.Select(a1, k)))
    ex.add_def(CARD(a1) == CARD(a0) + z3.If(now, 1, 0) - z3.If(was, 1, 0))


_ITE = z3.If(z3.Bool('p'), Dyn.none, Dyn.none).decl()
_IS_ABSENT = Dyn.is_absent(Dyn.none).decl()


def d_merge(ex, c, s):
    """dict c updated with dict s (s wins): pointwise combinators of z3's array theory"""
    c, s = z3.simplify(c), z3.simplify(s)
    if c.eq(EMPTY):
        return s
    if s.eq(EMPTY):
        return c
    return Dyn.d(z3.Map(_ITE, z3.Map(_IS_ABSENT, Dyn.items(s)), Dyn.items(c), Dyn.items(s)))


def to_dyn(ex, v):
    """z3 Dyn term of an engine value"""
    if not isinstance(v, (Sym, Ref)):
        v = M.plain(v)
    if v is None:
        return Dyn.none
    if isinstance(v, bool):
        return Dyn.b(z3.BoolVal(v))
    if isinstance(v, int):
        return Dyn.i(z3.IntVal(v))
    if isinstance(v, str):
        return Dyn.s(z3.IntVal(str_id(v)))
    if isinstance(v, (bytes, bytearray)):
        return Dyn.y(bytes_lit(bytes(v)))
    if isinstance(v, dict):
        t = EMPTY
        for k, x in v.items():
            t = d_put(t, key_id(ex, k), to_dyn(ex, ex.import_native(x)))
        return z3.simplify(t)
    if isinstance(v, Sym):
        if v.k == 'dyn':
            return v.t
        if v.k == 'bool':
            return Dyn.b(v.t)
        if v.k == 'int':
            return Dyn.i(v.t)
        if v.k == 'str':
            return Dyn.s(v.t)
        if v.k == 'bytes':
            return Dyn.y(v.t)
        raise Unsupported(f'value of kind {v.k} has no dynamic-value form')
    if isinstance(v, Ref):
        ho = ex.obj(v)
        if isinstance(ho, (JObj, JView)):
            return jterm(ex, v)
        if isinstance(ho, DObj):
            t = EMPTY
            for k, x in ho.items.items():
                t = d_put(t, key_id(ex, k), to_dyn(ex, ex.wrap(x, v)))
            return z3.simplify(t)
        if isinstance(ho, BAObj):
            return Dyn.y(zbytes(ex.as_bytes_value(v)))
    raise Unsupported(f'{v!r} has no dynamic-value form')


def dynable(ex, v):
    if isinstance(v, Sym):
        return v.k in ('dyn', 'bool', 'int', 'str', 'bytes')
    if isinstance(v, Ref):
        return isinstance(ex.obj(v), (JObj, JView, DObj))
    if not isinstance(v, (Sym, Ref)):
        v = M.plain(v)
    return v is None or isinstance(v, (bool, int, str, bytes, dict))


_CTORS = ('none', 'b', 'i', 's', 'y', 'd')


def _possible(t, depth=0):
    """constructor names the term can syntactically evaluate to (None: unknown)"""
    if depth > 8:
        return None
    if z3.is_app(t):
        nm = t.decl().name()
        if t.sort() == Dyn and nm in _CTORS and t.decl().kind() == z3.Z3_OP_DT_CONSTRUCTOR:
            return {nm}
        if t.decl().kind() == z3.Z3_OP_ITE:
            a, b = _possible(t.arg(1), depth + 1), _possible(t.arg(2), depth + 1)
            if a is None or b is None:
                return None
            return a | b
    return None


def _payload(ex, t, c):
    if c == 'none':
        return None
    if c == 'b':
        return mk_bool(Dyn.bv(t))
    if c == 'i':
        return mk_int(Dyn.iv(t))
    if c == 's':
        return mk_str(Dyn.sv(t))
    if c == 'y':
        return mk_bytes(Dyn.yv(t))
    return mk_dyn(t)


def narrow(ex, v, want=None):
    """engine value of one Python type for the dyn value v (code mode: case split over the feasible constructors).
    A dict stays a dyn Sym (now known to be a dict)."""
    t = z3.simplify(v.t)
    poss = _possible(t)
    if poss is not None and len(poss) == 1:
        return _payload(ex, t, next(iter(poss)))
    if ex.quant:
        raise Unsupported('a dynamic value needs a case split inside a quantifier body')
    cands = [c for c in _CTORS if poss is None or c in poss]
    if want is not None and want in cands:
        cands = [want] + [c for c in cands if c != want]
        if ex.proves(getattr(Dyn, 'is_' + want)(t)):
            return _payload(ex, t, want)
    conds = [getattr(Dyn, 'is_' + c)(t) for c in cands]
    i = ex.decide(conds, 'type of a dynamic value')
    return _payload(ex, t, cands[i])


def known_dict(ex, t):
    t = z3.simplify(t)
    p = _possible(t)
    if p == {'d'}:
        return True
    if p is not None and 'd' not in p:
        return False
    if ex.quant:
        return None
    if ex.proves(Dyn.is_d(t)):
        return True
    return None


def need_dict(ex, v, exc=TypeError, what='not a dict'):
    """code mode: v (dyn Sym) must be a dict here, else the exception CPython raises"""
    kd = known_dict(ex, v.t)
    if kd is True:
        return
    if kd is False or not ex.branch(mk_bool(Dyn.is_d(v.t))):
        ex.raise_(exc, what)


def size_facts(ex, t):
    """valid facts about the number of keys of a (finite) dict, added where a length is observed"""
    if ex.quant:
        return
    a = Dyn.items(t)
    n, k = CARD(a), SOLE(a)
    one = z3.And(z3.Not(Dyn.is_absent(z3.Select(a, k))), a == z3.Store(EMPTY_ITEMS, k, z3.Select(a, k)))
    ex.add_def(n >= 0)
    ex.add_def((n == 0) == (a == EMPTY_ITEMS))
    ex.add_def((n == 1) == one)


def load_value(ex, t, holder=None, key=None):
    """engine value for the dyn term t read out of a dict.  From a *mutable* dict (holder = its Ref) a dict value is a
    view (aliasing); otherwise values stay dynamic (narrowed where a type is needed)."""
    t = z3.simplify(t)
    p = _possible(t)
    if p is not None and len(p) == 1 and 'd' not in p:
        return _payload(ex, t, next(iter(p)))
    if holder is None:
        return mk_dyn(t)
    kd = known_dict(ex, t)
    if kd is None:
        if ex.spec_mode or ex.quant:
            return mk_dyn(t)
        kd = ex.branch(mk_bool(Dyn.is_d(t)))
    if kd:
        return view_of(ex, holder, key)
    return mk_dyn(t)


# ---------------------------------------------------------------------------
# dict operations (receiver: Ref to JObj/JView, or dyn Sym)
# ---------------------------------------------------------------------------


def _recv_term(ex, recv):
    return jterm(ex, recv) if isinstance(recv, Ref) else recv.t


def j_contains(ex, recv, k):
    if is_dyn(recv) and not ex.spec_mode:
        v = recv
        kd = known_dict(ex, v.t)
        if kd is not True:
            if kd is False or not ex.branch(mk_bool(Dyn.is_d(v.t))):
                if not ex.branch(mk_bool(Dyn.is_s(v.t))):
                    ex.raise_(TypeError, 'argument is not iterable')
                raise Unsupported('substring test on a string identity')
    t = _recv_term(ex, recv)
    r = has(t, key_id(ex, k))
    if ex.spec_mode and is_dyn(recv):
        r = z3.And(Dyn.is_d(t), r)
    return mk_bool(r)


def j_getitem(ex, recv, k):
    if is_dyn(recv) and not ex.spec_mode:
        need_dict(ex, recv, TypeError, 'object is not subscriptable')
    t = _recv_term(ex, recv)
    kid = key_id(ex, k)
    if not ex.spec_mode:
        if not ex.branch(mk_bool(has(t, kid))):
            ex.raise_(KeyError, k)
    return load_value(ex, cell(t, kid), recv if isinstance(recv, Ref) else None, kid)


def j_get(ex, recv, k, default=None):
    if is_dyn(recv) and not ex.spec_mode:
        need_dict(ex, recv, AttributeError, 'get')
    t = _recv_term(ex, recv)
    kid = key_id(ex, k)
    present = has(t, kid)
    if ex.spec_mode and is_dyn(recv):
        present = z3.And(Dyn.is_d(t), present)
    has_s = z3.simplify(present)
    if isinstance(recv, Ref) and not ex.spec_mode:
        # mutable receiver: a dict value must come back as a view, so presence is decided
        if ex.branch(mk_bool(present)):
            return load_value(ex, cell(t, kid), recv, kid)
        return default
    if z3.is_true(has_s):
        return load_value(ex, cell(t, kid), recv if isinstance(recv, Ref) else None, kid)
    if z3.is_false(has_s):
        return default
    if not dynable(ex, default):
        raise Unsupported('dict.get default without a dynamic-value form')
    return load_value(ex, z3.If(present, cell(t, kid), to_dyn(ex, default)))


def j_len(ex, recv):
    if is_dyn(recv) and not ex.spec_mode:
        v = narrow(ex, recv, 'd')
        if not is_dyn(v):
            return ex.length(v)
    t = _recv_term(ex, recv)
    size_facts(ex, t)
    return mk_int(CARD(Dyn.items(t)))


def j_setitem(ex, ref, k, v):
    kid = key_id(ex, k)
    detach_below(ex, ref, kid)
    cur = jterm(ex, ref)
    vt = to_dyn(ex, v)
    new = d_put(cur, kid, vt)
    card_step(ex, cur, new, kid)
    jwrite(ex, ref, new)
    if isinstance(v, Ref) and isinstance(ex.obj(v), (DObj, JObj, JView)):
        root, path = _loc(ex, ref)
        redirect(ex, v, root, tuple(path) + (kid,))


def j_delitem(ex, ref, k):
    kid = key_id(ex, k)
    cur = jterm(ex, ref)
    if not ex.spec_mode:
        if not ex.branch(mk_bool(has(cur, kid))):
            ex.raise_(KeyError, k)
    detach_below(ex, ref, kid)
    new = d_drop(cur, kid)
    card_step(ex, cur, new, kid)
    jwrite(ex, ref, new)


def dobj_to_jobj(ex, ref):
    """turn a concrete-spine dict into a JObj in place (same identity)"""
    ho = ex.obj(ref)
    t = to_dyn(ex, ref)
    children = [(key_id(ex, k), x) for k, x in ho.items.items() if isinstance(x, Ref) and isinstance(ex.obj(x), (DObj, JObj, JView))]
    ex.heap[ref.oid] = JObj(t)
    for kid, x in children:
        redirect(ex, x, ref.oid, (kid,))


class JItems:
    """d.items() / d.keys() / d.values() / iter(d) of a dict of symbolic size"""

    def __init__(self, recv, what):
        self.recv = recv
        self.what = what
        self.taken = 0


def j_method(ex, recv, name, args, kwargs):
    mutable = isinstance(recv, Ref)
    if name == 'get':
        return j_get(ex, recv, args[0], args[1] if len(args) > 1 else kwargs.get('default'))
    if name in ('items', 'keys', 'values') and not args:
        if is_dyn(recv) and not ex.spec_mode:
            need_dict(ex, recv, AttributeError, name)
        return JItems(recv, name)
    if name == 'copy' and not args:
        if is_dyn(recv) and not ex.spec_mode:
            need_dict(ex, recv, AttributeError, name)
        return ex.alloc(JObj(_recv_term(ex, recv)))
    if not mutable:
        need_dict(ex, recv, AttributeError, name)
        raise Unsupported(f'dict.{name} on an immutable dynamic dict value')
    if name == 'setdefault':
        kid = key_id(ex, args[0])
        cur = jterm(ex, recv)
        if ex.branch(mk_bool(has(cur, kid))):
            return load_value(ex, cell(cur, kid), recv, kid)
        dflt = args[1] if len(args) > 1 else None
        j_setitem(ex, recv, args[0], dflt)
        return dflt
    if name == 'clear':
        detach_below(ex, recv, None)
        jwrite(ex, recv, EMPTY)
        return None
    if name == 'pop':
        kid = key_id(ex, args[0])
        cur = jterm(ex, recv)
        if ex.branch(mk_bool(has(cur, kid))):
            v = load_value(ex, cell(cur, kid), recv, kid)
            detach_below(ex, recv, kid)
            new = d_drop(cur, kid)
            card_step(ex, cur, new, kid)
            jwrite(ex, recv, new)
            return v
        if len(args) > 1:
            return args[1]
        ex.raise_(KeyError, args[0])
    if name == 'update':
        src = args[0] if args else None
        if kwargs:
            raise Unsupported('dict.update with keywords')
        if src is None:
            return None
        if is_dyn(src) and not ex.spec_mode:
            need_dict(ex, src, TypeError, 'update source is not a mapping')
        if isinstance(src, Ref) and isinstance(ex.obj(src), DObj) and any(isinstance(x, Ref) for x in ex.obj(src).items.values()):
            for k, x in ex.obj(src).items.items():
                j_setitem(ex, recv, M.unwrap_key(k), x)
            return None
        st = to_dyn(ex, src)
        detach_below(ex, recv, None)
        jwrite(ex, recv, d_merge(ex, jterm(ex, recv), st))
        return None
    raise Unsupported(f'dict.{name} on a symbolic dict')


# ---------------------------------------------------------------------------
# wrappers of the core models
# ---------------------------------------------------------------------------

_orig_equal = M.equal


def specish(ex):
    """clause / ghost / lemma code: `==` on dynamic values means structural equality of JSON values (which implies
    Python's ==; it differs from it only by not identifying True/1 and False/0)"""
    return bool(ex.spec_mode) or bool(ex.func_stack and getattr(ex.func_stack[-1], 'origin', '') == 'spec')


def equal(ex, a, b):
    if not isinstance(a, (Sym, Ref)):
        a = M.plain(a)
    if not isinstance(b, (Sym, Ref)):
        b = M.plain(b)
    if isinstance(a, M.SymKey):
        a = a.sym
    if isinstance(b, M.SymKey):
        b = b.sym
    if is_str_sym(a) or is_str_sym(b):
        o = b if is_str_sym(a) else a
        if isinstance(o, str) or is_str_sym(o):
            return mk_bool(zstr(a) == zstr(b))
        if is_dyn(o):
            return mk_bool(to_dyn(ex, a) == to_dyn(ex, b))
        if isinstance(o, OpaqueStr):
            raise Unsupported('comparison with an opaque string')
        return False
    ja, jb = is_dyn(a) or is_jref(ex, a), is_dyn(b) or is_jref(ex, b)
    da = isinstance(a, Ref) and isinstance(ex.obj(a), DObj)
    db = isinstance(b, Ref) and isinstance(ex.obj(b), DObj)
    if ja or jb or (da and db):
        if isinstance(a, Ref) and isinstance(b, Ref) and a.oid == b.oid and a.old == b.old:
            return True
        if not (dynable(ex, a) and dynable(ex, b)):
            return False  # an instance / tuple / list never equals a JSON value
        if not specish(ex) and not (a is None or b is None):
            raise Unsupported('== on dynamic values in code (bool/int coercion is not modelled)')
        return mk_bool(to_dyn(ex, a) == to_dyn(ex, b))
    if (da or db) and specish(ex):
        o = b if da else a
        if isinstance(o, dict):
            return mk_bool(to_dyn(ex, a) == to_dyn(ex, b))
    if isinstance(a, Ref) and isinstance(b, Ref):
        oa, ob = ex.obj(a), ex.obj(b)
        if isinstance(oa, VAL.LObj) and isinstance(ob, VAL.LObj):
            # an empty concrete list against a list of symbolic length
            for x, y in ((oa, ob), (ob, oa)):
                if x.items is not None and not x.items and y.items is None and y.sym is not None:
                    return mk_bool(z3.Length(y.sym.t) == 0)
    return _orig_equal(ex, a, b)


M.equal = equal

_orig_identical = M.identical


def identical(ex, a, b):
    for x, y in ((a, b), (b, a)):
        if is_dyn(x):
            if y is None:
                return mk_bool(Dyn.is_none(x.t))
            if isinstance(y, bool):
                return mk_bool(z3.And(Dyn.is_b(x.t), Dyn.bv(x.t) == y))
            if isinstance(y, Ref):
                return False  # a dynamic value is a scalar or an immutable dict value, never this heap object
            raise Unsupported('identity of a dynamic value')
    if is_str_sym(a) or is_str_sym(b):
        if a is None or b is None or isinstance(a, Ref) or isinstance(b, Ref):
            return False
        raise Unsupported('identity of strings')
    if isinstance(a, Ref) and isinstance(b, Ref) and a.old == b.old:
        oa, ob = ex.obj(a), ex.obj(b)
        if isinstance(oa, JView) and isinstance(ob, JView):
            if oa.root != ob.root or len(oa.path) != len(ob.path):
                return False
            return ex.bool_and([mk_bool(x == y) for x, y in zip(oa.path, ob.path)])
    return _orig_identical(ex, a, b)


M.identical = identical

_orig_subscript = M.subscript


def subscript(ex, o, i):
    if is_jref(ex, o) or is_dyn(o):
        return j_getitem(ex, o, i)
    return _orig_subscript(ex, o, i)


M.subscript = subscript

_orig_store_subscript = M.store_subscript


def store_subscript(ex, o, i, v):
    if is_jref(ex, o):
        return j_setitem(ex, o, i, v)
    return _orig_store_subscript(ex, o, i, v)


M.store_subscript = store_subscript

_orig_del_subscript = M.del_subscript


def del_subscript(ex, o, i):
    if is_jref(ex, o):
        return j_delitem(ex, o, i)
    return _orig_del_subscript(ex, o, i)


M.del_subscript = del_subscript

_orig_contains = M.contains


def contains(ex, container, x):
    if is_jref(ex, container) or is_dyn(container):
        return j_contains(ex, container, x)
    if is_str_sym(container) or (isinstance(container, str) and (is_str_sym(x) or is_dyn(x))):
        raise Unsupported('substring test on a string identity')
    return _orig_contains(ex, container, x)


M.contains = contains

_orig_binop = M.binop


def binop(ex, op, a, b):
    if isinstance(op, ast.Add) and (is_str_sym(a) or is_str_sym(b)) and (isinstance(a, str) or is_str_sym(a)) and (isinstance(b, str) or is_str_sym(b)):
        return mk_str(CONCAT(zstr(a), zstr(b)))
    if (is_dyn(a) or is_dyn(b)) and not ex.spec_mode:
        a2 = narrow(ex, a) if is_dyn(a) else a
        b2 = narrow(ex, b) if is_dyn(b) else b
        if is_dyn(a2) or is_dyn(b2):
            raise Unsupported('arithmetic on a dict')
        return binop(ex, op, a2, b2)
    return _orig_binop(ex, op, a, b)


M.binop = binop

_orig_call_method = MC.call_method


def call_method(ex, recv, name, args, kwargs, node=None):
    if is_jref(ex, recv):
        return j_method(ex, recv, name, args, kwargs)
    if is_dyn(recv):
        if ex.spec_mode:
            return j_method(ex, recv, name, args, kwargs)
        v = narrow(ex, recv)
        if is_dyn(v):
            return j_method(ex, v, name, args, kwargs)
        if v is None:
            ex.raise_(AttributeError, name)
        return call_method(ex, v, name, args, kwargs, node)
    if isinstance(recv, Ref) and isinstance(ex.obj(recv), DObj) and name == 'update' and args and (is_dyn(args[0]) or is_jref(ex, args[0])):
        dobj_to_jobj(ex, recv)
        return j_method(ex, recv, name, args, kwargs)
    if is_str_sym(recv):
        raise Unsupported(f'str.{name} on a string identity')
    return _orig_call_method(ex, recv, name, args, kwargs, node)


MC.call_method = call_method
M.call_method = call_method

_orig_bytes_method = MC.bytes_method


def hex_of(ex, b):
    bt = zbytes(b)
    h = HEX(bt)
    if not ex.quant:
        ex.add_def(UNHEX(h) == bt)
        ex.add_def(ISHEX(h))
    return mk_str(h)


def bytes_method(ex, recv, name, args, kwargs):
    if name == 'hex' and not args and not isinstance(recv, bytes):
        return hex_of(ex, recv)
    return _orig_bytes_method(ex, recv, name, args, kwargs)


MC.bytes_method = bytes_method


def m_bytes_fromhex(ex, s):
    if is_dyn(s):
        if ex.spec_mode:
            return mk_bytes(UNHEX(Dyn.sv(s.t)))
        s = narrow(ex, s, 's')
        if is_dyn(s) or not (isinstance(s, str) or is_str_sym(s)):
            ex.raise_(TypeError, 'fromhex() argument must be str')
    if isinstance(s, str):
        try:
            return bytes.fromhex(s)
        except ValueError as e:
            raise PyExc(e)
    if is_str_sym(s):
        if not ex.spec_mode:
            if not ex.branch(mk_bool(ISHEX(s.t))):
                ex.raise_(ValueError, 'non-hexadecimal number found in fromhex() arg')
        return mk_bytes(UNHEX(s.t))
    if s is None or isinstance(s, (int, bytes)) or isinstance(s, Sym):
        ex.raise_(TypeError, 'fromhex() argument must be str')
    raise Unsupported('bytes.fromhex of opaque string')


MC.NATIVE_MODELS[bytes.fromhex] = m_bytes_fromhex

_orig_enum_call = MC.enum_call


def enum_call(ex, cls, args, kwargs):
    if args and is_dyn(args[0]) and not ex.spec_mode:
        v = narrow(ex, args[0], 'i')
        if is_dyn(v) or v is None or is_str_sym(v) or isinstance(v, (str, bytes)) or (isinstance(v, Sym) and v.k == 'bytes'):
            ex.raise_(ValueError, 'not a valid enum value')
        return _orig_enum_call(ex, cls, [v] + list(args[1:]), kwargs)
    if args and is_dyn(args[0]):
        return mk_int(Dyn.iv(args[0].t))
    return _orig_enum_call(ex, cls, args, kwargs)


MC.enum_call = enum_call

_orig_m_iter = MC.NATIVE_MODELS[iter]
_orig_m_next = MC.NATIVE_MODELS[next]


def m_iter(ex, it):
    if isinstance(it, JItems):
        return it
    if is_jref(ex, it):
        return JItems(it, 'keys')
    return _orig_m_iter(ex, it)


def m_next(ex, it, *default):
    if isinstance(it, JItems):
        if it.taken:
            raise Unsupported('second element of the iteration over a dict of symbolic size')
        t = _recv_term(ex, it.recv)
        size_facts(ex, t)
        n = CARD(Dyn.items(t))
        if not ex.branch(mk_bool(n > 0)):
            if default:
                return default[0]
            ex.raise_(StopIteration)
        it.taken = 1
        if ex.proves(n == 1):
            k = SOLE(Dyn.items(t))
        else:
            k = z3.Int(ex.fresh_name('firstkey'))
            ex.add_def(has(t, k))
        key = mk_str(k)
        if it.what == 'keys':
            return key
        v = load_value(ex, cell(t, k), it.recv if isinstance(it.recv, Ref) else None, k)
        return v if it.what == 'values' else (key, v)
    return _orig_m_next(ex, it, *default)


MC.NATIVE_MODELS[iter] = m_iter
MC.NATIVE_MODELS[next] = m_next

_orig_pytype_of = MC.pytype_of


def pytype_of(ex, v):
    if is_str_sym(v):
        return str
    if is_jref(ex, v):
        return dict
    if is_dyn(v):
        p = _possible(z3.simplify(v.t))
        if p is not None and len(p) == 1:
            return {'none': type(None), 'b': bool, 'i': int, 's': str, 'y': bytes, 'd': dict}[next(iter(p))]
        return None
    return _orig_pytype_of(ex, v)


MC.pytype_of = pytype_of
if hasattr(M, 'pytype_of'):
    M.pytype_of = pytype_of

# -- engine.Path ---------------------------------------------------------------

_orig_truth = E.Path.truth


def dyn_truth_term(t):
    return z3.If(
        Dyn.is_none(t),
        z3.BoolVal(False),
        z3.If(Dyn.is_b(t), Dyn.bv(t), z3.If(Dyn.is_i(t), Dyn.iv(t) != 0, z3.If(Dyn.is_s(t), Dyn.sv(t) != str_id(''), z3.If(Dyn.is_y(t), z3.Length(Dyn.yv(t)) > 0, Dyn.items(t) != EMPTY_ITEMS)))),
    )


def truth(self, v):
    if is_str_sym(v):
        return mk_bool(v.t != str_id(''))
    if is_dyn(v):
        return mk_bool(dyn_truth_term(v.t))
    if is_jref(self, v):
        t = jterm(self, v)
        return mk_bool(Dyn.items(t) != EMPTY_ITEMS)
    return _orig_truth(self, v)


E.Path.truth = truth

_orig_length = E.Path.length


def length(self, v):
    if is_jref(self, v) or is_dyn(v):
        return j_len(self, v)
    if isinstance(v, JItems):
        return j_len(self, v.recv)
    if is_str_sym(v):
        raise Unsupported('len of a string identity')
    return _orig_length(self, v)


E.Path.length = length

_orig_ite = E.Path.ite


def ite(self, c, a, b):
    if isinstance(c, bool):
        return a if c else b
    if a is b:
        return a
    ka, kb = self.kind_of(a), self.kind_of(b)
    simple = ('int', 'bool', 'bytes')
    if (ka == kb and ka in simple) or ({ka, kb} <= {'int', 'bool'}) or isinstance(a, tuple) or isinstance(b, tuple):
        return _orig_ite(self, c, a, b)
    if ka == 'str' and kb == 'str' and (isinstance(a, str) or is_str_sym(a)) and (isinstance(b, str) or is_str_sym(b)):
        return mk_str(z3.If(zbool(c), zstr(a), zstr(b)))
    if dynable(self, a) and dynable(self, b):
        return load_value(self, z3.If(zbool(c), to_dyn(self, a), to_dyn(self, b)))
    return _orig_ite(self, c, a, b)


E.Path.ite = ite

# -- vcgen: types, frame -----------------------------------------------------------


class _SymStr(C.T):
    def __repr__(self):
        return 'SymStr'


SymStr = _SymStr()


class DynT(C.T):
    """a dynamic value; `dict_only`: known to be a dict"""

    def __init__(self, dict_only=False):
        self.dict_only = dict_only


AnyDyn = DynT()
DynDict = DynT(True)


class OptDyn(C.T):
    """Optional[t] for a scalar t (Int, Bool, Bytes, SymStr) held as one dynamic value (no case split)"""

    def __init__(self, t):
        self.t = t


class JDict(C.T):
    """a fresh *mutable* dict with arbitrary (symbolic) content"""


_orig_fresh = VG.Config.fresh


def fresh(self, path, t, hint):
    if t is SymStr:
        return path.fresh_sym('str', hint)
    if isinstance(t, DynT):
        s = path.fresh_sym('dyn', hint)
        path.add_def(Dyn.is_d(s.t) if t.dict_only else z3.Not(Dyn.is_absent(s.t)))
        return s
    if isinstance(t, OptDyn):
        s = path.fresh_sym('dyn', hint)
        alt = {C.Int: Dyn.is_i, C.Bool: Dyn.is_b, C.Bytes: Dyn.is_y}.get(t.t)
        if alt is None and t.t is SymStr:
            alt = Dyn.is_s
        if alt is None and isinstance(t.t, C.IntRange):
            alt = lambda x: z3.And(Dyn.is_i(x), Dyn.iv(x) >= t.t.lo, Dyn.iv(x) <= t.t.hi)
        if alt is None:
            raise Unsupported(f'OptDyn of {t.t!r}')
        path.add_def(z3.Or(Dyn.is_none(s.t), alt(s.t)))
        return s
    if isinstance(t, JDict):
        s = path.fresh_sym('dyn', hint)
        path.add_def(Dyn.is_d(s.t))
        return path.alloc(JObj(s.t))
    return _orig_fresh(self, path, t, hint)


VG.Config.fresh = fresh

_orig_check_frame = VG.Config.check_frame


def check_frame(self, path, tag):
    _orig_check_frame(self, path, tag)
    top = self.top
    if ('*' in getattr(top, 'modifies', ['*'])) or self.skeleton:
        return
    old = path.snapshots['old']
    saved = path.heap
    path.heap = old
    try:
        targets = self.loc_targets(path, top, path.entry_env)
    finally:
        path.heap = saved
    for oid, o0 in old.items():
        if isinstance(o0, JObj) and (oid, '*') not in targets:
            o1 = path.heap.get(oid)
            if not isinstance(o1, JObj) or not o0.term.eq(o1.term):
                t1 = jterm(path, Ref(oid)) if isinstance(o1, (JObj, JView)) else None
                path.oblige(self.obl_name(path, 'frame', 'jdict'), 'frame', False if t1 is None else mk_bool(o0.term == t1))


VG.Config.check_frame = check_frame

# -- comprehension over d.items() / d.keys() / d.values() of a dict of symbolic size ---------------------------------------
# The iteration of a dict is a sequence that is a function of the dict's content: ORDER (keys), ITEMS ((key, value) pairs),
# VALUES.  A comprehension over it then goes through the engine's recursively defined map function (seqspec), exactly
# like a comprehension over any other sequence of symbolic length: the same comprehension in the code and in a clause is
# the same function applied to the same sequence.
_PAIR = ('tup', ('str', 'dyn'))
ORDER = z3.Function('dict_order', ItemsS, z3.SeqSort(_IntS))
ITEMS = z3.Function('dict_items', ItemsS, z3.SeqSort(sort_of(_PAIR)))
VALUES = z3.Function('dict_values', ItemsS, z3.SeqSort(Dyn))

_orig_symbolic_comprehension = VG.Config.symbolic_comprehension


def items_seq(ex, t, what):
    a = Dyn.items(t)
    f, kind = {'keys': (ORDER, 'str'), 'items': (ITEMS, _PAIR), 'values': (VALUES, 'dyn')}[what]
    sq = f(a)
    done = ex.__dict__.setdefault('items_done', set())
    if sq.get_id() not in done and not ex.quant:
        done.add(sq.get_id())
        ex.keep.append(sq)
        size_facts(ex, t)
        ex.add_def(z3.Length(sq) == CARD(a))  # one element per key
    return Sym(sq, ('seq', kind))


def _is_dict_view_call(n):
    return isinstance(n, ast.Call) and isinstance(n.func, ast.Attribute) and n.func.attr in ('items', 'keys', 'values') and not n.args and not n.keywords


def symbolic_comprehension(self, path, elt, gens, node):
    ex = path
    if len(gens) == 1 and not gens[0].is_async and _is_dict_view_call(gens[0].iter):
        it = ex.eval(gens[0].iter)  # (.items() / .keys() / .values() of a dict: no side effect, evaluating it here is harmless)
        if isinstance(it, JItems):
            return ('sym', j_comprehension(ex, elt, gens[0], it))
    return _orig_symbolic_comprehension(self, path, elt, gens, node)


def j_comprehension(ex, elt, g, it):
    """[elt for target in d.items() if cond]: seqspec's map/filter function over the dict's item sequence.  The element
    expression is evaluated once for an arbitrary element e, of which is known what holds of every element of the
    iteration: its key is a key of d and its value is d[key] (obligations inside elt are therefore proved for every element)"""
    from .values import Frame

    if ex.quant:
        raise Unsupported('nested symbolic comprehension')
    t = _recv_term(ex, it.recv)
    seq = items_seq(ex, t, it.what)
    in_kind = seq.k[1]
    in_sort = sort_of(in_kind)
    e = z3.Const(ex.fresh_name('elem'), in_sort)
    ev_e = M.elem_to_value(ex, e, in_kind)
    if it.what == 'items':
        _, _, projs = VAL.tuple_parts(_PAIR)
        known = [has(t, projs[0](e)), projs[1](e) == cell(t, projs[0](e))]
    elif it.what == 'keys':
        known = [has(t, e)]
    else:
        known = [z3.Not(Dyn.is_absent(e))]
    frame = ex.alloc(Frame())
    saved_scope = ex.scope
    ex.scope = [frame] + list(ex.scope)
    n0 = len(ex.pc)
    ex.pc.extend(known)
    ex.quant += 1
    ex.spec_mode += 1
    try:
        ex.assign(g.target, ev_e)
        conds = [ex.truth(ex.eval(c)) for c in g.ifs]
        ev = ex.eval(elt)
    finally:
        ex.quant -= 1
        ex.spec_mode -= 1
        ex.scope = saved_scope
    del ex.pc[n0:]
    cterm = z3.And(*[zbool(c) if not isinstance(c, bool) else z3.BoolVal(c) for c in conds]) if conds else z3.BoolVal(True)
    out_kind = M.guess_kind(ex, ev)
    mterm = M.value_to_elem(ex, ev, out_kind)
    out_sort = sort_of(out_kind)
    fv, seen = {}, set()
    SS._free_consts(cterm, fv, seen)
    SS._free_consts(mterm, fv, seen)
    fv.pop(e.decl().name(), None)
    names = sorted(fv)
    actuals = [fv[n] for n in names]
    ph_e = z3.Const('__e', in_sort)
    phs = [z3.Const(f'__p{i}', a.sort()) for i, a in enumerate(actuals)]
    sub = [(e, ph_e)] + list(zip(actuals, phs))
    c_can = z3.substitute(cterm, *sub)
    m_can = z3.substitute(mterm, *sub)
    key = (c_can.sexpr(), m_can.sexpr(), str(in_sort), str(out_sort), tuple(str(p.sort()) for p in phs))
    ent = SS._REC_CACHE.get(key)
    if ent is None:
        idx = len(SS._REC_CACHE)
        S_ = z3.Const('__s', z3.SeqSort(in_sort))
        F = z3.RecFunction(f'comp{idx}', z3.SeqSort(in_sort), *[p.sort() for p in phs], z3.SeqSort(out_sort))
        head = S_[0]
        c_h = z3.substitute(c_can, (ph_e, head))
        m_h = z3.substitute(m_can, (ph_e, head))
        tail = z3.Extract(S_, 1, z3.Length(S_) - 1)
        body = z3.If(z3.Length(S_) == 0, z3.Empty(z3.SeqSort(out_sort)), z3.Concat(z3.If(c_h, z3.Unit(m_h), z3.Empty(z3.SeqSort(out_sort))), F(tail, *phs)))
        z3.RecAddDefinition(F, [S_] + phs, body)
        ent = {'F': F, 'idx': idx, 'S': S_, 'phs': phs, 'c': c_can, 'm': m_can, 'ph_e': ph_e, 'identity': False, 'in_sort': in_sort, 'out_sort': out_sort, 'lemmas_done': False}
        SS._REC_CACHE[key] = ent
    F = ent['F']
    res = F(seq.t, *actuals)
    for nm, ih, goal in SS._lemmas(ent):
        name = ex.cfg.obl_name(ex, 'lemma', f'comp{ent["idx"]}-{nm}')
        kkey = ('lemma', name)
        if not any(o.key == kkey for o in ex.obligations):
            ex.obligations.append(E.Obligation(name, 'lemma', list(ih), goal, ex.cur_loc, kkey, {'def_ids': set()}))
    for f in SS._instances(ent, seq.t, actuals, res):
        ex.add_def(f)
    return Sym(res, ('seq', out_kind))


VG.Config.symbolic_comprehension = symbolic_comprehension

# -- solve: concretisation ------------------------------------------------------------

_orig_eval_term = S.eval_term


def _dyn_value(model, t, depth=0):
    r = model.eval(t, model_completion=True)
    if z3.is_true(model.eval(Dyn.is_absent(t), model_completion=True)):
        return None
    for c in _CTORS:
        if z3.is_true(model.eval(getattr(Dyn, 'is_' + c)(t), model_completion=True)):
            break
    if c == 'none':
        return None
    if c == 'b':
        return z3.is_true(model.eval(Dyn.bv(t), model_completion=True))
    if c == 'i':
        return _orig_eval_term(model, Dyn.iv(t), 'int')
    if c == 's':
        return _str_value(model, _orig_eval_term(model, Dyn.sv(t), 'int'))
    if c == 'y':
        return _orig_eval_term(model, Dyn.yv(t), 'bytes')
    if depth > 6:
        return {}
    keys = set()
    try:
        for d in model.decls():
            if d.arity() == 0 and d.range() == _IntS:
                v = model[d]
                if z3.is_int_value(v):
                    keys.add(v.as_long())
    except z3.Z3Exception:
        pass
    _collect_ints(r, keys, 0)
    out = {}
    for k in sorted(keys):
        kv = z3.IntVal(k)
        if z3.is_false(model.eval(Dyn.is_absent(cell(t, kv)), model_completion=True)):
            out[_str_value(model, k)] = _dyn_value(model, cell(t, kv), depth + 1)
        if len(out) >= 12:
            break
    return out


def _collect_ints(t, acc, depth):
    if depth > 40:
        return
    if z3.is_int_value(t):
        acc.add(t.as_long())
        return
    if z3.is_app(t):
        for c in t.children():
            _collect_ints(c, acc, depth + 1)


_STR_MEMO = [None, {}, set()]


def _str_value(model, n):
    """python string for the string identity n under the model (injective per model).  An identity the model treats
    as a hex string becomes hex text of the bytes the model decodes it to (so that bytes.fromhex agrees natively);
    trailing blanks, which fromhex ignores, keep different identities different."""
    s = id_str(n)
    if not s.startswith('~'):
        return s
    if _STR_MEMO[0] is not model:
        _STR_MEMO[0], _STR_MEMO[1], _STR_MEMO[2] = model, {}, set()
    memo, used = _STR_MEMO[1], _STR_MEMO[2]
    if n in memo:
        return memo[n]
    try:
        if z3.is_true(model.eval(ISHEX(z3.IntVal(n)), model_completion=True)):
            s = _orig_eval_term(model, UNHEX(z3.IntVal(n)), 'bytes').hex()
            while s in used:
                s += ' '
    except z3.Z3Exception:
        pass
    memo[n] = s
    used.add(s)
    return s


def eval_term(model, t, kind):
    if kind == 'str':
        return _str_value(model, _orig_eval_term(model, t, 'int'))
    if kind == 'dyn':
        return _dyn_value(model, t)
    return _orig_eval_term(model, t, kind)


S.eval_term = eval_term

_orig_discharge = S.discharge


def _has_quantifier(fs):
    seen = set()
    stack = list(fs)
    while stack:
        t = stack.pop()
        if t.get_id() in seen:
            continue
        seen.add(t.get_id())
        if z3.is_quantifier(t):
            return True
        stack.extend(t.children())
    return False


def _has_var(t, seen):
    if t.get_id() in seen:
        return seen[t.get_id()]
    r = z3.is_var(t) or any(_has_var(c, seen) for c in t.children())
    seen[t.get_id()] = r
    return r


def _ground_item_arrays(t, acc, seen, vseen):
    """ground array terms items(X) (also inside quantifier bodies) and the ground index terms they are read at"""
    if t.get_id() in seen:
        return
    seen.add(t.get_id())
    if z3.is_quantifier(t):
        _ground_item_arrays(t.body(), acc, seen, vseen)
        return
    if z3.is_app(t):
        if t.sort() == ItemsS and t.decl().kind() == z3.Z3_OP_DT_ACCESSOR and not _has_var(t, vseen):
            acc.setdefault(t.get_id(), (t, {}))
        if t.decl().kind() == z3.Z3_OP_SELECT and t.arg(0).sort() == ItemsS and not _has_var(t, vseen):
            a = t.arg(0)
            if z3.is_app(a) and a.decl().kind() == z3.Z3_OP_DT_ACCESSOR:
                acc.setdefault(a.get_id(), (a, {}))[1][t.arg(1).get_id()] = t.arg(1)
        for c in t.children():
            _ground_item_arrays(c, acc, seen, vseen)


def discharge(ob, timeout_ms=20000, seed=0, both=False):
    """cover obligations (is the precondition satisfiable?) whose hypotheses contain quantifiers over dict items: z3's
    default search is erratic on them.  A model in which every dict has no keys besides the ones the formula reads
    (a strengthening, so its satisfiability implies that of the precondition) is found at once."""
    if ob.expect_sat:
        import time as _t

        t0 = _t.time()
        acc, seen, vseen = {}, set(), {}
        for p in ob.pc:
            _ground_item_arrays(p, acc, seen, vseen)
        for cfg in (({}, {'smt.auto_config': False, 'smt.mbqi': True, 'smt.ematching': False}) if acc else ()):
            s = z3.Solver()
            s.set('timeout', min(int(timeout_ms), 8000))
            for k, v in cfg.items():
                s.set(k, v)
            for p in ob.pc:
                s.add(p)
            for a, idx in acc.values():
                base = EMPTY_ITEMS
                for k in idx.values():
                    base = z3.Store(base, k, z3.Select(a, k))
                s.add(a == base)
            if s.check() == z3.sat:
                return {'status': 'proved', 'backend': 'z3', 'time': _t.time() - t0, 'detail': 'cover sat (dicts with finite support)'}
    r = _orig_discharge(ob, timeout_ms, seed, both)
    if r.get('status') == 'unknown' and not ob.expect_sat and _has_quantifier(ob.pc):
        # the same strengthening for a counter-model: a model of pc and not goal in which the dicts have finite support is
        # a model of pc and not goal
        import time as _t

        t0 = _t.time()
        fs = list(ob.pc) + [z3.Not(ob.goal)]
        acc, seen, vseen = {}, set(), {}
        for p in fs:
            _ground_item_arrays(p, acc, seen, vseen)
        if acc:
            s = z3.Solver()
            s.set('timeout', min(int(timeout_ms), 8000))
            for p in fs:
                s.add(p)
            for a, idx in acc.values():
                base = EMPTY_ITEMS
                for k in idx.values():
                    base = z3.Store(base, k, z3.Select(a, k))
                s.add(a == base)
            if s.check() == z3.sat:
                return {'status': 'refuted', 'backend': 'z3', 'time': r.get('time', 0.0) + _t.time() - t0, 'model': s.model(), 'detail': 'counter-model with finite dicts'}
    return r


S.discharge = discharge

_orig_small_model = S.small_model


def _item_cells(t, acc, seen):
    """array terms items(X) and the index terms they are read at, in the formula t"""
    if t.get_id() in seen:
        return
    seen.add(t.get_id())
    if z3.is_quantifier(t):
        return
    if z3.is_app(t):
        if t.decl().kind() == z3.Z3_OP_SELECT and t.arg(0).sort() == ItemsS:
            a = t.arg(0)
            if z3.is_app(a) and a.decl().kind() == z3.Z3_OP_DT_ACCESSOR:
                acc.setdefault(a.get_id(), (a, {}))[1][t.arg(1).get_id()] = t.arg(1)
        for c in t.children():
            _item_cells(c, acc, seen)


def small_model(ob, s):
    """prefer a model in which every symbolic dict has no keys besides the ones the formula reads (a finite dict the
    replay can build exactly); falls back to the solver's model"""
    m = _orig_small_model(ob, s)
    try:
        acc, seen = {}, set()
        for f in s.assertions():
            _item_cells(f, acc, seen)
        if not acc:
            return m
        s.push()
        s.set('timeout', 3000)
        for a, idx in acc.values():
            base = EMPTY_ITEMS
            for k in idx.values():
                base = z3.Store(base, k, z3.Select(a, k))
            s.add(a == base)
        if s.check() == z3.sat:
            m = s.model()
        s.pop()
    except z3.Z3Exception:
        pass
    return m


S.small_model = small_model

_orig_model_value = S.model_value


def model_value(model, v, heap, memo=None):
    if isinstance(v, Ref) and v.oid in heap and isinstance(heap[v.oid], (JObj, JView)):
        o = heap[v.oid]
        if isinstance(o, JObj):
            return _dyn_value(model, o.term)
        t = heap[o.root].term
        for k in o.path:
            t = cell(t, k)
        return _dyn_value(model, t)
    return _orig_model_value(model, v, heap, memo)


S.model_value = model_value


# -- replay: contract kwarg native_patches=[(module name, attribute)]: module globals that `native_setup` replaces for the
#    native run (fake `open`, `json`, `os` of the module under test); they are restored after every native run
from . import replay as R  # noqa: E402

_orig_run_native = R.run_native
_MISSING = object()


def run_native(top, registry, state, extra_check=None):
    import importlib

    saved = []
    for modname, attr in (getattr(top, 'extra', None) or {}).get('native_patches', ()):
        mod = importlib.import_module(modname)
        saved.append((mod, attr, mod.__dict__.get(attr, _MISSING)))
    try:
        return _orig_run_native(top, registry, state, extra_check)
    finally:
        for mod, attr, v in saved:
            if v is _MISSING:
                mod.__dict__.pop(attr, None)
            else:
                setattr(mod, attr, v)


R.run_native = run_native


# ---------------------------------------------------------------------------
# spec helpers: a native meaning (replay) and a symbolic one (SPEC_FORMS)
# ---------------------------------------------------------------------------


def is_dict(x):
    return isinstance(x, dict)


def is_int(x):
    return isinstance(x, int) and not isinstance(x, bool)


def is_bool(x):
    return isinstance(x, bool)


def is_str(x):
    return isinstance(x, str)


def is_hexstr(x):
    """a str that bytes.fromhex accepts"""
    if not isinstance(x, str):
        return False
    try:
        bytes.fromhex(x)
        return True
    except ValueError:
        return False


def hexs(b):
    return bytes(b).hex()


def unhex(s):
    return bytes.fromhex(s)


def put(d, k, v):
    """d with d[k] = v (a new dict)"""
    r = dict(d)
    r[k] = v
    return r


def put_opt(d, k, v):
    """d with d[k] = v when v is not None, else d (a new dict)"""
    r = dict(d)
    if v is not None:
        r[k] = v
    return r


def drop(d, k):
    """d without key k (a new dict)"""
    r = dict(d)
    r.pop(k, None)
    return r


def merged(d, s):
    r = dict(d)
    r.update(s)
    return r


def frozen(x):
    """the current value of x (an independent copy)"""
    return copy.deepcopy(x)


def mutable(x):
    """a fresh mutable object with the value x"""
    return copy.deepcopy(x)


def forall_items(d, f):
    return all(f(k, v) for k, v in d.items())


def sole_key(d):
    """the key of a dict with exactly one entry"""
    return next(iter(d))


def _typetest(rec):
    def impl(ex, args, kwargs):
        (x,) = args
        if is_dyn(x):
            return mk_bool(rec(x.t))
        if is_jref(ex, x):
            return mk_bool(rec(jterm(ex, x)))
        if dynable(ex, x):
            return mk_bool(rec(to_dyn(ex, x)))
        return False

    return impl


def q_is_hexstr(ex, args, kwargs):
    (x,) = args
    if isinstance(x, str):
        return is_hexstr(x)
    if is_str_sym(x):
        return mk_bool(ISHEX(x.t))
    if is_dyn(x):
        return mk_bool(z3.And(Dyn.is_s(x.t), ISHEX(Dyn.sv(x.t))))
    return False


def q_hexs(ex, args, kwargs):
    (b,) = args
    if is_dyn(b):
        b = mk_bytes(Dyn.yv(b.t))
    b = ex.as_bytes_value(b)
    if isinstance(b, bytes):
        return b.hex()
    return hex_of(ex, b)


def q_unhex(ex, args, kwargs):
    (s,) = args
    saved = ex.spec_mode
    ex.spec_mode += 1
    try:
        return m_bytes_fromhex(ex, s)
    finally:
        ex.spec_mode = saved


def _dict_term(ex, d):
    if is_dyn(d) or is_jref(ex, d) or (isinstance(d, Ref) and isinstance(ex.obj(d), DObj)) or isinstance(d, dict):
        return to_dyn(ex, d)
    raise Unsupported(f'dict expected, got {d!r}')


def q_put(ex, args, kwargs):
    d, k, v = args
    t, kid = _dict_term(ex, d), key_id(ex, k)
    new = z3.simplify(d_put(t, kid, to_dyn(ex, v)))
    card_step(ex, t, new, kid)
    return mk_dyn(new)


def q_put_opt(ex, args, kwargs):
    d, k, v = args
    t, kid, vt = _dict_term(ex, d), key_id(ex, k), z3.simplify(to_dyn(ex, v))
    nn = z3.simplify(z3.Not(Dyn.is_none(vt)))
    if z3.is_true(nn):
        return mk_dyn(d_put(t, kid, vt))
    if z3.is_false(nn):
        return mk_dyn(t)
    return mk_dyn(Dyn.d(z3.Store(Dyn.items(t), kid, z3.If(nn, vt, cell(t, kid)))))


def q_drop(ex, args, kwargs):
    d, k = args
    t, kid = _dict_term(ex, d), key_id(ex, k)
    new = z3.simplify(d_drop(t, kid))
    card_step(ex, t, new, kid)
    return mk_dyn(new)


def q_merged(ex, args, kwargs):
    d, s = args
    return mk_dyn(d_merge(ex, _dict_term(ex, d), _dict_term(ex, s)))


def q_frozen(ex, args, kwargs):
    (x,) = args
    return load_value(ex, to_dyn(ex, x))


def q_mutable(ex, args, kwargs):
    (x,) = args
    return ex.alloc(JObj(z3.simplify(_dict_term(ex, x))))


def q_forall_items(ex, args, kwargs):
    d, f = args
    t = _dict_term(ex, d)
    k = ex.fresh_sym('str', 'qk')
    n0 = len(ex.pc)
    ex.quant += 1
    ex.spec_mode += 1
    try:
        body = ex.truth(ex.call(f, [k, mk_dyn(cell(t, k.t))], {}))
    finally:
        ex.quant -= 1
        ex.spec_mode -= 1
    added = ex.pc[n0:]
    del ex.pc[n0:]
    b = zbool(body) if not isinstance(body, bool) else z3.BoolVal(body)
    return mk_bool(z3.ForAll([k.t], z3.Implies(z3.And(has(t, k.t), *added), b)))


def q_sole_key(ex, args, kwargs):
    (d,) = args
    return mk_str(SOLE(Dyn.items(_dict_term(ex, d))))


_VALUE_UFS = {}


def register_uf(fn, tag):
    """fn(x): natively the given function; symbolically an uninterpreted function of the *value* of x into opaque
    identities of kind tag (only determinism is known)"""
    f = z3.Function('uf_' + fn.__name__, Dyn, _IntS)
    _VALUE_UFS[fn] = f

    def impl(ex, args, kwargs):
        (x,) = args
        return Sym(z3.simplify(f(to_dyn(ex, x))), ('opq', tag))

    SS.SPEC_FORMS[fn] = impl


SS.SPEC_FORMS.update(
    {
        is_dict: _typetest(Dyn.is_d),
        is_int: _typetest(Dyn.is_i),
        is_bool: _typetest(Dyn.is_b),
        is_str: _typetest(Dyn.is_s),
        is_hexstr: q_is_hexstr,
        hexs: q_hexs,
        unhex: q_unhex,
        put: q_put,
        put_opt: q_put_opt,
        drop: q_drop,
        merged: q_merged,
        frozen: q_frozen,
        mutable: q_mutable,
        forall_items: q_forall_items,
        sole_key: q_sole_key,
    }
)
