"""Spec-level forms with a symbolic meaning: quantifiers, and the symbolic
map/filter comprehensions over sequences of symbolic length."""
from __future__ import annotations

import z3

from . import contracts as C
from .engine import Unsupported, mk_bool, mk_int, zbool, zint
from .values import Sym


def _quant(ex, lo, hi, f, universal):
    i = ex.fresh_sym('int', 'q')
    n0 = len(ex.pc)
    ex.quant += 1
    ex.spec_mode += 1
    try:
        body = ex.truth(ex.call(f, [i], {}))
    finally:
        ex.quant -= 1
        ex.spec_mode -= 1
    added = ex.pc[n0:]
    del ex.pc[n0:]
    rng = z3.And(zint(lo) <= i.t, i.t < zint(hi))
    b = zbool(body) if not isinstance(body, bool) else z3.BoolVal(body)
    if universal:
        inner = z3.Implies(z3.And(rng, *added), b)
        return mk_bool(z3.ForAll([i.t], inner))
    inner = z3.And(rng, b, *added)
    return mk_bool(z3.Exists([i.t], inner))


def q_forall(ex, args, kwargs):
    lo, hi, f = args
    return _quant(ex, lo, hi, f, True)


def q_exists(ex, args, kwargs):
    lo, hi, f = args
    return _quant(ex, lo, hi, f, False)


def q_implies(ex, args, kwargs):
    a, b = args
    ta, tb = ex.truth(a), ex.truth(b)
    if isinstance(ta, bool):
        return tb if ta else True
    if isinstance(tb, bool):
        return True if tb else mk_bool(z3.Not(zbool(ta)))
    return mk_bool(z3.Implies(zbool(ta), zbool(tb)))


def q_iff(ex, args, kwargs):
    a, b = args
    ta, tb = ex.truth(a), ex.truth(b)
    if isinstance(ta, bool) and isinstance(tb, bool):
        return ta == tb
    za = zbool(ta) if not isinstance(ta, bool) else z3.BoolVal(ta)
    zb = zbool(tb) if not isinstance(tb, bool) else z3.BoolVal(tb)
    return mk_bool(za == zb)


def q_ite(ex, args, kwargs):
    c, a, b = args
    return ex.ite(ex.truth(c), a, b)


def q_fresh_int(ex, args, kwargs):
    return ex.fresh_sym('int', 'ghost')


def q_at(ex, args, kwargs):
    seq, i = args
    saved = ex.spec_mode
    ex.spec_mode += 1
    try:
        return ex.subscript(seq, i)
    finally:
        ex.spec_mode = saved


SPEC_FORMS = {
    C.at: q_at,
    C.forall: q_forall,
    C.exists: q_exists,
    C.implies: q_implies,
    C.iff: q_iff,
    C.ite: q_ite,
    C.fresh_int: q_fresh_int,
}


def symbolic_comprehension(ex, elt, gens, node):
    return None
