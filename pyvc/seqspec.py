"""Spec-level forms with a symbolic meaning: quantifiers, and the symbolic
map/filter comprehensions over sequences of symbolic length."""
from __future__ import annotations

import z3

from . import contracts as C
from .engine import Unsupported, mk_bool, mk_int, zbool, zint
from .values import Sym


def _quant(ex, lo, hi, f, universal):
    i = ex.fresh_sym('int', 'q')
    n0 = len(ex.pc)
    ex.quant += 1
    ex.spec_mode += 1
    try:
        body = ex.truth(ex.call(f, [i], {}))
    finally:
        ex.quant -= 1
        ex.spec_mode -= 1
    added = ex.pc[n0:]
    del ex.pc[n0:]
    rng = z3.And(zint(lo) <= i.t, i.t < zint(hi))
    b = zbool(body) if not isinstance(body, bool) else z3.BoolVal(body)
    if universal:
        inner = z3.Implies(z3.And(rng, *added), b)
        return mk_bool(z3.ForAll([i.t], inner))
    inner = z3.And(rng, b, *added)
    return mk_bool(z3.Exists([i.t], inner))


def q_forall(ex, args, kwargs):
    lo, hi, f = args
    return _quant(ex, lo, hi, f, True)


def q_exists(ex, args, kwargs):
    lo, hi, f = args
    return _quant(ex, lo, hi, f, False)


def q_implies(ex, args, kwargs):
    a, b = args
    ta, tb = ex.truth(a), ex.truth(b)
    if isinstance(ta, bool):
        return tb if ta else True
    if isinstance(tb, bool):
        return True if tb else mk_bool(z3.Not(zbool(ta)))
    return mk_bool(z3.Implies(zbool(ta), zbool(tb)))


def q_iff(ex, args, kwargs):
    a, b = args
    ta, tb = ex.truth(a), ex.truth(b)
    if isinstance(ta, bool) and isinstance(tb, bool):
        return ta == tb
    za = zbool(ta) if not isinstance(ta, bool) else z3.BoolVal(ta)
    zb = zbool(tb) if not isinstance(tb, bool) else z3.BoolVal(tb)
    return mk_bool(za == zb)


def q_ite(ex, args, kwargs):
    c, a, b = args
    return ex.ite(ex.truth(c), a, b)


def q_fresh_int(ex, args, kwargs):
    return ex.fresh_sym('int', 'ghost')


def q_at(ex, args, kwargs):
    seq, i = args
    saved = ex.spec_mode
    ex.spec_mode += 1
    try:
        try:
            return ex.subscript(seq, i)
        except Exception as e:
            # a concrete sequence indexed outside its bounds: `at` is total (unspecified value)
            if type(e).__name__ == 'PyExc' and isinstance(seq, (bytes, tuple)):
                return ex.fresh_sym('int', 'at')
            raise
    finally:
        ex.spec_mode = saved


def q_mhas(ex, args, kwargs):
    from . import models as M

    m, k = args
    return M.contains(ex, m, k)


def q_mget(ex, args, kwargs):
    from . import models as M
    from .values import DObj, ElemRef, MObj, Obj, Ref

    m, k, name = args
    ho = ex.obj(m)
    if isinstance(ho, MObj):
        v = M.elem_get(ex, ElemRef(m, M.plain(k)), name, raw=True)
        return v
    if isinstance(ho, DObj):
        key = M.dict_find(ex, ho, M.wrap_key(k))
        if key is M._MISSING:
            return 0
        v = ex.getattr(ex.wrap(ho.items[key], m), name)
        if isinstance(v, Ref) and isinstance(ex.obj(v), Obj) and '_flag' in ex.obj(v).fields:
            return ex.obj(v).fields['_flag']
        return v
    raise Unsupported('mget on a non-dict')


_UFS = {}


def q_uf(ex, args, kwargs):
    from . import models as M

    name = args[0]
    vals = [M.plain(a) for a in args[1:]]
    terms = []
    for v in vals:
        k = ex.kind_of(v)
        if k in ('int', 'bool'):
            terms.append(zint(v))
        elif k in ('bytes', 'bytearray'):
            from .engine import zbytes

            terms.append(zbytes(ex.as_bytes_value(v)))
        else:
            raise Unsupported(f'uf argument of kind {k}')
    key = (name, tuple(str(t.sort()) for t in terms))
    f = _UFS.get(key)
    if f is None:
        f = z3.Function(f'uf_{name}', *[t.sort() for t in terms], z3.IntSort())
        _UFS[key] = f
    return mk_int(f(*terms))


def q_ufb(ex, args, kwargs):
    """bytes-valued uninterpreted function with a result of concrete length n: one Int-valued
    function per output byte position (so that results are concatenations of units, like
    every other byte string of concrete length)"""
    from . import models as M
    from .engine import mk_bytes, zbytes

    name, n = args[0], M.plain(args[1])
    if not isinstance(n, int):
        raise Unsupported('ufb with symbolic result length')
    terms = []
    for v in [M.plain(a) for a in args[2:]]:
        k = ex.kind_of(v)
        if k in ('int', 'bool'):
            terms.append(zint(v))
        elif k in ('bytes', 'bytearray'):
            terms.append(z3.simplify(zbytes(ex.as_bytes_value(v))))
        else:
            raise Unsupported(f'ufb argument of kind {k}')
    if n == 0:
        return b''
    units = []
    for j in range(n):
        key = (name, j, tuple(str(t.sort()) for t in terms))
        f = _UFS.get(key)
        if f is None:
            f = z3.Function(f'ufb_{name}_{j}', *[t.sort() for t in terms], z3.IntSort())
            _UFS[key] = f
        bj = f(*terms)
        ex.add_def(z3.And(bj >= 0, bj <= 255))
        M.mark_byte(ex, bj)
        units.append(z3.Unit(bj))
    return mk_bytes(units[0] if n == 1 else z3.Concat(*units))


def q_same(ex, args, kwargs):
    import ast

    a, b = args
    return ex.compare_op(ast.Is(), a, b)


def q_forall_in(ex, args, kwargs):
    from . import models as M

    seq, f = args
    items = ex.concrete_iter(seq)
    if items is not None:
        return ex.bool_and([ex.truth(ex.call(f, [x], {})) for x in items])
    s = ex.as_symseq(seq)
    if s is None:
        raise Unsupported('forall_in over a value that is not a sequence')
    kind = 'int' if s.k == 'bytes' else s.k[1]
    e = z3.Const(ex.fresh_name('e'), M.sort_of(kind))
    n0 = len(ex.pc)
    ex.quant += 1
    ex.spec_mode += 1
    try:
        body = ex.truth(ex.call(f, [M.elem_to_value(ex, e, kind)], {}))
    finally:
        ex.quant -= 1
        ex.spec_mode -= 1
    added = ex.pc[n0:]
    del ex.pc[n0:]
    b = zbool(body) if not isinstance(body, bool) else z3.BoolVal(body)
    return mk_bool(z3.ForAll([e], z3.Implies(z3.And(z3.Contains(s.t, z3.Unit(e)), *added), b)))


def q_rec_live(ex, args, kwargs):
    from .values import ElemRef

    (x,) = args
    if not isinstance(x, ElemRef):
        raise Unsupported('rec_live of a value that is not a record reference')
    return mk_bool(z3.Select(ex.obj(x.mref).dom, zint(x.key)))


SPEC_FORMS = {
    C.same: q_same,
    C.rec_live: q_rec_live,
    C.forall_in: q_forall_in,
    C.ufb: q_ufb,
    C.uf: q_uf,
    C.mhas: q_mhas,
    C.mget: q_mget,
    C.at: q_at,
    C.forall: q_forall,
    C.exists: q_exists,
    C.implies: q_implies,
    C.iff: q_iff,
    C.ite: q_ite,
    C.fresh_int: q_fresh_int,
}


_REC_CACHE = {}


def _free_consts(t, acc, seen):
    if t.get_id() in seen:
        return
    seen.add(t.get_id())
    if z3.is_const(t) and t.decl().kind() == z3.Z3_OP_UNINTERPRETED:
        acc[t.decl().name()] = t
        return
    if z3.is_quantifier(t):
        _free_consts(t.body(), acc, seen)
        return
    for c in t.children():
        _free_consts(c, acc, seen)


def symbolic_comprehension(ex, elt, gens, node):
    """[elt for target in SEQ if cond] over a sequence of symbolic length becomes an
    application of a recursively defined function (filter/map); its basic inductive
    lemmas are generated as obligations and instantiated as hints."""
    import ast

    from . import models as M
    from .engine import Obligation
    from .values import Frame, LObj, Ref

    if len(gens) != 1 or gens[0].is_async:
        return None
    g = gens[0]
    it = ex.eval(g.iter)
    seq = ex.as_symseq(it)
    if seq is None:
        if ex.concrete_iter(it) is None:
            if ex.skeleton and type(it).__name__ == 'Unknown':
                return ('concrete', it)  # skeleton profile: the generic path turns it into an Unknown result
            raise Unsupported('comprehension over an iterable that is neither concrete nor a symbolic sequence')
        # concrete spine: let the generic unrolling handle it, but do not evaluate g.iter twice
        return ('concrete', it)
    in_kind = 'int' if seq.k == 'bytes' else seq.k[1]
    in_sort = M.sort_of(in_kind)
    e = z3.Const(ex.fresh_name('elem'), in_sort)
    frame = ex.alloc(Frame())
    saved_scope = ex.scope
    ex.scope = [frame] + list(ex.scope)
    n0 = len(ex.pc)
    ex.quant += 1
    ex.spec_mode += 1
    try:
        ex.assign(g.target, M.elem_to_value(ex, e, in_kind))
        conds = [ex.truth(ex.eval(c)) for c in g.ifs]
        ev = ex.eval(elt)
    finally:
        ex.quant -= 1
        ex.spec_mode -= 1
        ex.scope = saved_scope
    del ex.pc[n0:]
    cterm = z3.And(*[zbool(c) if not isinstance(c, bool) else z3.BoolVal(c) for c in conds]) if conds else z3.BoolVal(True)
    out_kind = M.guess_kind(ex, ev)
    mterm = M.value_to_elem(ex, ev, out_kind)
    out_sort = M.sort_of(out_kind)
    identity = False
    if out_sort == in_sort:
        if z3.simplify(mterm).eq(e):
            identity = True
        else:
            chk = z3.Solver()
            chk.set('timeout', 2000)
            chk.add(mterm != e)
            identity = chk.check() == z3.unsat
    fv = {}
    seen = set()
    _free_consts(cterm, fv, seen)
    _free_consts(mterm, fv, seen)
    fv.pop(e.decl().name(), None)
    names = sorted(fv)
    actuals = [fv[n] for n in names]
    # canonical key: body with the element and the free variables replaced by placeholders
    ph_e = z3.Const('__e', in_sort)
    phs = [z3.Const(f'__p{i}', a.sort()) for i, a in enumerate(actuals)]
    sub = [(e, ph_e)] + list(zip(actuals, phs))
    c_can = z3.substitute(cterm, *sub)
    m_can = z3.substitute(mterm, *sub)
    key = (c_can.sexpr(), m_can.sexpr(), str(in_sort), str(out_sort), tuple(str(p.sort()) for p in phs))
    ent = _REC_CACHE.get(key)
    if ent is None:
        idx = len(_REC_CACHE)
        S = z3.Const('__s', z3.SeqSort(in_sort))
        F = z3.RecFunction(f'comp{idx}', z3.SeqSort(in_sort), *[p.sort() for p in phs], z3.SeqSort(out_sort))
        head = S[0]
        c_h = z3.substitute(c_can, (ph_e, head))
        m_h = z3.substitute(m_can, (ph_e, head))
        tail = z3.Extract(S, 1, z3.Length(S) - 1)
        body = z3.If(
            z3.Length(S) == 0,
            z3.Empty(z3.SeqSort(out_sort)),
            z3.Concat(z3.If(c_h, z3.Unit(m_h), z3.Empty(z3.SeqSort(out_sort))), F(tail, *phs)),
        )
        z3.RecAddDefinition(F, [S] + phs, body)
        ent = {'F': F, 'idx': idx, 'S': S, 'phs': phs, 'c': c_can, 'm': m_can, 'ph_e': ph_e, 'identity': bool(identity), 'in_sort': in_sort, 'out_sort': out_sort, 'lemmas_done': False}
        _REC_CACHE[key] = ent
    F = ent['F']
    res = F(seq.t, *actuals)
    # lemma obligations (once per function per run): proved by induction on the sequence
    for nm, ih, goal in _lemmas(ent):
        name = ex.cfg.obl_name(ex, 'lemma', f'comp{ent["idx"]}-{nm}')
        kkey = ('lemma', name)
        if not any(o.key == kkey for o in ex.obligations):
            ex.obligations.append(Obligation(name, 'lemma', list(ih), goal, ex.cur_loc, kkey, {'def_ids': set()}))
    # instances of the lemmas for this application (hints)
    for f in _instances(ent, seq.t, actuals, res):
        ex.add_def(f)
    out_seq_kind = ('seq', out_kind)
    return ('sym', Sym(res, out_seq_kind))


def _lemmas(ent):
    """(name, induction hypotheses, goal): goal is the statement for an arbitrary non-empty or
    empty s, hypotheses the same statement for its tail"""
    S, phs, F = ent['S'], ent['phs'], ent['F']
    tail = z3.Extract(S, 1, z3.Length(S) - 1)

    def stmt_len(x):
        return z3.Length(F(x, *phs)) <= z3.Length(x)

    out = [('len', [z3.Implies(z3.Length(S) > 0, stmt_len(tail))], stmt_len(S))]
    if z3.is_true(z3.simplify(ent['c'])):

        def stmt_leneq(x):
            return z3.Length(F(x, *phs)) == z3.Length(x)

        out = [('len-eq', [z3.Implies(z3.Length(S) > 0, stmt_leneq(tail))], stmt_leneq(S))]
    i = z3.Int('__i')

    def stmt_all(x):
        fx = F(x, *phs)
        # every produced element is the image of an element satisfying the condition: for the
        # identity map, the condition holds of every element of the result
        return z3.ForAll([i], z3.Implies(z3.And(i >= 0, i < z3.Length(fx)), z3.substitute(ent['c'], (ent['ph_e'], fx[i]))))

    def stmt_id(x):
        fx = F(x, *phs)
        return z3.Implies(z3.Length(fx) == z3.Length(x), fx == x)

    def inst_all(x, j):
        fx = F(x, *phs)
        return z3.Implies(z3.And(j >= 0, j < z3.Length(fx)), z3.substitute(ent['c'], (ent['ph_e'], fx[j])))

    if ent['identity']:
        # the quantified statement is proved for an arbitrary index __i; the induction
        # hypothesis (for the tail) is instantiated at __i and __i - 1
        out.append(('all-satisfy', [z3.Implies(z3.Length(S) > 0, z3.And(inst_all(tail, i), inst_all(tail, i - 1), stmt_len(tail)))], inst_all(S, i)))
        out.append(('id-if-same-length', [z3.Implies(z3.Length(S) > 0, z3.And(stmt_id(tail), stmt_len(tail)))], stmt_id(S)))
    return out


def _instances(ent, s, actuals, res):
    phs = ent['phs']
    sub = [(ent['S'], s)] + list(zip(phs, actuals))
    out = []
    for nm, ih, goal in _lemmas(ent):
        g = z3.substitute(goal, *sub)
        if nm == 'all-satisfy':
            g = z3.ForAll([z3.Int('__i')], g)  # proved for an arbitrary index
        out.append(g)
    return out
