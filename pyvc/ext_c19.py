"""Engine extension used by the C19 contracts: *opaque records*.

`Opaque(tag)` values are object identities (an Int id).  Many functions only READ a few attributes of the
objects they are handed in lists (sdp.ServiceAttribute.id/.value, DataElement.type/.value/.value_size, ...)
and never write them.  `opaque_record(tag, field=T, ...)` declares such read-only attributes: reading
`obj.field` of an opaque value of that tag is the application of an uninterpreted function `fld_<tag>_<field>`
to the identity -- deterministic (the same object always has the same attribute value), otherwise arbitrary.
Element types: Int / IntRange / Bool / Bytes / Opaque(..) / ListOf(of those).

Assumption this encodes (listed in ENVIRONMENT of the contracts that use it): the declared attributes are not
assigned while the function under contract runs (an assignment to an attribute of an opaque value is Unsupported,
never ignored).  Native replay builds `Stub` objects for opaque values, so counter-models over opaque records are
not replayable (they end as UNDECIDED unless reproduced by a hand-written native script).

Also: `uf(name, ..)` accepts opaque identities as arguments.
"""
import z3

from . import contracts as C
from . import models as _models
from . import seqspec as _seqspec
from .values import Sym, sort_of

OPAQUE_FIELDS = {}  # tag -> {field: T}
_FUNCS = {}


def opaque_record(tag, **fields):
    OPAQUE_FIELDS.setdefault(tag, {}).update(fields)
    return C.Opaque(tag)


def _kind(t):
    from .vcgen import kind_of_T

    return kind_of_T(t)


def _field(ex, o, tag, name, t):
    kind = _kind(t)
    key = (tag, name)
    f = _FUNCS.get(key)
    if f is None:
        f = z3.Function(f'fld_{tag}_{name}', z3.IntSort(), sort_of(kind))
        _FUNCS[key] = f
    term = f(o.t)
    if isinstance(t, C.IntRange):
        ex.add_def(z3.And(term >= t.lo, term <= t.hi))
    return Sym(term, kind)


_orig_getattr = _models.getattr_


def getattr_(ex, o, name):
    if isinstance(o, Sym) and isinstance(o.k, tuple) and o.k[0] == 'opq':
        flds = OPAQUE_FIELDS.get(o.k[1])
        if flds is not None and name in flds:
            return _field(ex, o, o.k[1], name, flds[name])
    return _orig_getattr(ex, o, name)


_models.getattr_ = getattr_

_orig_uf = _seqspec.SPEC_FORMS[C.uf]


def q_uf(ex, args, kwargs):
    args = [Sym(a.t, 'int') if isinstance(a, Sym) and isinstance(a.k, tuple) and a.k[0] == 'opq' else a for a in args]
    return _orig_uf(ex, args, kwargs)


_seqspec.SPEC_FORMS[C.uf] = q_uf


class SymKeyDict(C.T):
    """a dict with a concrete spine of n entries under *symbolic, pairwise distinct* keys of type key_t (the same
    construction as pyvc.ext_c20.ConcDict, repeated here so that the C19 files need not import the C20 extensions, which
    also change f-string evaluation): lookups / stores case-split over the entries (models.dict_find)"""

    def __init__(self, key_t, val_t, n=0):
        self.key_t, self.val_t, self.n = key_t, val_t, n

    def fresh(self, cfg, path, hint):
        from .models import wrap_key
        from .values import DObj

        keys = [cfg.fresh(path, self.key_t, f'{hint}.k{i}') for i in range(self.n)]
        for i in range(self.n):
            for j in range(i):
                path.add_def(keys[i].t != keys[j].t)  # dict keys are distinct
        return path.alloc(DObj({wrap_key(k): cfg.fresh(path, self.val_t, f'{hint}.v{i}') for i, k in enumerate(keys)}))


# ---------------------------------------------------------------------------
# `modifies` entries may index a list with a concrete spine by a constant: 'self.local_endpoints[0].stream'
# (a field of an object held in a list).  Anything else with a subscript stays Unsupported.
# ---------------------------------------------------------------------------
import ast as _ast  # noqa: E402

from . import vcgen as _V  # noqa: E402
from .values import LObj as _LObj, Obj as _Obj, Ref as _Ref  # noqa: E402

_orig_loc = _V.Config._loc


def _subst_subscripts(path, node, env, binds):
    """replace every `<expr>[<int constant>]` by a fresh name bound to that list element"""

    def ev(n):
        if isinstance(n, _ast.Name):
            if n.id == 'ghost':
                return path.ghost
            if n.id in binds:
                return binds[n.id]
            if n.id not in env:
                raise _V.Unsupported(f'modifies: unknown name {n.id}')
            return env[n.id]
        if isinstance(n, _ast.Attribute):
            o = ev(n.value)
            if isinstance(o, _Ref) and isinstance(path.obj(o), _Obj):
                return path.obj(o).fields.get(n.attr)
            raise _V.Unsupported(f'modifies: cannot resolve {_ast.unparse(n)}')
        if isinstance(n, _ast.Subscript) and isinstance(n.slice, _ast.Constant) and type(n.slice.value) is int:
            o = ev(n.value)
            if isinstance(o, _Ref) and isinstance(path.obj(o), _LObj) and path.obj(o).items is not None and 0 <= n.slice.value < len(path.obj(o).items):
                return path.obj(o).items[n.slice.value]
            raise _V.Unsupported(f'modifies: {_ast.unparse(n)} is not an element of a list with a concrete spine')
        raise _V.Unsupported(f'modifies: unsupported form {_ast.unparse(n)}')

    class Tr(_ast.NodeTransformer):
        def visit_Subscript(self, n):
            name = f'__elem{len(binds)}'
            binds[name] = ev(n)
            return _ast.copy_location(_ast.Name(id=name, ctx=_ast.Load()), n)

    return Tr().visit(node)


def _loc(self, path, node, env, out, star):
    if any(isinstance(x, _ast.Subscript) for x in _ast.walk(node)):
        binds = {}
        node = _subst_subscripts(path, node, env, binds)
        env = dict(env, **binds)
    return _orig_loc(self, path, node, env, out, star)


_V.Config._loc = _loc
