"""Engine extension used by the C19 contracts: *opaque records*.

`Opaque(tag)` values are object identities (an Int id).  Many functions only READ a few attributes of the
objects they are handed in lists (sdp.ServiceAttribute.id/.value, DataElement.type/.value/.value_size, ...)
and never write them.  `opaque_record(tag, field=T, ...)` declares such read-only attributes: reading
`obj.field` of an opaque value of that tag is the application of an uninterpreted function `fld_<tag>_<field>`
to the identity -- deterministic (the same object always has the same attribute value), otherwise arbitrary.
Element types: Int / IntRange / Bool / Bytes / Opaque(..) / ListOf(of those).

Assumption this encodes (listed in ENVIRONMENT of the contracts that use it): the declared attributes are not
assigned while the function under contract runs (an assignment to an attribute of an opaque value is Unsupported,
never ignored).  Native replay builds `Stub` objects for opaque values, so counter-models over opaque records are
not replayable (they end as UNDECIDED unless reproduced by a hand-written native script).

Also: `uf(name, ..)` accepts opaque identities as arguments.
"""
import z3

from . import contracts as C
from . import models as _models
from . import seqspec as _seqspec
from .values import Sym, sort_of

OPAQUE_FIELDS = {}  # tag -> {field: T}
_FUNCS = {}


def opaque_record(tag, **fields):
    OPAQUE_FIELDS.setdefault(tag, {}).update(fields)
    return C.Opaque(tag)


def _kind(t):
    from .vcgen import kind_of_T

    return kind_of_T(t)


def _field(ex, o, tag, name, t):
    kind = _kind(t)
    key = (tag, name)
    f = _FUNCS.get(key)
    if f is None:
        f = z3.Function(f'fld_{tag}_{name}', z3.IntSort(), sort_of(kind))
        _FUNCS[key] = f
    term = f(o.t)
    if isinstance(t, C.IntRange):
        ex.add_def(z3.And(term >= t.lo, term <= t.hi))
    return Sym(term, kind)


_orig_getattr = _models.getattr_


def getattr_(ex, o, name):
    if isinstance(o, Sym) and isinstance(o.k, tuple) and o.k[0] == 'opq':
        flds = OPAQUE_FIELDS.get(o.k[1])
        if flds is not None and name in flds:
            return _field(ex, o, o.k[1], name, flds[name])
    return _orig_getattr(ex, o, name)


_models.getattr_ = getattr_

_orig_uf = _seqspec.SPEC_FORMS[C.uf]


def q_uf(ex, args, kwargs):
    args = [Sym(a.t, 'int') if isinstance(a, Sym) and isinstance(a.k, tuple) and a.k[0] == 'opq' else a for a in args]
    return _orig_uf(ex, args, kwargs)


_seqspec.SPEC_FORMS[C.uf] = q_uf
