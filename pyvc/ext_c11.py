"""Engine extension used by C11: `AnyListOf(T)` -- a list of *symbolic length* whose elements are objects.

PyVC's symbolic sequences hold scalars / tuples only.  The GATT server walks `self.attributes`, a list of
Attribute objects of any length.  `AnyListOf(Inst(...))` abstracts such a list by its length alone: every
element access (iteration step, subscript) yields a **fresh, unconstrained** instance of the element type
(subject to the type invariants of its model).  This is an over-approximation of any concrete list: whatever
the real elements are, some choice of the fresh values matches them, so every obligation proved holds for
every real list (relations *between* elements -- ordering by handle, distinctness -- are lost: precision only).
Appending forgets the element and increments the length.  A `for` over it is the invariant rule (cut) with the
index `_i`; without an invariant it is Unsupported, like every other symbolic-length loop.
"""
from __future__ import annotations

import ast

import z3

from . import contracts as C
from .engine import Unsupported, mk_bool, mk_int, zint
from .values import ExtObj, Sym


class AnyListOf(C.ExtT):
    def __init__(self, t):
        self.t = t

    def __repr__(self):
        return f'AnyListOf({self.t!r})'

    def fresh(self, cfg, path, hint):
        n = path.fresh_sym('int', hint + '.len')
        path.add_def(n.t >= 0)
        return path.alloc(AnyList(self.t, n))


def _freeze(ex, v):
    """self-contained description of a freshly created element (its fields are fresh symbols at this point), so
    that a counter-model can be turned into the real elements the path met -- see AnyList.ext_model"""
    from .values import Obj, Ref

    if isinstance(v, Ref):
        o = ex.obj(v)
        if isinstance(o, Obj) and o.model is not None:
            return {'__frozen__': o.model.name, 'fields': {n: _freeze(ex, x) for n, x in o.fields.items()}}
        return None
    if isinstance(v, tuple):
        return tuple(_freeze(ex, x) for x in v)
    return v


class AnyList(ExtObj):
    def __init__(self, elem_t, n, made=None):
        self.elem_t = elem_t
        self.n = n  # Sym int | python int
        # elements handed out by iteration along this path, in order (shared with the snapshots of this object:
        # the pre-state snapshot is what a counter-model is read from)
        self.made = made if made is not None else []

    def clone(self):
        return AnyList(self.elem_t, self.n, self.made)

    def __repr__(self):
        return f'AnyList({self.elem_t!r}, len={self.n})'

    def _elem(self, ex, hint, record=False):
        ex.abstraction_used = True
        e = ex.cfg.fresh(ex, self.elem_t, hint)
        if record:
            self.made.append(_freeze(ex, e))
        return e

    def ext_model(self, conc):
        """replay: the list of the elements this path iterated over, under the counter-model (`conc` concretises
        a symbol).  The native run then walks a real list that starts like the symbolic walk did."""

        def thaw(d):
            if isinstance(d, dict) and '__frozen__' in d:
                return {'__obj__': d['__frozen__'], 'fields': {n: thaw(x) for n, x in d['fields'].items()}}
            if isinstance(d, tuple):
                return tuple(thaw(x) for x in d)
            return conc(d)

        return {'__list__': [thaw(d) for d in self.made], 'flavor': 'list'}

    def ext_truth(self, ex, ref):
        return ex.compare_op(ast.Gt(), self.n, 0)

    def ext_len(self, ex, ref):
        return self.n

    def ext_havoc(self, ex, ref, hint):
        n = ex.fresh_sym('int', hint + '.len')
        ex.add_def(n.t >= 0)
        self.n = n

    def ext_unchanged(self, ex, other):
        if not isinstance(other, AnyList):
            return False
        if other.n is self.n:
            return True
        return mk_bool(zint(other.n) == zint(self.n))

    def ext_method(self, ex, ref, name, args, kwargs):
        if name == 'append' and len(args) == 1 and not kwargs:
            ex.wobj(ref).n = ex.binop(ast.Add(), self.n, 1)
            return None
        raise Unsupported(f'method {name} of a list of objects of symbolic length')

    def ext_subscript(self, ex, ref, i):
        from . import models as M

        i = M.plain(i)
        if ex.spec_mode and M.is_intlike(ex, i):
            # ghost code (indexing is total there): the i-th answer of an arbitrary environment; recorded like the
            # elements of an iteration so that a replay hands out the same answers in the same order
            return ex.obj(ref)._elem(ex, 'elem', record=True)
        if not M.is_intlike(ex, i):
            raise Unsupported('slice / non-integer index into a list of objects of symbolic length')
        n = zint(self.n)
        it = zint(i)
        if not ex.branch(mk_bool(z3.And(it >= -n, it < n))):
            ex.raise_(IndexError, 'list index out of range')
        return self._elem(ex, 'elem')

    def ext_for(self, ex, ref, s, spec):
        if spec is None:
            raise Unsupported(f'for loop over a list of objects of symbolic length without invariant at {ex.cur_loc}')
        itname = '_i'
        ex.store_name(itname, 0)
        me = self

        def test():
            # the length is read at each test: a body that appends to the list it iterates keeps going, as in CPython
            return ex.compare_op(ast.Lt(), ex.lookup(itname), ex.obj(ref).n)

        def pre_body():
            ex.assign(s.target, ex.obj(ref)._elem(ex, 'elem', record=True))

        def stepf():
            ex.store_name(itname, ex.binop(ast.Add(), ex.lookup(itname), 1))

        ex.cut_loop(s, spec, test, pre_body, (itname,), stepf)
