"""Engine extension used by C16: iteration over / emptiness of a *symbolic map* (`MapOf`, heap object `MObj`).

The teardown functions walk dicts of unknown size (`for c in channels.values(): c.abort()`,
`for _, connection in self.connections.items(): ...`) and test them for emptiness (`if channels := d.pop(h, None):`).
The core supports `in`, `[k]`, `get`, `pop`, `del` on a `MapOf`; this module adds, faithful to CPython's dict:

* truthiness: `bool(m)` == the key set is not empty (an existential over the domain array);
* `m.clear()`: the key set becomes empty (records are by value: nothing else to do);
* `m.values()` / `m.items()` / `m.keys()` as the iterable of a `for` loop **with an invariant** (cut rule).  The
  iteration order of a dict is not specified by its key set, so the rule does not fix one: the loop state is the set
  `_seen` of keys already visited (a local of the loop, usable in the invariant through `mhas(_seen, k)`),
      head:  _seen is a subset of the key set;  test: some key is not in _seen;
      body:  runs for an *arbitrary* key k that is in the map and not in _seen (`_k` names it);  step: _seen += {k};
      exit:  every key of the map is in _seen.
  A dict has finitely many keys, so the loop terminates (no variant needed) provided the body does not change the key
  set; if the key set at the end of the body is not the term it was at the head the rule gives up (Unsupported) --
  CPython raises RuntimeError ("dictionary changed size during iteration") in that case.
  Records are by value (no aliasing between two maps), the target of `values()`/`items()` is the record *in* the map
  (an ElemRef): attribute writes through it update the map's column, as with `m[k].f = v`.

Registered by wrapping `Path.truth` and `models_calls.map_method` at import; only contracts that import this
module are affected.
"""
from __future__ import annotations

import z3

from . import contracts as C
from . import engine as E
from . import models as M
from . import models_calls as MC
from . import seqspec
from .engine import Unsupported, mk_bool, zint
from .values import Bound, ElemRef, ExtObj, MObj, Ref, Unknown

_I = z3.IntSort()


def _nonempty(dom):
    k = z3.Int('k!dom')
    return z3.Exists([k], z3.Select(dom, k))


class SeenSet(MObj, ExtObj):
    """the visited-key set of a map iteration: an MObj without columns (so `mhas(_seen, k)` / `k in _seen` work)"""

    def __init__(self, dom):
        MObj.__init__(self, dom, {}, None, None)

    def clone(self):
        return SeenSet(self.dom)

    def ext_havoc(self, ex, ref, hint):
        self.dom = z3.Const(ex.fresh_name(f'{hint}.seen'), self.dom.sort())

    def ext_unchanged(self, ex, other):
        return True  # loop-control state of the iteration rule, not program state (no frame obligation)

    def ext_truth(self, ex, ref):
        return mk_bool(_nonempty(self.dom))


# record model name -> shape of the tuple a dict value really is, e.g. ('rec', 'channels') for a dict of
# (future, channels) pairs whose first component is modelled by the record and whose second one is never inspected
TUPLE_VALUES: dict = {}


class MapView(ExtObj):
    """`m.values()` / `m.items()` / `m.keys()` of a symbolic map: only usable as the iterable of a for loop"""

    def __init__(self, mref, what):
        self.mref = mref
        self.what = what

    def clone(self):
        return MapView(self.mref, self.what)

    def ext_unchanged(self, ex, other):
        return True

    def ext_havoc(self, ex, ref, hint):
        return None

    def ext_for(self, ex, ref, s, spec):
        if spec is None:
            raise Unsupported(f'for loop over a symbolic map without invariant at {ex.cur_loc}')
        mref = self.mref
        what = self.what
        sort = ex.obj(mref).dom.sort()
        ex.store_name('_seen', ex.alloc(SeenSet(z3.K(_I, False))))
        state = {}

        def test():
            # at the head (after the havoc of everything the loop may modify): the key set being iterated
            dom0 = ex.obj(mref).dom
            seen = ex.obj(ex.lookup('_seen')).dom
            state['dom0'] = dom0
            k = z3.Int(ex.fresh_name('k!sub'))
            ex.add_def(z3.ForAll([k], z3.Implies(z3.Select(seen, k), z3.Select(dom0, k))))
            k2 = z3.Int(ex.fresh_name('k!more'))
            return mk_bool(z3.Exists([k2], z3.And(z3.Select(dom0, k2), z3.Not(z3.Select(seen, k2)))))

        def pre_body():
            dom0 = state['dom0']
            seen = ex.obj(ex.lookup('_seen')).dom
            k = ex.fresh_sym('int', '_k')
            ex.add_def(z3.And(z3.Select(dom0, k.t), z3.Not(z3.Select(seen, k.t))))
            state['k'] = k
            ex.store_name('_k', k)
            er = ElemRef(mref, k)
            mdl = ex.obj(mref).elem_model
            shape = TUPLE_VALUES.get(mdl.name) if mdl is not None else None
            val = er
            if shape is not None:
                # the dict values are tuples; the record models one component ('rec'), the others are never inspected
                ex.abstraction_used = True
                val = tuple(er if c == 'rec' else Unknown(c) for c in shape)
            ex.assign(s.target, k if what == 'keys' else val if what == 'values' else (k, val))

        def stepf():
            if not ex.obj(mref).dom.eq(state['dom0']):
                raise Unsupported('the key set of a symbolic map changed while it is being iterated (CPython: RuntimeError)')
            w = ex.wobj(ex.lookup('_seen'))
            w.dom = z3.Store(w.dom, state['k'].t, True)

        ex.cut_loop(s, spec, test, pre_body, ('_seen',), stepf)


def forall_keys(m, f):
    """spec form: f(k) holds for every key k of the dict m (natively: over the actual keys; symbolically: a universal
    quantifier over all integers guarded by the key set of the symbolic map)"""
    return all(f(k) for k in list(m))


def q_forall_keys(ex, args, kwargs):
    m, f = args
    ho = ex.obj(m) if isinstance(m, Ref) else None
    if not isinstance(ho, MObj):
        from .values import DObj

        if isinstance(ho, DObj):
            return ex.bool_and([ex.truth(ex.call(f, [M.plain(k) if hasattr(M, 'plain') else k], {})) for k in list(ho.items)])
        raise Unsupported('forall_keys over a non-map')
    i = ex.fresh_sym('int', 'qk')
    n0 = len(ex.pc)
    ex.quant += 1
    ex.spec_mode += 1
    try:
        body = ex.truth(ex.call(f, [i], {}))
    finally:
        ex.quant -= 1
        ex.spec_mode -= 1
    added = ex.pc[n0:]
    del ex.pc[n0:]
    b = E.zbool(body) if not isinstance(body, bool) else z3.BoolVal(body)
    return mk_bool(z3.ForAll([i.t], z3.Implies(z3.And(z3.Select(ho.dom, i.t), *added), b)))


seqspec.SPEC_FORMS[forall_keys] = q_forall_keys

_orig_map_method = MC.map_method


def map_method(ex, ref, ho, name, args, kwargs):
    if name in ('values', 'items', 'keys') and not args and not kwargs:
        return ex.alloc(MapView(ref, name))
    if name == 'clear' and not args and not kwargs:
        ex.wobj(ref).dom = z3.K(_I, False)
        return None
    return _orig_map_method(ex, ref, ho, name, args, kwargs)


if MC.map_method.__module__ != __name__:
    MC.map_method = map_method

_orig_getattr = MC.getattr_


def getattr_(ex, o, name):
    """a record *inside* a symbolic map (ElemRef) is an object reference like any other: besides its modelled
    fields (columns) it has the methods of its model (recorded callbacks / spec functions) and the attributes of its
    real class (class constants, real methods -- executed on the record in place)"""
    if isinstance(o, ElemRef):
        ho = ex.obj(o.mref)
        if name not in ho.cols:
            mdl = ho.elem_model
            if mdl is not None and name in mdl.methods:
                m_ = mdl.methods[name]
                if isinstance(m_, C.Callback):
                    cbv = ex.cfg.fresh(ex, m_, name)
                    return Bound(cbv, o) if getattr(m_, 'with_self', False) else cbv
                return Bound(m_, o)
            if ho.elem_cls is not None:
                owner, raw = MC.class_lookup(ho.elem_cls, name)
                if owner is not None:
                    return MC.bind_class_attr(ex, o, owner, raw, name, ho.elem_cls)
    return _orig_getattr(ex, o, name)


if MC.getattr_.__module__ != __name__:
    MC.getattr_ = getattr_
    M.getattr_ = getattr_  # pyvc.models re-exports the names of models_calls; the engine calls through it

# record model name -> (Bool column, class when the column is True, class when it is False): the records of such a map
# stand for objects of EITHER class (e.g. ChannelManager.channels[handle] holds ClassicChannel and LeCreditBasedChannel
# objects); `isinstance(record, X)` / `type(record)` is answered from the column (a case split at the test)
KIND_CLASSES: dict = {}

_orig_pytype_of = MC.pytype_of


def pytype_of(ex, v):
    if isinstance(v, ElemRef):
        mdl = ex.obj(v.mref).elem_model
        spec = KIND_CLASSES.get(mdl.name) if mdl is not None else None
        if spec is not None:
            col, cls_true, cls_false = spec
            if ex.spec_mode:
                raise Unsupported('isinstance of a two-class record in a specification (read the kind column instead)')
            return cls_true if ex.branch(ex.truth(M.elem_get(ex, v, col))) else cls_false
    return _orig_pytype_of(ex, v)


if MC.pytype_of.__module__ != __name__:
    MC.pytype_of = pytype_of

_orig_truth = E.Path.truth


def truth(self, v):
    if isinstance(v, Ref):
        o = self.obj(v)
        if isinstance(o, MObj) and not isinstance(o, ExtObj):
            return mk_bool(_nonempty(o.dom))
    return _orig_truth(self, v)


if E.Path.truth.__module__ != __name__:
    E.Path.truth = truth
