"""PyVC core: path-wise symbolic execution of Python ASTs into verification
conditions.

Exploration is by *re-execution*: a path is a list of decisions; running the
function under a decision prefix executes deterministically up to the end of
the prefix, then takes the first feasible alternative of every new choice and
schedules the others.  The interpreter is therefore written in direct style.
"""
from __future__ import annotations

import ast
import collections
import builtins as _builtins
import enum
import sys
import types

import z3

from . import source
from .values import (
    ExtObj,
    BAObj,
    Bound,
    Builtin,
    CallbackVal,
    DObj,
    ElemRef,
    Frame,
    Func,
    HObj,
    IntSeq,
    LObj,
    MObj,
    Obj,
    OpaqueStr,
    Ref,
    Sym,
    Unknown,
    sort_of,
    tuple_parts,
)

# ---------------------------------------------------------------------------
# control signals
# ---------------------------------------------------------------------------


class Infeasible(Exception):
    """the path condition became unsatisfiable: drop the path silently"""


class PathEnd(Exception):
    """path ended at a cut point (loop back edge)"""


class Unsupported(Exception):
    """construct outside the accepted subset: function is *undecided*"""


class EngineError(Exception):
    pass


class PyExc(Exception):
    """a Python exception propagating through the analysed code"""

    def __init__(self, value, cls=None):
        self.value = value
        self.cls = cls


class ReturnSig(Exception):
    def __init__(self, value):
        self.value = value


class BreakSig(Exception):
    pass


class ContinueSig(Exception):
    pass


class SuspendSig(Exception):
    """raised by an `await` (contract kwarg await_hook, or awaiting a PENDING coroutine) on something that is still
    pending: the enclosing coroutine does not run any further in this activation (no `finally` runs, exactly like a
    suspended CPython coroutine).  Caught where the coroutine function was *called* (bodies of `async def` are executed
    eagerly at the call): the call then evaluates to PENDING."""


class PendingCoroutine:
    """value of a call of an `async def` whose body suspended at an await (see SuspendSig)"""

    def __repr__(self):
        return 'PENDING'


PENDING = PendingCoroutine()


# ---------------------------------------------------------------------------
# small z3 helpers
# ---------------------------------------------------------------------------

import os as _os

DEBUG = bool(_os.environ.get('PYVC_DEBUG'))
_T = z3.BoolVal(True)
_F = z3.BoolVal(False)


def zint(v):
    if isinstance(v, Sym):
        if v.k == 'bool':
            return z3.If(v.t, z3.IntVal(1), z3.IntVal(0))
        return v.t
    if isinstance(v, bool):
        return z3.IntVal(1 if v else 0)
    if isinstance(v, int):
        return z3.IntVal(int(v))
    if isinstance(v, Unknown):
        raise Unsupported(f'integer value of an uninterpreted value needed as a term: {v!r}')  # undecided, not an engine failure
    raise EngineError(f'not an int: {v!r}')


def zbool(v):
    if isinstance(v, Sym):
        if v.k == 'bool':
            return v.t
        if v.k == 'int':
            return v.t != 0
    if isinstance(v, bool):
        return z3.BoolVal(v)
    if isinstance(v, z3.BoolRef):
        return v
    if isinstance(v, Unknown):
        # an uninterpreted value (skeleton profile, `Any`, a comparison the value domain cannot decide) where a truth
        # value is needed as a term: not a verdict and not an engine failure -- the obligation / entry is undecided
        raise Unsupported(f'truth value of an uninterpreted value needed as a term: {v!r}')
    raise EngineError(f'not a bool: {v!r}')


def zbytes(v):
    if isinstance(v, Sym):
        return v.t
    if isinstance(v, (bytes, bytearray)):
        return bytes_lit(bytes(v))
    if isinstance(v, Unknown):
        raise Unsupported(f'bytes value of an uninterpreted value needed as a term: {v!r}')  # undecided, not an engine failure
    raise EngineError(f'not bytes: {v!r}')


def bytes_lit(b):
    if len(b) == 0:
        return z3.Empty(IntSeq)
    if len(b) == 1:
        return z3.Unit(z3.IntVal(b[0]))
    return z3.Concat(*[z3.Unit(z3.IntVal(x)) for x in b])


def simp(t):
    return z3.simplify(t)


def conc_int(t):
    """python int if the term simplifies to a numeral, else None"""
    t = z3.simplify(t)
    if z3.is_int_value(t):
        return t.as_long()
    return None


def mk_int(t):
    c = conc_int(t)
    if c is not None:
        return c
    return Sym(z3.simplify(t), 'int')


def mk_bool(t):
    if isinstance(t, bool):
        return t
    t = z3.simplify(t)
    if z3.is_true(t):
        return True
    if z3.is_false(t):
        return False
    return Sym(t, 'bool')


def mk_bytes(t):
    t = z3.simplify(t)
    c = conc_bytes(t)
    if c is not None:
        return c
    return Sym(t, 'bytes')


def conc_bytes(t):
    """python bytes if the Seq(Int) term is a literal"""
    try:
        if z3.is_app(t):
            d = t.decl().kind()
            if d == z3.Z3_OP_SEQ_EMPTY:
                return b''
            if d == z3.Z3_OP_SEQ_UNIT:
                c = t.arg(0)
                if z3.is_int_value(c) and 0 <= c.as_long() <= 255:
                    return bytes([c.as_long()])
                return None
            if d == z3.Z3_OP_SEQ_CONCAT:
                out = b''
                for i in range(t.num_args()):
                    p = conc_bytes(t.arg(i))
                    if p is None:
                        return None
                    out += p
                return out
    except Exception:
        return None
    return None


_HASQ = {}


def has_quantifier(f):
    """does the formula contain a quantifier (cached by term id; the terms are kept alive by the path conditions)"""
    key = f.get_id()
    hit = _HASQ.get(key)
    if hit is not None and hit[1] is f:
        return hit[0]
    r = False
    seen = set()
    stack = [f]
    while stack:
        t = stack.pop()
        i = t.get_id()
        if i in seen:
            continue
        seen.add(i)
        if z3.is_quantifier(t):
            r = True
            break
        stack.extend(t.children())
    _HASQ[key] = (r, f)
    return r


def zmin(a, b):
    return z3.If(a <= b, a, b)


def zmax(a, b):
    return z3.If(a >= b, a, b)


# ---------------------------------------------------------------------------
# explorer (decision tree, DFS by re-execution)
# ---------------------------------------------------------------------------


class Explorer:
    def __init__(self, feas_timeout_ms=3000, max_paths=4000):
        self.pending = [()]
        self.feas_timeout_ms = feas_timeout_ms
        self.max_paths = max_paths
        self.npaths = 0
        self.feas_checks = 0
        self.proves_cache = {}
        self.abs_cache = {}
        self.keep = []
        self.precise_feasibility = False

    def next_prefix(self):
        if not self.pending:
            return None
        self.npaths += 1
        if self.npaths > self.max_paths:
            raise Unsupported(f'more than {self.max_paths} paths')
        return self.pending.pop()


class Obligation:
    __slots__ = ('name', 'kind', 'pc', 'goal', 'loc', 'key', 'info', 'expect_sat', 'abstracted')

    def __init__(self, name, kind, pc, goal, loc='', key=None, info=None, expect_sat=False, abstracted=False):
        self.name = name
        self.kind = kind
        self.pc = pc
        self.goal = goal
        self.loc = loc
        self.key = key
        self.info = info or {}
        self.expect_sat = expect_sat
        self.abstracted = abstracted


# ---------------------------------------------------------------------------
# the per-path executor
# ---------------------------------------------------------------------------

_IMMUTABLE_NATIVE = (int, str, bytes, tuple, frozenset, float, bool, type(None), range)


class Path:
    def __init__(self, explorer, prefix, cfg):
        self.explorer = explorer
        self.prefix = prefix
        self.pos = 0
        self.decisions = []
        self.pc = []
        self.heap = {}
        self.next_oid = 1
        self.nsym = 0
        self.snapshots = {}
        self.obligations = []
        self.scope = []  # current scope chain: list of frame Refs, innermost first
        self.func_stack = []
        self.spec_mode = 0
        self.quant = 0
        self.cfg = cfg
        self.depth = 0
        self.ghost = None  # Ref to ghost Obj
        self.old_name = None
        self.entry_env = {}
        self.abstraction_used = False
        self.notes = []
        self.inlined = set()
        self.used_contracts = set()
        self.skeleton = getattr(cfg, 'skeleton', False)
        self.loop_counters = {}
        self.prestate_syms = []  # (path string, Sym) for replay
        self.cur_loc = ''
        self.byte_cache = {}
        self.lazy = {}
        self.prog_temps = None
        self.prog_vals = None  # truth values of the clauses evaluated so far (parallel to prog_temps, concrete ones included)
        self.active_counters = {}  # frame oid -> names of the ghost counters of the for loops being executed
        self.die_after = None  # number of obligations still to be stated before this path ends (see Config.clauses)
        self.def_ids = set()
        self.nproves = 0
        self.keep = []  # keeps z3 terms alive so that ids used as cache keys stay unique

    # -- decisions --------------------------------------------------------
    # -- arithmetic abstraction for the inline (feasibility / entailment) queries -------------
    # z3's sequence solver is slow even on trivial length constraints, so inline queries are
    # first asked on a *weakening* of the path condition: every seq.len(t) becomes an integer
    # constant (>= 0) and conjuncts that still mention sequences are dropped.  Weaker hypotheses
    # are sound for both uses: "unsat" of the weakening implies unsat of the pc, and entailment
    # from the weakening implies entailment from the pc.
    def _abstract(self, f):
        cache = self.explorer.abs_cache
        key = f.get_id()
        hit = cache.get(key)
        if hit is not None:
            return hit[0]
        subs = {}
        seen = set()
        stack = [f]
        has_seq = False
        while stack:
            t = stack.pop()
            i = t.get_id()
            if i in seen:
                continue
            seen.add(i)
            if z3.is_quantifier(t):
                has_seq = True  # keep it simple: quantified facts are not used by inline queries
                continue
            if z3.is_app(t):
                if t.decl().kind() == z3.Z3_OP_SEQ_LENGTH:
                    a = t.arg(0)
                    subs[i] = (t, z3.Int(f'len!{a.get_id()}'))
                    self.explorer.keep.append(a)
                    continue
                if t.sort().kind() == z3.Z3_SEQ_SORT or t.sort().kind() == z3.Z3_ARRAY_SORT:
                    has_seq = True
                    continue
                stack.extend(t.children())
        if has_seq:
            g = None
        else:
            g = z3.substitute(f, *subs.values()) if subs else f
            if subs:
                g = z3.And(g, *[v >= 0 for (_, v) in subs.values()])
        cache[key] = (g, f)
        return g

    def _abs_query(self, extra, timeout=800):
        # one incremental solver per path: the path condition only grows (except for the temporary
        # hypotheses of clause lists / quantifier bodies, detected by comparing the asserted prefix)
        s = getattr(self, '_abs_solver', None)
        done = getattr(self, '_abs_done', None)
        pc = self.pc
        if s is None or len(done) > len(pc) or any(d is not p for d, p in zip(done, pc)):
            s = z3.Solver()
            s.set('timeout', timeout)
            done = []
            self._abs_solver, self._abs_done = s, done
        for p in pc[len(done):]:
            g = self._abstract(p)
            if g is not None:
                s.add(g)
            done.append(p)
        s.push()
        try:
            s.add(extra)
            return s.check()
        finally:
            s.pop()

    def feasible(self, c):
        if c is True:
            return True
        import time as _t

        self.explorer.feas_checks += 1
        ca = self._abstract(c) if isinstance(c, z3.ExprRef) else None
        if ca is not None:
            r = self._abs_query(ca)
            if r == z3.unsat:
                return False
            if r == z3.sat and not self.explorer.precise_feasibility:
                return True
        t0 = _t.time()
        quantified = [p for p in self.pc if has_quantifier(p)]
        s = z3.Solver()
        s.set('timeout', self.explorer.feas_timeout_ms)
        for p in self.pc:
            # quantified hypotheses make satisfiable queries run into the time limit (no model is found): inline
            # queries are asked without them (a weakening: `unsat` is still conclusive, see _abstract)
            if not quantified or not has_quantifier(p):
                s.add(p)
        s.add(c)
        r = s.check()
        dt = _t.time() - t0
        if DEBUG and dt > 0.5:
            print(f'[feas {dt:.1f}s {r}] at {self.cur_loc} pc={len(self.pc)}', file=sys.stderr, flush=True)
        return r != z3.unsat

    def add_def(self, f):
        """definition / valid theory fact / type invariant: not an assumption about the program"""
        self.pc.append(f)
        self.def_ids.add(id(f))

    def proves(self, c, timeout=1000):
        """does the path condition entail c (decided inline; False on unknown)"""
        c = z3.simplify(c)
        if z3.is_true(c):
            return True
        if z3.is_false(c):
            return False
        # re-execution is deterministic: the k-th query of a path prefix is always the same
        self.nproves += 1
        key = (tuple(self.decisions), self.nproves)
        cache = self.explorer.proves_cache
        if key in cache:
            return cache[key]
        self.explorer.feas_checks += 1
        r = False
        ca = self._abstract(c)
        if ca is not None and self._abs_query(z3.Not(ca)) == z3.unsat:
            r = True
        else:
            s = z3.Solver()
            s.set('timeout', timeout)
            for p in self.pc:
                if not has_quantifier(p):  # as in feasible(): entailment from fewer hypotheses is still entailment
                    s.add(p)
            s.add(z3.Not(c))
            r = s.check() == z3.unsat
        cache[key] = r
        return r

    def force(self, lv):
        """resolve a lazily chosen OneOf alternative (a decision)"""
        if lv.lid in self.lazy:
            return self.lazy[lv.lid]
        i = self.decide([True] * len(lv.options), f'oneof {lv.hint}') if len(lv.options) > 1 else 0
        o = lv.options[i]
        from . import contracts as _C

        first_new = self.next_oid
        v = self.cfg.fresh(self, o, lv.hint) if isinstance(o, _C.T) else self.import_native(o)
        self.lazy[lv.lid] = v
        # objects of a lazily chosen alternative belong to the pre-state: the counter-model of the path is concretised
        # from prestate['heap'] (replay / CPython cross-check), which was copied before this alternative was chosen
        pre = getattr(self, 'prestate', None)
        if pre is not None:
            for oid in range(first_new, self.next_oid):
                if oid in self.heap and oid not in pre['heap']:
                    pre['heap'][oid] = self.heap[oid].clone()
        return v

    def decide(self, conds, why=''):
        if self.quant:
            raise Unsupported('case split inside a quantifier body')
        if self.pos < len(self.prefix):
            i = self.prefix[self.pos]
        else:
            feas = [i for i, c in enumerate(conds) if self.feasible(c)]
            if not feas:
                raise Infeasible()
            i = feas[0]
            base = tuple(self.decisions)
            for j in reversed(feas[1:]):
                self.explorer.pending.append(base + (j,))
        self.decisions.append(i)
        self.pos += 1
        c = conds[i]
        if c is not True:
            self.pc.append(c)
        return i

    def branch(self, c):
        """c: python bool | Sym bool | z3 BoolRef | Unknown"""
        if isinstance(c, bool):
            return c
        if isinstance(c, Unknown):
            self.abstraction_used = True
            return self.decide([True, True], 'unknown') == 0
        t0 = zbool(c)
        t = z3.simplify(t0)
        if z3.is_true(t):
            return True
        if z3.is_false(t):
            return False
        return self.decide([t0, z3.Not(t0)]) == 0

    def assume(self, c):
        if isinstance(c, bool):
            if not c:
                raise Infeasible()
            return
        t0 = zbool(c)
        t = z3.simplify(t0)
        if z3.is_false(t):
            raise Infeasible()
        if not z3.is_true(t):
            self.pc.append(t0)

    def check_feasible_now(self):
        if not self.feasible(_T):
            raise Infeasible()

    # -- obligations ------------------------------------------------------
    def oblige(self, name, kind, goal, loc='', info=None, expect_sat=False):
        if isinstance(goal, bool):
            g = z3.BoolVal(goal)
        elif isinstance(goal, Unknown):
            raise Unsupported(f'obligation {name} over an uninterpreted value')
        else:
            g = zbool(goal)
        key = (tuple(self.decisions), len(self.obligations))
        info = dict(info or {})
        info['def_ids'] = self.def_ids
        if getattr(self, 'headstate', None) is not None:
            info['after_head'] = True
        self.obligations.append(
            Obligation(name, kind, list(self.pc), g, loc or self.cur_loc, key, info, expect_sat, self.abstraction_used)
        )
        # after it has been stated, an obligation may be assumed on the rest of the path
        if not expect_sat:
            gs = z3.simplify(g)
            if not z3.is_true(gs) and not z3.is_false(gs):
                self.pc.append(g)
        if self.die_after is not None:
            self.die_after -= 1
            if self.die_after <= 0:
                raise Infeasible()

    # -- heap ---------------------------------------------------------------
    def alloc(self, hobj):
        oid = self.next_oid
        self.next_oid += 1
        self.heap[oid] = hobj
        return Ref(oid)

    def obj(self, ref):
        if ref.old is None:
            return self.heap[ref.oid]
        return self.snapshots[ref.old][ref.oid]

    def wobj(self, ref):
        if ref.old is not None:
            raise EngineError('write through an old() view')
        return self.heap[ref.oid]

    def wrap(self, v, ref):
        if ref.old is not None:
            if isinstance(v, Ref) and v.old is None:
                return Ref(v.oid, ref.old)
            if isinstance(v, ElemRef) and v.mref.old is None:
                return ElemRef(Ref(v.mref.oid, ref.old), v.key)
            if isinstance(v, tuple):
                return tuple(self.wrap(x, ref) for x in v)
        return v

    def snapshot(self, name):
        self.snapshots[name] = {oid: o.clone() for oid, o in self.heap.items()}

    # -- fresh symbols --------------------------------------------------------
    def fresh_name(self, hint):
        self.nsym += 1
        return f'{hint}!{self.nsym}'

    def fresh_sym(self, kind, hint='v'):
        return Sym(z3.Const(self.fresh_name(hint), sort_of(kind)), kind)

    # -- scopes ---------------------------------------------------------------
    def push_scope(self, chain):
        self.scope_stack.append(self.scope)
        self.scope = chain

    def lookup(self, name, node=None):
        for fr in self.scope:
            vars = self.obj(fr).vars
            if name in vars:
                return self.wrap(vars[name], fr)
        f = self.func_stack[-1] if self.func_stack else None
        mod = f.module if f is not None else None
        nat = getattr(f, 'native', None)
        if nat is not None and getattr(nat, '__closure__', None):
            fv = nat.__code__.co_freevars
            if name in fv:
                try:
                    return self.import_native(nat.__closure__[fv.index(name)].cell_contents)
                except ValueError:
                    raise PyExc(NameError(name))
        if mod is not None and name in mod.__dict__:
            return self.import_native(mod.__dict__[name])
        if hasattr(_builtins, name):
            return getattr(_builtins, name)
        raise PyExc(NameError(name))

    def store_name(self, name, v):
        fr = self.scope[0]
        f = self.func_stack[-1] if self.func_stack else None
        if f is not None and name in getattr(f, 'nonlocals', ()):
            for fr2 in self.scope[1:]:
                if name in self.obj(fr2).vars:
                    fr = fr2
                    break
        self.wobj(fr).vars[name] = v

    def import_native(self, v):
        """a real python object enters the analysed world"""
        if isinstance(v, types.FunctionType):
            return self.func_of_native(v)
        return v

    def func_of_native(self, fn):
        from . import seqspec

        sf = seqspec.SPEC_FORMS.get(fn)
        if sf is not None:
            return Builtin(fn.__name__, sf)
        modname = getattr(fn, '__module__', '') or ''
        if modname.startswith('bumble') or self.cfg.is_spec_module(modname):
            try:
                mod, qn, node = source.node_of_native(fn)
            except source.SourceError as e:
                raise Unsupported(str(e))
            origin = 'spec' if self.cfg.is_spec_module(modname) else 'repo'
            f = Func(node, mod, qn, native=fn, origin=origin)
            f.cls = self.cfg.class_of_qualname(mod, qn)
            return f
        return fn

    # ------------------------------------------------------------------
    # statements
    # ------------------------------------------------------------------
    def exec_block(self, stmts):
        for s in stmts:
            self.exec_stmt(s)

    def exec_stmt(self, s):
        self.cur_loc = f'{getattr(self.func_stack[-1], "qualname", "?") if self.func_stack else "?"}:{getattr(s, "lineno", 0)}'
        m = getattr(self, 'st_' + type(s).__name__, None)
        if m is None:
            raise Unsupported(f'statement {type(s).__name__} at {self.cur_loc}')
        return m(s)

    def st_Pass(self, s):
        pass

    def st_Expr(self, s):
        v = s.value
        if isinstance(v, ast.Constant):
            return  # docstring
        if is_logger_call(v):
            return
        self.eval(v)

    def st_Assign(self, s):
        v = self.eval(s.value)
        for t in s.targets:
            self.assign(t, v)

    def st_AnnAssign(self, s):
        if s.value is not None:
            self.assign(s.target, self.eval(s.value))

    def st_AugAssign(self, s):
        t = s.target
        if isinstance(t, ast.Name):
            cur = self.lookup(t.id)
            new = self.inplace(s.op, cur, self.eval(s.value))
            self.store_name(t.id, new)
        elif isinstance(t, ast.Attribute):
            o = self.eval(t.value)
            cur = self.getattr(o, t.attr)
            new = self.inplace(s.op, cur, self.eval(s.value))
            self.setattr(o, t.attr, new)
        elif isinstance(t, ast.Subscript):
            o = self.eval(t.value)
            i = self.eval_index(t.slice)
            cur = self.subscript(o, i)
            new = self.inplace(s.op, cur, self.eval(s.value))
            self.store_subscript(o, i, new)
        else:
            raise Unsupported('augassign target')

    def inplace(self, op, cur, v):
        # mutable receivers are updated in place and keep their identity
        if isinstance(cur, Ref):
            o = self.obj(cur)
            if isinstance(o, BAObj) and isinstance(op, ast.Add):
                self.wobj(cur).val = self.binop(ast.Add(), o.val, self.as_bytes_value(v))
                return cur
            if isinstance(o, LObj) and isinstance(op, ast.Add):
                self.list_extend(cur, v)
                return cur
        return self.binop(op, cur, v)

    def assign(self, t, v):
        if isinstance(t, ast.Name):
            self.store_name(t.id, v)
        elif isinstance(t, ast.Attribute):
            self.setattr(self.eval(t.value), t.attr, v)
        elif isinstance(t, ast.Subscript):
            self.store_subscript(self.eval(t.value), self.eval_index(t.slice), v)
        elif isinstance(t, (ast.Tuple, ast.List)):
            stars = [i for i, e in enumerate(t.elts) if isinstance(e, ast.Starred)]
            if stars:
                # a, *rest, z = <iterable with a concrete spine>
                if len(stars) > 1:
                    raise Unsupported('two starred targets')
                allv = self.concrete_iter(v)
                if allv is None:
                    raise Unsupported('starred assignment from a symbolic iterable')
                k = stars[0]
                after = len(t.elts) - k - 1
                if len(allv) < len(t.elts) - 1:
                    raise PyExc(ValueError('not enough values to unpack'))
                for e, x in zip(t.elts[:k], allv[:k]):
                    self.assign(e, x)
                self.assign(t.elts[k].value, self.alloc(LObj(list(allv[k : len(allv) - after]))))
                for e, x in zip(t.elts[k + 1 :], allv[len(allv) - after :] if after else []):
                    self.assign(e, x)
                return
            items = self.unpack(v, len(t.elts), False)
            for e, x in zip(t.elts, items):
                self.assign(e, x)
        else:
            raise Unsupported(f'assignment target {type(t).__name__}')

    def unpack(self, v, n, star=False):
        if isinstance(v, Unknown):
            return [Unknown('unpack') for _ in range(n)]
        if isinstance(v, (tuple, list)):
            if len(v) != n:
                raise PyExc(ValueError('unpack length'))
            return list(v)
        if isinstance(v, Ref):
            o = self.obj(v)
            if isinstance(o, LObj):
                if o.items is not None:
                    if len(o.items) != n:
                        raise PyExc(ValueError('unpack length'))
                    return [self.wrap(x, v) for x in o.items]
                ln = z3.Length(o.sym.t)
                if not self.branch(mk_bool(ln == n)):
                    raise PyExc(ValueError('unpack length'))
                return [self.seq_get(o.sym, i) for i in range(n)]
        if isinstance(v, (Sym, bytes)) and self.kind_of(v) == 'bytes':
            ln = self.length(v)
            if not self.branch(self.compare_op(ast.Eq(), ln, n)):
                raise PyExc(ValueError('unpack length'))
            return [self.subscript(v, i) for i in range(n)]
        raise Unsupported(f'unpack of {v!r}')

    def st_Return(self, s):
        raise ReturnSig(self.eval(s.value) if s.value is not None else None)

    def st_If(self, s):
        c = self.truth(self.eval(s.test))
        if self.branch(c):
            self.exec_block(s.body)
        else:
            self.exec_block(s.orelse)

    def st_Assert(self, s):
        c = self.truth(self.eval(s.test))
        if self.spec_mode or self.cfg.asserts_are_obligations(self):
            # in ghost/lemma code an assert is a proof obligation
            # `assert cond, 'label'` in ghost/lemma code names the obligation (stable across edits of the sidecar)
            label = s.msg.value if isinstance(s.msg, ast.Constant) and isinstance(s.msg.value, str) else f'L{s.lineno}'
            self.oblige(self.cfg.obl_name(self, 'assert', label), 'assert', c)
            return
        if not self.branch(c):
            raise PyExc(AssertionError())

    def st_Raise(self, s):
        if s.exc is None:
            if self.cur_exc is None:
                raise PyExc(RuntimeError('no active exception'))
            raise PyExc(self.cur_exc)
        e = self.eval(s.exc)
        if isinstance(e, type) and issubclass(e, BaseException):
            e = self.instantiate(e, [], {})
        raise PyExc(e)

    def st_Break(self, s):
        raise BreakSig()

    def st_Continue(self, s):
        raise ContinueSig()

    def st_Delete(self, s):
        for t in s.targets:
            if isinstance(t, ast.Name):
                self.wobj(self.scope[0]).vars.pop(t.id, None)
            elif isinstance(t, ast.Subscript):
                self.del_subscript(self.eval(t.value), self.eval_index(t.slice))
            elif isinstance(t, ast.Attribute):
                o = self.eval(t.value)
                if isinstance(o, Ref) and isinstance(self.obj(o), Obj):
                    self.wobj(o).fields.pop(t.attr, None)
                else:
                    raise Unsupported('del attribute')
            else:
                raise Unsupported('del target')

    def st_Global(self, s):
        raise Unsupported('global statement')

    def st_Nonlocal(self, s):
        f = self.func_stack[-1]
        f.nonlocals = set(getattr(f, 'nonlocals', ())) | set(s.names)

    def st_Import(self, s):
        raise Unsupported('import inside function')

    def st_ImportFrom(self, s):
        raise Unsupported('import inside function')

    def st_FunctionDef(self, s):
        f = self.func_stack[-1]
        nf = Func(s, f.module, f.qualname + '.<locals>.' + s.name, closure=list(self.scope), cls=f.cls, origin=f.origin)
        nf.defaults = [self.eval(d) for d in s.args.defaults]
        nf.kw_defaults = [self.eval(d) if d is not None else None for d in s.args.kw_defaults]
        nf.decorators = [ast.unparse(d) for d in s.decorator_list]
        self.store_name(s.name, nf)

    st_AsyncFunctionDef = st_FunctionDef

    def st_Try(self, s):
        try:
            try:
                self.exec_block(s.body)
            except PyExc as e:
                handled = False
                for h in s.handlers:
                    if self.exc_matches(e.value, h.type):
                        handled = True
                        if h.name:
                            self.store_name(h.name, e.value)
                        saved = getattr(self, 'cur_exc', None)
                        self.cur_exc = e.value
                        try:
                            self.exec_block(h.body)
                        finally:
                            self.cur_exc = saved
                        break
                if not handled:
                    raise
            else:
                self.exec_block(s.orelse)
        except (PyExc, ReturnSig, BreakSig, ContinueSig):
            if s.finalbody:
                self.exec_block(s.finalbody)
            raise
        else:
            if s.finalbody:
                self.exec_block(s.finalbody)

    cur_exc = None

    def exc_class_of(self, ev):
        if isinstance(ev, Ref):
            return self.obj(ev).cls
        if isinstance(ev, BaseException):
            return type(ev)
        if isinstance(ev, type):
            return ev
        raise EngineError(f'exception value {ev!r}')

    def exc_matches(self, ev, tnode):
        if tnode is None:
            return True
        t = self.eval(tnode)
        cls = self.exc_class_of(ev)
        ts = t if isinstance(t, tuple) else (t,)
        for c in ts:
            if not isinstance(c, type):
                raise Unsupported('except clause with non-class')
            if issubclass(cls, c):
                return True
        return False

    def st_With(self, s):
        entered = []
        for item in s.items:
            cm = self.eval(item.context_expr)
            v = self.cfg.with_enter(self, cm, item)
            entered.append(cm)
            if item.optional_vars is not None:
                self.assign(item.optional_vars, v)
        try:
            self.exec_block(s.body)
        except (PyExc, ReturnSig, BreakSig, ContinueSig):
            for cm in reversed(entered):
                self.cfg.with_exit(self, cm)
            raise
        else:
            for cm in reversed(entered):
                self.cfg.with_exit(self, cm)

    st_AsyncWith = st_With

    def st_Match(self, s):
        subj = self.eval(s.subject)
        for case in s.cases:
            binds = {}
            m = self.match_pattern(case.pattern, subj, binds)
            if m is False:
                continue
            if m is not True:
                if not self.branch(m):
                    continue
            for k, v in binds.items():
                self.store_name(k, v)
            if case.guard is not None:
                if not self.branch(self.truth(self.eval(case.guard))):
                    continue
            self.exec_block(case.body)
            return

    def match_pattern(self, p, subj, binds):
        if isinstance(p, ast.MatchValue):
            return self.compare_op(ast.Eq(), subj, self.eval(p.value))
        if isinstance(p, ast.MatchSingleton):
            return subj is p.value
        if isinstance(p, ast.MatchAs):
            if p.pattern is not None:
                r = self.match_pattern(p.pattern, subj, binds)
            else:
                r = True
            if p.name:
                binds[p.name] = subj
            return r
        if isinstance(p, ast.MatchOr):
            rs = [self.match_pattern(q, subj, binds) for q in p.patterns]
            return self.bool_or(rs)
        if isinstance(p, ast.MatchClass):
            cls = self.eval(p.cls)
            if p.patterns:
                raise Unsupported('positional class pattern')
            r = self.isinstance_(subj, cls)
            if r is False:
                return False
            if r is not True:
                raise Unsupported('symbolic class pattern')
            out = [True]
            for name, q in zip(p.kwd_attrs, p.kwd_patterns):
                out.append(self.match_pattern(q, self.getattr(subj, name), binds))
            return self.bool_and(out)
        raise Unsupported(f'match pattern {type(p).__name__}')

    def bool_and(self, xs):
        terms = []
        for x in xs:
            if x is True:
                continue
            if x is False:
                return False
            terms.append(zbool(x))
        if not terms:
            return True
        return mk_bool(z3.And(*terms))

    def bool_or(self, xs):
        terms = []
        for x in xs:
            if x is False:
                continue
            if x is True:
                return True
            terms.append(zbool(x))
        if not terms:
            return False
        return mk_bool(z3.Or(*terms))

    # -- loops ---------------------------------------------------------------
    def loop_label(self, node):
        node = getattr(node, '_orig_loop', node)
        f = self.func_stack[-1]
        labels = getattr(f, '_loop_labels', None)
        if labels is None:
            labels = {}
            n = 0
            for x in ast.walk(f.node):
                if isinstance(x, (ast.While, ast.For, ast.AsyncFor)) and x not in labels:
                    labels[x] = n
                    n += 1
            # ast.walk is BFS; renumber in source order
            ordered = sorted(labels, key=lambda x: (x.lineno, x.col_offset))
            labels = {x: i for i, x in enumerate(ordered)}
            f._loop_labels = labels
        return labels[node]

    def st_While(self, s):
        if s.orelse:
            raise Unsupported('while/else')
        spec = self.cfg.loop_spec(self, self.func_stack[-1], self.loop_label(s))
        if spec is None:
            # no invariant: only concretely decidable loops are unrolled
            n = 0
            while True:
                c = self.truth(self.eval(s.test))
                if not isinstance(c, bool) and not isinstance(c, Unknown):
                    # a test that the path condition decides is as good as a concrete one (complete unrolling)
                    ct = zbool(c)
                    # (generous budget: an undecided test makes the whole entry undecided)
                    p_true, p_false = self.proves(ct, 6000), self.proves(z3.Not(ct), 6000)
                    if p_true and p_false:
                        raise Infeasible()  # contradictory path condition (everything is entailed): not a path
                    if p_true or p_false:
                        c = p_true
                if not isinstance(c, bool):
                    raise Unsupported(f'loop without invariant at {self.cur_loc}')
                if not c:
                    break
                n += 1
                if n > 4096:
                    raise Unsupported('concrete loop too long')
                try:
                    self.exec_block(s.body)
                except BreakSig:
                    break
                except ContinueSig:
                    continue
            return
        self.cut_loop(s, spec, test=lambda: self.truth(self.eval(s.test)), pre_body=None, havoc_extra=())

    def cut_loop(self, s, spec, test, pre_body, havoc_extra, step=None):
        """Invariant rule.  spec: object with check_inv(path, tag), havoc(path),
        variant(path)."""
        spec.check_inv(self, 'inv-entry')
        spec.havoc(self, s, havoc_extra)
        spec.assume_inv(self)
        c = test()
        if self.branch(c):
            v0 = spec.variant(self)
            if v0 is not None:
                self.oblige(spec.name('variant-bounded'), 'variant', self.compare_op(ast.GtE(), v0, 0))
            if pre_body:
                pre_body()
            try:
                self.exec_block(s.body)
            except BreakSig:
                return
            except ContinueSig:
                pass
            if step:
                step()
            spec.check_inv(self, 'inv-preserved')
            if getattr(spec, 'mods', None) is not None:
                spec.check_loop_frame(self)
            if v0 is not None:
                v1 = spec.variant(self)
                self.oblige(spec.name('variant-decreases'), 'variant', self.compare_op(ast.Lt(), v1, v0))
            self.cfg.end_of_iteration(self)
            raise PathEnd()
        # exit: continue after the loop with inv & !guard

    def st_For(self, s):
        if s.orelse:
            raise Unsupported('for/else')
        if isinstance(s.iter, ast.GeneratorExp):
            lazy = self.lazy_genexp_for(s)
            if lazy is not None:
                return self.st_For(lazy)
        it = self.eval(s.iter)
        items = self.concrete_iter(it)
        if items is not None:
            for x in items:
                self.assign(s.target, x)
                try:
                    self.exec_block(s.body)
                except BreakSig:
                    break
                except ContinueSig:
                    continue
            return
        spec = self.cfg.loop_spec(self, self.func_stack[-1], self.loop_label(s))
        if isinstance(it, Ref) and isinstance(self.obj(it), ExtObj):
            return self.obj(it).ext_for(self, it, s, spec)
        if spec is None:
            raise Unsupported(f'for loop over symbolic iterable without invariant at {self.cur_loc}')
        if isinstance(it, Unknown) and self.skeleton:
            # skeleton profile: an uninterpreted iterable yields any number of uninterpreted items
            self.abstraction_used = True
            self.cut_loop(s, spec, lambda: Unknown('iter'), lambda: self.assign(s.target, Unknown('item')), ())
            return
        fr = self.scope[0]
        if isinstance(it, SymRange):
            itname = self.loop_counter_name('_it')
            self.store_name(itname, it.start)
            step = it.step

            def test():
                return self.compare_op(ast.Lt() if self.is_pos(step) else ast.Gt(), self.lookup(itname), it.stop)

            def pre_body():
                self.assign(s.target, self.lookup(itname))

            def stepf():
                self.store_name(itname, self.binop(ast.Add(), self.lookup(itname), step))

            self.cut_loop_named(itname, s, spec, test, pre_body, (itname,), stepf)
            return
        seq = self.as_symseq(it)
        if seq is not None:
            itname = self.loop_counter_name('_i')
            self.store_name(itname, 0)
            ln = self.length(seq)

            def test():
                return self.compare_op(ast.Lt(), self.lookup(itname), ln)

            def pre_body():
                self.assign(s.target, self.subscript(seq, self.lookup(itname)))

            def stepf():
                self.store_name(itname, self.binop(ast.Add(), self.lookup(itname), 1))

            self.cut_loop_named(itname, s, spec, test, pre_body, (itname,), stepf)
            return
        if isinstance(it, SymZip):
            # zip of symbolic sequences: position _i runs over 0 .. min(len) - 1, the target is the tuple of the _i-th elements
            itname = self.loop_counter_name('_i')
            self.store_name(itname, 0)
            lens = [self.length(q) for q in it.seqs]

            def test():
                return self.bool_and([self.compare_op(ast.Lt(), self.lookup(itname), ln) for ln in lens])

            def pre_body():
                self.assign(s.target, tuple(self.subscript(q, self.lookup(itname)) for q in it.seqs))

            def stepf():
                self.store_name(itname, self.binop(ast.Add(), self.lookup(itname), 1))

            self.cut_loop_named(itname, s, spec, test, pre_body, (itname,), stepf)
            return
        if self.skeleton and isinstance(it, Unknown):
            # skeleton profile: an uninterpreted iterable yields an arbitrary number of uninterpreted items
            self.abstraction_used = True

            def pre_body_u():
                self.assign(s.target, Unknown('item'))

            self.cut_loop(s, spec, lambda: Unknown('more items'), pre_body_u, ())
            return
        raise Unsupported(f'for over {it!r}')

    def loop_counter_name(self, base):
        """ghost counter of a for loop over a symbolic range / sequence: `_it` / `_i`; a loop nested inside another
        such loop of the same activation gets `_it1`, `_i1`, `_i2`, ... (one shared name would let the inner loop
        clobber the position of the outer one)"""
        active = self.active_counters.setdefault(self.scope[0].oid, [])
        name, n = base, 0
        while name in active:
            n += 1
            name = f'{base}{n}'
        return name

    def cut_loop_named(self, itname, *args):
        active = self.active_counters.setdefault(self.scope[0].oid, [])
        active.append(itname)
        try:
            return self.cut_loop(*args)
        finally:
            active.remove(itname)

    st_AsyncFor = st_For

    def lazy_genexp_for(self, s):
        """`for T in (elt for x in xs if c1 if c2)`: a generator expression is *lazy* -- its conditions and
        element expression run interleaved with the loop body (they may await, raise, and read variables the
        body assigns).  The statement is executed as the equivalent
            for x' in xs:  if not c1': continue;  if not c2': continue;  T = elt';  body
        where x' is the comprehension variable renamed apart (it is local to the generator's own scope).
        Returns the synthetic For node (cached; it carries the loop label of the original statement), or None
        when the shape is not handled (several `for` clauses, nested scopes rebinding names): the caller then
        falls back to evaluating the generator expression as a value."""
        cached = getattr(s, '_lazy_for', False)
        if cached is not False:
            return cached
        ge = s.iter
        out = None
        if len(ge.generators) == 1 and not any(isinstance(x, (ast.Lambda, ast.ListComp, ast.SetComp, ast.DictComp, ast.GeneratorExp, ast.NamedExpr)) for c in [ge.elt] + list(ge.generators[0].ifs) for x in ast.walk(c)):
            g = ge.generators[0]
            bound = {x.id for x in ast.walk(g.target) if isinstance(x, ast.Name)}
            ren = {n: f'_ge{s.lineno}_{n}' for n in bound}

            class _Ren(ast.NodeTransformer):
                def visit_Name(self, n):
                    if n.id in ren:
                        return ast.copy_location(ast.Name(ren[n.id], n.ctx), n)
                    return n

            import copy as _copy

            def rn(n):
                return ast.fix_missing_locations(_Ren().visit(_copy.deepcopy(n)))

            body = []
            for c in g.ifs:
                body.append(ast.copy_location(ast.If(ast.UnaryOp(ast.Not(), rn(c)), [ast.copy_location(ast.Continue(), c)], []), c))
            body.append(ast.copy_location(ast.Assign([s.target], rn(ge.elt)), s))
            body.extend(s.body)
            out = ast.copy_location(type(s)(rn(g.target), g.iter, body, [], None), s)
            ast.fix_missing_locations(out)
            out._orig_loop = s
        s._lazy_for = out
        return out

    def is_pos(self, v):
        if isinstance(v, int):
            return v > 0
        # symbolic step: must be provably positive
        if self.feasible(zint(v) <= 0):
            raise Unsupported('range step not provably positive')
        return True

    def concrete_iter(self, it):
        """list of values if the iterable has a concrete spine, else None"""
        if isinstance(it, (tuple, list)):
            return list(it)
        if isinstance(it, (range, bytes, str, frozenset, set)):
            return list(it)
        if isinstance(it, dict):
            return list(it)
        if isinstance(it, type({}.items())) or isinstance(it, type({}.keys())) or isinstance(it, type({}.values())):
            return list(it)
        if isinstance(it, ConcIter):
            return it.items
        if isinstance(it, Ref):
            o = self.obj(it)
            if isinstance(o, LObj) and o.items is not None:
                return [self.wrap(x, it) for x in o.items]
            if isinstance(o, DObj):
                return list(o.items.keys())
            if isinstance(o, BAObj) and isinstance(o.val, bytes):
                return list(o.val)
            if isinstance(o, BAObj) and isinstance(o.val, Sym):
                return self.concrete_iter(o.val)
        if isinstance(it, type) and issubclass(it, enum.Enum):
            return list(it)
        if isinstance(it, enum.EnumMeta):
            return list(it)
        if isinstance(it, Sym) and it.k == 'bytes' and not self.quant:
            n = conc_int(z3.Length(it.t))
            if n is not None and n <= 64:
                from .models import read_byte

                return [read_byte(self, it.t, z3.IntVal(i)) for i in range(n)]
        if isinstance(it, SymRange) and not self.quant and isinstance(it.start, int) and it.step == 1:
            # a range whose bound provably fits a small interval is enumerated (complete, not bounded)
            stop = zint(it.stop)
            if self.proves(z3.And(stop >= it.start - 1, stop <= it.start + 32)):
                k = self.decide([stop <= it.start] + [stop == it.start + j for j in range(1, 33)], 'small range')
                return list(range(it.start, it.start + k))
        return None

    def as_symseq(self, it):
        if isinstance(it, Sym) and (it.k == 'bytes' or (isinstance(it.k, tuple) and it.k[0] == 'seq')):
            return it
        if isinstance(it, Ref):
            o = self.obj(it)
            if isinstance(o, LObj) and o.sym is not None:
                return o.sym
            if isinstance(o, BAObj) and isinstance(o.val, Sym):
                return o.val
        return None

    # ------------------------------------------------------------------
    # expressions
    # ------------------------------------------------------------------
    def eval(self, n):
        m = getattr(self, 'ev_' + type(n).__name__, None)
        if m is None:
            raise Unsupported(f'expression {type(n).__name__} at {self.cur_loc}')
        return m(n)

    def ev_Constant(self, n):
        return n.value

    def ev_Name(self, n):
        return self.lookup(n.id, n)

    def ev_NamedExpr(self, n):
        v = self.eval(n.value)
        self.store_name(n.target.id, v)
        return v

    def ev_Tuple(self, n):
        out = []
        for e in n.elts:
            if isinstance(e, ast.Starred):
                items = self.concrete_iter(self.eval(e.value))
                if items is None:
                    raise Unsupported('starred symbolic iterable')
                out.extend(items)
            else:
                out.append(self.eval(e))
        return tuple(out)

    def ev_List(self, n):
        if self.spec_mode and self.prog_temps is not None and not self.quant:
            # clause lists: element k is evaluated knowing elements < k (sequential conjunction)
            out = []
            for e in n.elts:
                if isinstance(e, ast.Starred):
                    return self.alloc(LObj(list(self.ev_Tuple(n))))
                v = self.eval(e)
                out.append(v)
                if self.prog_vals is not None and not isinstance(v, Ref):
                    self.prog_vals.append(v)
                if isinstance(v, Sym) and v.k == 'bool':
                    self.pc.append(v.t)
                    self.prog_temps.append(v.t)
            return self.alloc(LObj(out))
        return self.alloc(LObj(list(self.ev_Tuple(n))))

    def ev_Set(self, n):
        vals = self.ev_Tuple(n)
        if all(self.is_conc(v) for v in vals):
            return frozenset(vals)
        raise Unsupported('set display with symbolic members')

    def ev_Dict(self, n):
        d = {}
        for k, v in zip(n.keys, n.values):
            if k is None:
                raise Unsupported('dict unpacking')
            kk = self.eval(k)
            if not self.is_hashable_conc(kk):
                raise Unsupported('dict display with symbolic key')
            d[kk] = self.eval(v)
        return self.alloc(DObj(d))

    def ev_JoinedStr(self, n):
        # f-strings only feed log lines / exception messages
        # (contract kwarg fstrings='eval': a replacement field without conversion/format spec whose value
        # is a concrete str/int is formatted exactly -- needed where a name is computed for getattr dispatch)
        evaluate = getattr(getattr(self.cfg, 'top', None), 'extra', {}).get('fstrings') == 'eval'
        parts = []
        opaque = False
        for v in n.values:
            if isinstance(v, ast.Constant):
                parts.append(v.value)
            elif evaluate:
                x = self.eval(v.value)
                if v.conversion == -1 and v.format_spec is None and type(x) in (str, int):
                    parts.append(str(x))
                else:
                    opaque = True
            else:
                return OpaqueStr()
        if opaque:
            return OpaqueStr()
        return ''.join(parts)

    def ev_Attribute(self, n):
        return self.getattr(self.eval(n.value), n.attr)

    def ev_Subscript(self, n):
        return self.subscript(self.eval(n.value), self.eval_index(n.slice))

    def eval_index(self, sl):
        if isinstance(sl, ast.Slice):
            return SliceV(
                self.eval(sl.lower) if sl.lower is not None else None,
                self.eval(sl.upper) if sl.upper is not None else None,
                self.eval(sl.step) if sl.step is not None else None,
            )
        return self.eval(sl)

    def ev_Slice(self, n):
        return self.eval_index(n)

    def ev_UnaryOp(self, n):
        v = self.eval(n.operand)
        if isinstance(n.op, ast.Not):
            t = self.truth(v)
            if isinstance(t, bool):
                return not t
            if isinstance(t, Unknown):
                return t
            return mk_bool(z3.Not(zbool(t)))
        if isinstance(v, Unknown):
            return v
        if isinstance(n.op, ast.USub):
            if self.is_conc(v):
                return -v
            return mk_int(-zint(v))
        if isinstance(n.op, ast.UAdd):
            return v
        if isinstance(n.op, ast.Invert):
            if self.is_conc(v):
                return ~v
            return mk_int(-zint(v) - 1)
        raise Unsupported('unary op')

    def ev_BoolOp(self, n):
        is_and = isinstance(n.op, ast.And)
        if self.spec_mode:
            # term-level connective; concrete operands still short-circuit
            terms = []
            last = None
            for e in n.values:
                v = self.eval(e)
                t = self.truth(v)
                last = v
                if isinstance(t, bool):
                    if is_and and not t:
                        return v if not terms else False
                    if (not is_and) and t:
                        return v if not terms else True
                    continue
                terms.append(zbool(t))
            if not terms:
                return last
            return mk_bool(z3.And(*terms) if is_and else z3.Or(*terms))
        v = None
        for i, e in enumerate(n.values):
            v = self.eval(e)
            if i == len(n.values) - 1:
                return v
            t = self.branch(self.truth(v))
            if is_and and not t:
                return v
            if (not is_and) and t:
                return v
        return v

    def ev_IfExp(self, n):
        c = self.truth(self.eval(n.test))
        if isinstance(c, bool):
            return self.eval(n.body if c else n.orelse)
        if self.spec_mode and not isinstance(c, Unknown):
            a = self.eval(n.body)
            b = self.eval(n.orelse)
            return self.ite(c, a, b)
        # code mode: try a term-level ite for pure scalar arms, else fork
        if is_pure_scalar_expr(n.body) and is_pure_scalar_expr(n.orelse) and not isinstance(c, Unknown):
            a = self.eval(n.body)
            b = self.eval(n.orelse)
            r = self.try_ite(c, a, b)
            if r is not None:
                return r
        if self.branch(c):
            return self.eval(n.body)
        return self.eval(n.orelse)

    def try_ite(self, c, a, b):
        try:
            return self.ite(c, a, b)
        except Unsupported:
            return None

    def ite(self, c, a, b):
        if isinstance(c, bool):
            return a if c else b
        ct = zbool(c)
        ka, kb = self.kind_of(a), self.kind_of(b)
        if a is b:
            return a
        if ka == kb and ka in ('int', 'bool', 'bytes'):
            if ka == 'int':
                from .models import name_int

                return name_int(self, mk_int(z3.If(ct, zint(a), zint(b))), 'ite')
            if ka == 'bool':
                return mk_bool(z3.If(ct, zbool(a), zbool(b)))
            return mk_bytes(z3.If(ct, zbytes(a), zbytes(b)))
        if {ka, kb} <= {'int', 'bool'}:
            return mk_int(z3.If(ct, zint(a), zint(b)))
        if isinstance(ka, tuple) and ka == kb:
            return Sym(z3.If(ct, a.t, b.t), ka)
        if isinstance(a, tuple) and isinstance(b, tuple) and len(a) == len(b):
            return tuple(self.ite(c, x, y) for x, y in zip(a, b))
        raise Unsupported(f'ite over {ka}/{kb}')

    def ev_Compare(self, n):
        left = self.eval(n.left)
        res = []
        for op, rn in zip(n.ops, n.comparators):
            right = self.eval(rn)
            r = self.compare_op(op, left, right)
            if r is False:
                return False
            if isinstance(r, Unknown):
                return r
            res.append(r)
            left = right
        if len(res) == 1:
            return res[0]
        return self.bool_and(res)

    def ev_BinOp(self, n):
        return self.binop(n.op, self.eval(n.left), self.eval(n.right))

    def ev_Lambda(self, n):
        f = self.func_stack[-1]
        nf = Func(n, f.module, f.qualname + '.<lambda>', closure=list(self.scope), cls=f.cls, origin=f.origin)
        nf.defaults = [self.eval(d) for d in n.args.defaults]
        nf.kw_defaults = []
        return nf

    def ev_Await(self, n):
        v = self.eval(n.value)
        if v is PENDING:
            raise SuspendSig()  # awaiting a coroutine that is itself suspended
        return self.cfg.await_value(self, v, n)

    def ev_Starred(self, n):
        raise Unsupported('starred expression')

    def ev_ListComp(self, n):
        r = self.comprehension(n.elt, n.generators, n)
        if isinstance(r, Unknown):
            return r
        if isinstance(r, Sym):
            return self.alloc(LObj(None, r))
        return self.alloc(LObj(r))

    def ev_GeneratorExp(self, n):
        r = self.comprehension(n.elt, n.generators, n)
        if isinstance(r, (Sym, Unknown)):
            return r
        return ConcIter(r)

    def ev_SetComp(self, n):
        items = self.comprehension(n.elt, n.generators, n)
        if isinstance(items, Unknown):
            return items
        if isinstance(items, Sym):
            raise Unsupported('set comprehension over a symbolic sequence')
        if all(self.is_hashable_conc(x) for x in items):
            return frozenset(items)
        raise Unsupported('set comprehension with symbolic members')

    def ev_DictComp(self, n):
        pairs = self.comprehension(ast.Tuple([n.key, n.value], ast.Load()), n.generators, n)
        if isinstance(pairs, Unknown):
            return pairs
        if isinstance(pairs, Sym):
            raise Unsupported('dict comprehension over a symbolic sequence')
        d = {}
        for k, v in pairs:
            if not self.is_hashable_conc(k):
                raise Unsupported('dict comprehension with symbolic key')
            d[k] = v
        return self.alloc(DObj(d))

    def comprehension(self, elt, gens, node):
        """unrolled over concrete spines; symbolic map/filter forms are delegated"""
        r = self.cfg.symbolic_comprehension(self, elt, gens, node)
        pre_iter = None
        if r is not None:
            if r[0] == 'sym':
                return r[1]
            pre_iter = r[1]
        out = []
        frame = self.alloc(Frame())
        saved = self.scope
        self.scope = [frame] + list(self.scope)
        try:
            self._comp(elt, gens, 0, out, pre_iter)
        except _UnknownComprehension:
            # skeleton profile: a comprehension over an uninterpreted iterable is uninterpreted
            self.abstraction_used = True
            return Unknown('comprehension')
        finally:
            self.scope = saved
        return out

    def _comp(self, elt, gens, k, out, pre_iter=None):
        if k == len(gens):
            out.append(self.eval(elt))
            return
        g = gens[k]
        it = pre_iter if (k == 0 and pre_iter is not None) else self.eval(g.iter)
        items = self.concrete_iter(it)
        if items is None:
            if self.skeleton and isinstance(it, Unknown):
                raise _UnknownComprehension()
            raise Unsupported(f'comprehension over symbolic iterable at {self.cur_loc}')
        for x in items:
            self.assign(g.target, x)
            ok = True
            for cond in g.ifs:
                if not self.branch(self.truth(self.eval(cond))):
                    ok = False
                    break
            if ok:
                self._comp(elt, gens, k + 1, out)

    def ev_Call(self, n):
        if is_logger_call(n):
            return None
        # special forms
        if isinstance(n.func, ast.Name):
            sf = self.cfg.special_form(self, n.func.id)
            if sf is not None:
                return sf(self, n)
        if isinstance(n.func, ast.Name) and n.func.id == 'super':
            return self.make_super(n)
        f = self.eval(n.func)
        args = []
        for a in n.args:
            if isinstance(a, ast.Starred):
                items = self.concrete_iter(self.eval(a.value))
                if items is None:
                    raise Unsupported('*args over symbolic iterable')
                args.extend(items)
            else:
                args.append(self.eval(a))
        kwargs = {}
        for kw in n.keywords:
            if kw.arg is None:
                d = self.eval(kw.value)
                if isinstance(d, Ref) and isinstance(self.obj(d), DObj):
                    kwargs.update(self.obj(d).items)
                elif isinstance(d, dict):
                    kwargs.update(d)
                else:
                    raise Unsupported('**kwargs')
            else:
                kwargs[kw.arg] = self.eval(kw.value)
        return self.call(f, args, kwargs, n)

    # ------------------------------------------------------------------
    # calls
    # ------------------------------------------------------------------
    def call(self, f, args, kwargs, node=None):
        from . import models

        self.depth += 1
        if self.depth > 60:
            raise Unsupported('call depth > 60 (recursion?)')
        try:
            if isinstance(f, Bound):
                return self.call_bound(f, args, kwargs, node)
            if isinstance(f, Func):
                return self.cfg.call_func(self, f, args, kwargs, node)
            if isinstance(f, Builtin):
                return f.impl(self, args, kwargs)
            if isinstance(f, CallbackVal):
                return self.cfg.call_callback(self, f, args, kwargs)
            if isinstance(f, Unknown):
                return self.cfg.call_unknown(self, f, args, kwargs, node)
            if isinstance(f, SuperProxy):
                raise Unsupported('call of super proxy')
            if isinstance(f, type):
                return self.instantiate(f, args, kwargs, node)
            return models.call_native(self, f, args, kwargs, node)
        finally:
            self.depth -= 1

    def call_bound(self, b, args, kwargs, node):
        if isinstance(b.func, str):
            from . import models

            return models.call_method(self, b.recv, b.func, args, kwargs, node)
        return self.call(b.func, [b.recv] + list(args), kwargs, node)

    def make_super(self, n):
        f = self.func_stack[-1]
        if f.cls is None:
            raise Unsupported('super() outside a method')
        selfv = self.lookup(self.first_param(f))
        return SuperProxy(f.cls, selfv)

    def first_param(self, f):
        a = f.node.args
        ps = a.posonlyargs + a.args
        return ps[0].arg

    def bind_args(self, f, args, kwargs):
        a = f.node.args
        params = [p.arg for p in a.posonlyargs + a.args]
        defaults = self.func_defaults(f)
        env = {}
        args = list(args)
        if len(args) > len(params) and a.vararg is None:
            raise PyExc(TypeError(f'{f.qualname}: too many positional arguments'))
        for p, v in zip(params, args):
            env[p] = v
        if a.vararg is not None:
            env[a.vararg.arg] = tuple(args[len(params):])
        kwargs = dict(kwargs)
        for i, p in enumerate(params):
            if p in env:
                if p in kwargs:
                    raise PyExc(TypeError(f'{f.qualname}: multiple values for {p}'))
                continue
            if p in kwargs:
                env[p] = kwargs.pop(p)
            else:
                di = i - (len(params) - len(defaults['pos']))
                if di >= 0:
                    env[p] = defaults['pos'][di]
                else:
                    raise PyExc(TypeError(f'{f.qualname}: missing argument {p}'))
        for p in a.kwonlyargs:
            if p.arg in kwargs:
                env[p.arg] = kwargs.pop(p.arg)
            elif p.arg in defaults['kw']:
                env[p.arg] = defaults['kw'][p.arg]
            else:
                raise PyExc(TypeError(f'{f.qualname}: missing keyword argument {p.arg}'))
        if kwargs:
            if a.kwarg is not None:
                env[a.kwarg.arg] = self.alloc(DObj(dict(kwargs)))
            else:
                raise PyExc(TypeError(f'{f.qualname}: unexpected keyword {sorted(kwargs)}'))
        elif a.kwarg is not None:
            env[a.kwarg.arg] = self.alloc(DObj({}))
        return env

    def func_defaults(self, f):
        a = f.node.args
        if f.native is not None:
            pos = [self.import_native(x) for x in (f.native.__defaults__ or ())]
            kw = {k: self.import_native(v) for k, v in (f.native.__kwdefaults__ or {}).items()}
            return {'pos': pos, 'kw': kw}
        pos = list(f.defaults or [])
        kw = {}
        for p, d in zip(a.kwonlyargs, getattr(f, 'kw_defaults', []) or []):
            if d is not None:
                kw[p.arg] = d
        return {'pos': pos, 'kw': kw}

    def run_func(self, f, args, kwargs):
        """execute the body of f in place"""
        env = self.bind_args(f, args, kwargs)
        frame = self.alloc(Frame(env))
        saved_scope = self.scope
        self.scope = [frame] + list(f.closure or [])
        self.func_stack.append(f)
        saved_loc = self.cur_loc
        try:
            if isinstance(f.node, ast.Lambda):
                return self.eval(f.node.body)
            try:
                self.exec_block(f.node.body)
            except ReturnSig as r:
                return r.value
            except SuspendSig:
                # (func_stack[0] is the pseudo activation of the entry, func_stack[1] the entry itself)
                if isinstance(f.node, ast.AsyncFunctionDef) and len(self.func_stack) > 2:
                    return PENDING  # the rest of the body belongs to a later activation
                if len(self.func_stack) > 2:
                    raise
                raise Unsupported('the coroutine under contract suspends at an await on a pending awaitable')
            return None
        finally:
            self.func_stack.pop()
            self.scope = saved_scope
            self.cur_loc = saved_loc

    def instantiate(self, cls, args, kwargs, node=None):
        from . import models

        return models.instantiate(self, cls, args, kwargs, node)

    def new_exception(self, cls, *args):
        return self.alloc(Obj(cls, {'args': tuple(args)}))

    def raise_(self, cls, *args):
        raise PyExc(self.new_exception(cls, *args))

    # ------------------------------------------------------------------
    # attribute access
    # ------------------------------------------------------------------
    def getattr(self, o, name):
        from . import models

        return models.getattr_(self, o, name)

    def setattr(self, o, name, v):
        from . import models

        return models.setattr_(self, o, name, v)

    # ------------------------------------------------------------------
    # kinds / truth / comparison / arithmetic
    # ------------------------------------------------------------------
    def is_conc(self, v):
        return not isinstance(v, (Sym, Ref, Unknown, OpaqueStr, ElemRef))

    def is_hashable_conc(self, v):
        if isinstance(v, tuple):
            return all(self.is_hashable_conc(x) for x in v)
        return self.is_conc(v) or isinstance(v, Ref)

    def kind_of(self, v):
        if isinstance(v, Sym):
            return v.k
        if isinstance(v, bool):
            return 'bool'
        if isinstance(v, int):
            return 'int'
        if isinstance(v, (bytes, bytearray)):
            return 'bytes'
        if v is None:
            return 'none'
        if isinstance(v, str):
            return 'str'
        if isinstance(v, tuple):
            return 'tuple'
        if isinstance(v, Ref):
            o = self.obj(v)
            if isinstance(o, BAObj):
                return 'bytearray'
            if isinstance(o, LObj):
                return 'list'
            if isinstance(o, (DObj, MObj)):
                return 'dict'
            return 'obj'
        if isinstance(v, Unknown):
            return 'unknown'
        return 'native'

    def as_bytes_value(self, v):
        """immutable bytes value (python bytes or Sym bytes) of a bytes-like"""
        if isinstance(v, (bytes, bytearray)):
            return bytes(v)
        if isinstance(v, Sym) and v.k == 'bytes':
            return v
        if isinstance(v, Ref):
            o = self.obj(v)
            if isinstance(o, BAObj):
                return o.val
        raise Unsupported(f'bytes-like expected, got {v!r}')

    def truth(self, v):
        if isinstance(v, bool):
            return v
        if isinstance(v, Sym):
            if v.k == 'bool':
                return v
            if v.k == 'int':
                return mk_bool(v.t != 0)
            if v.k == 'bytes' or (isinstance(v.k, tuple) and v.k[0] == 'seq'):
                return mk_bool(z3.Length(v.t) > 0)
            if isinstance(v.k, tuple) and v.k[0] == 'opq':
                return True
        if isinstance(v, Unknown):
            return v
        if isinstance(v, OpaqueStr):
            return True
        if isinstance(v, Ref):
            o = self.obj(v)
            if isinstance(o, BAObj):
                return self.truth(o.val)
            if isinstance(o, LObj):
                if o.items is not None:
                    return len(o.items) > 0
                return self.truth(o.sym)
            if isinstance(o, DObj):
                return len(o.items) > 0
            if isinstance(o, MObj):
                raise Unsupported('truth of symbolic map')
            if isinstance(o, ExtObj):
                return o.ext_truth(self, v)
            if isinstance(o, Obj):
                from . import models

                return models.obj_truth(self, v, o)
            return True
        if isinstance(v, (Func, Bound, Builtin, CallbackVal)):
            return True
        if isinstance(v, ElemRef):
            return True
        try:
            return bool(v)
        except Exception as e:
            raise Unsupported(f'truth of {v!r}: {e}')

    def length(self, v):
        if isinstance(v, (bytes, bytearray, str, tuple, list, dict, frozenset, set, range, collections.deque)):
            return len(v)  # (a reflected native container, e.g. a class-level default: concrete, like a native list)
        if isinstance(v, Sym):
            if v.k == 'bytes' or (isinstance(v.k, tuple) and v.k[0] == 'seq'):
                return mk_int(z3.Length(v.t))
        if isinstance(v, ConcIter):
            return len(v.items)
        if isinstance(v, Ref):
            o = self.obj(v)
            if isinstance(o, BAObj):
                return self.length(o.val)
            if isinstance(o, LObj):
                if o.flavor == 'set' and o.items:
                    raise Unsupported('len of a set with symbolic members')
                return len(o.items) if o.items is not None else self.length(o.sym)
            if isinstance(o, DObj):
                return len(o.items)
            if isinstance(o, ExtObj):
                return o.ext_len(self, v)
            if isinstance(o, Obj):
                from . import models

                return models.obj_len(self, v, o)
        if isinstance(v, Unknown):
            return Unknown('len')
        raise Unsupported(f'len of {v!r}')

    def isinstance_(self, v, cls):
        from . import models

        return models.isinstance_(self, v, cls)

    def compare_op(self, op, a, b):
        from . import models

        return models.compare(self, op, a, b)

    def binop(self, op, a, b):
        from . import models

        return models.binop(self, op, a, b)

    def subscript(self, o, i):
        from . import models

        return models.subscript(self, o, i)

    def store_subscript(self, o, i, v):
        from . import models

        return models.store_subscript(self, o, i, v)

    def del_subscript(self, o, i):
        from . import models

        return models.del_subscript(self, o, i)

    def list_extend(self, ref, v):
        from . import models

        return models.list_extend(self, ref, v)

    def seq_get(self, seq, i):
        from . import models

        return models.seq_get(self, seq, i)


class _UnknownComprehension(Exception):
    pass


class SliceV:
    __slots__ = ('lo', 'hi', 'step')

    def __init__(self, lo, hi, step=None):
        self.lo, self.hi, self.step = lo, hi, step

    def __repr__(self):
        return f'SliceV({self.lo},{self.hi},{self.step})'


class SymRange:
    def __init__(self, start, stop, step):
        self.start, self.stop, self.step = start, stop, step


class SymZip:
    """zip(...) of symbolic sequences; consumed by st_For only"""

    def __init__(self, seqs):
        self.seqs = seqs


class ConcIter:
    """materialised generator with a concrete spine"""

    def __init__(self, items):
        self.items = items


class SuperProxy:
    def __init__(self, cls, selfv):
        self.cls = cls
        self.selfv = selfv


def is_logger_call(n):
    if not isinstance(n, ast.Call):
        return False
    f = n.func
    if isinstance(f, ast.Attribute) and isinstance(f.value, ast.Name) and f.value.id in ('logger', 'logging'):
        return True
    return False


def is_pure_scalar_expr(n):
    """constants, names, attributes, arithmetic/len thereof: cannot fork or raise
    in a way that matters for an if-expression arm"""
    if isinstance(n, ast.Constant):
        return isinstance(n.value, (int, bool))
    if isinstance(n, ast.Name):
        return True
    if isinstance(n, ast.UnaryOp):
        return is_pure_scalar_expr(n.operand)
    if isinstance(n, ast.BinOp) and isinstance(n.op, (ast.Add, ast.Sub, ast.Mult)):
        return is_pure_scalar_expr(n.left) and is_pure_scalar_expr(n.right)
    return False
