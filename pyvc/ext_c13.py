"""Engine extension used by contracts/c13_*.py (registered into the dict registries of models_calls).

stub_class(cls, model_name): instantiating the library/environment class `cls` yields a fresh instance of the
declared class model (typically a 'ghost:...' stub whose methods are recorded callbacks).  The constructor's
arguments are evaluated and dropped.  Use for collaborators outside the kernel (event watchers, futures).
"""
from . import contracts as C
from . import models  # noqa: F401  (loads models and, at its end, models_calls in the right order)
from .models_calls import CLASS_MODELS


def stub_class(cls, model_name):
    def make(ex, *args, **kwargs):
        return ex.cfg.fresh(ex, C.Inst(model_name), cls.__name__)

    CLASS_MODELS[cls] = make
    return make


def closing_model(ex, thing):
    """contextlib.closing(thing): as a context manager it yields `thing` and calls thing.close() at exit; the
    contract's with_enter / with_exit hooks see `thing` itself"""
    return thing


import contextlib  # noqa: E402

CLASS_MODELS[contextlib.closing] = closing_model


def drive(awaitable):
    """NATIVE harness only (a no-op model symbolically, where the body of an `async def` has already been executed
    at its call): a recorded `cancel_on_disconnection(coro)` / `create_task(coro)` stub runs the coroutine it was
    handed up to its first await on something pending, which is then never resumed (the coroutine is dropped without
    running its `finally` blocks any further than CPython's close() does)."""
    if awaitable is None or not hasattr(awaitable, 'send'):
        return None
    try:
        awaitable.send(None)
    except StopIteration:
        return None
    try:
        awaitable.close()
    except BaseException:  # noqa: BLE001
        pass
    return None


from .models_calls import NATIVE_MODELS  # noqa: E402

NATIVE_MODELS[drive] = lambda ex, awaitable: None
