"""Extraction of function ASTs from the repository's *current* source files.

The verified text is the AST of the function as found in the file that the
running interpreter imported the module from (PYTHONPATH=$VERIF_REPO puts the
tree under test first).  Nothing is rewritten by hand.
"""
from __future__ import annotations

import ast
import hashlib
import importlib
import inspect
import sys
import textwrap

_module_cache: dict = {}
_lambda_cache: dict = {}


class SourceError(Exception):
    pass


def load_module(modname):
    return importlib.import_module(modname)


def _parse_module(mod):
    fn = getattr(mod, '__file__', None)
    if fn is None:
        raise SourceError(f'module {mod.__name__} has no file')
    if fn not in _module_cache:
        with open(fn, 'r') as f:
            text = f.read()
        tree = ast.parse(text, filename=fn)
        index = {}
        _index(tree, '', index)
        _module_cache[fn] = (tree, text, index)
    return _module_cache[fn]


def _index(node, prefix, index):
    for child in ast.iter_child_nodes(node):
        if isinstance(child, (ast.FunctionDef, ast.AsyncFunctionDef)):
            q = prefix + child.name
            index.setdefault(q, []).append(child)
            _index(child, q + '.<locals>.', index)
        elif isinstance(child, ast.ClassDef):
            q = prefix + child.name
            index.setdefault(q, []).append(child)
            _index(child, q + '.', index)
        else:
            _index(child, prefix, index)


def find_def(mod, qualname, lineno=None):
    """AST node of function/class `qualname` in module `mod`."""
    tree, text, index = _parse_module(mod)
    nodes = index.get(qualname)
    if not nodes:
        raise SourceError(f'{mod.__name__}:{qualname} not found in {mod.__file__}')
    if len(nodes) > 1:
        # property getter/setter pairs, overloads: disambiguate by line
        if lineno is not None:
            for n in nodes:
                lines = [n.lineno] + [d.lineno for d in n.decorator_list]
                if lineno in lines or n.lineno == lineno:
                    return n
        # take the last non-overload definition (what Python binds)
        cands = [n for n in nodes if not any(_dec_name(d) == 'overload' for d in n.decorator_list)]
        if lineno is None and cands:
            return cands[-1]
        raise SourceError(f'ambiguous definition {qualname}')
    return nodes[0]


def _dec_name(d):
    if isinstance(d, ast.Call):
        d = d.func
    if isinstance(d, ast.Attribute):
        return d.attr
    if isinstance(d, ast.Name):
        return d.id
    return ''


def decorator_names(node):
    out = []
    for d in node.decorator_list:
        out.append(ast.unparse(d))
    return out


def source_segment(mod, node):
    tree, text, index = _parse_module(mod)
    return ast.get_source_segment(text, node) or ''


def sha_of(mod, node):
    return hashlib.sha256(source_segment(mod, node).encode()).hexdigest()[:16]


def node_of_native(pyfunc):
    """(module, qualname, node) for a real python function object."""
    pyfunc = inspect.unwrap(pyfunc) if hasattr(pyfunc, '__wrapped__') else pyfunc
    mod = sys.modules.get(pyfunc.__module__)
    if mod is None:
        raise SourceError(f'no module for {pyfunc}')
    code = getattr(pyfunc, '__code__', None)
    lineno = code.co_firstlineno if code else None
    qn = pyfunc.__qualname__
    if '<lambda>' in qn:
        return mod, qn, find_lambda(mod, lineno, code)
    return mod, qn, find_def(mod, qn, lineno)


def find_lambda(mod, lineno, code=None):
    tree, text, index = _parse_module(mod)
    lambdas = _lambda_cache.get(mod.__file__)
    if lambdas is None:
        lambdas = _lambda_cache[mod.__file__] = [n for n in ast.walk(tree) if isinstance(n, ast.Lambda)]  # one walk per module
    cands = [n for n in lambdas if n.lineno <= lineno <= (n.end_lineno or n.lineno)]
    if code is not None and len(cands) > 1:
        names = code.co_varnames[: code.co_argcount]
        c2 = [n for n in cands if tuple(a.arg for a in n.args.args) == tuple(names)]
        if c2:
            cands = c2
    if code is not None and len(cands) > 1:
        c2 = [n for n in cands if n.lineno == lineno]
        if c2:
            cands = c2
    if code is not None and len(cands) > 1 and hasattr(code, 'co_positions'):
        # several lambdas with the same parameters on one line: the instructions of this code object lie inside
        # the body of the lambda it was compiled from
        pos = [p for p in code.co_positions() if None not in p and (p[2], p[3]) != (0, 0)]

        def inside(n):
            b = n.body
            return all((b.lineno, b.col_offset) <= (l, c) and (el, ec) <= (b.end_lineno, b.end_col_offset) for (l, el, c, ec) in pos)

        c2 = [n for n in cands if inside(n)] if pos else []
        if c2:
            cands = c2
    if not cands:
        raise SourceError(f'lambda at {mod.__name__}:{lineno} not found')
    # innermost
    cands.sort(key=lambda n: (n.end_lineno - n.lineno, -n.col_offset))
    return cands[0]


def parse_native_function(fn):
    """AST of a sidecar (contract/spec) function or lambda, via inspect."""
    mod = sys.modules[fn.__module__]
    code = fn.__code__
    if fn.__name__ == '<lambda>':
        return mod, find_lambda(mod, code.co_firstlineno, code)
    try:
        return mod, find_def(mod, fn.__qualname__, code.co_firstlineno)
    except SourceError:
        src = textwrap.dedent(inspect.getsource(fn))
        tree = ast.parse(src)
        return mod, tree.body[0]
