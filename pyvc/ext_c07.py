"""Engine extension for C07: `flat(q)` = concatenation of a sequence of byte strings.

Natively `b''.join(q)`.  Symbolically a recursively defined function over Seq(Seq(Int))

    FLAT(s) = if |s| == 0 then empty else s[0] ++ FLAT(s[1:])

applied after a *structural normalisation* of the argument that uses the two facts

    FLAT(a ++ b) == FLAT(a) ++ FLAT(b)      (flat-append, proved by induction on a)
    FLAT(unit(x)) == x                      (flat-unit, by unfolding)

Both facts are generated as named obligations (once per entry) exactly like the induction
lemmas of the symbolic comprehensions in seqspec.py; every remaining application FLAT(t) gets
its one-step unfolding as a hint (the defining equation instantiated at t: a valid fact).
Registers into seqspec.SPEC_FORMS (a dict registry); no core file is edited.
"""
from __future__ import annotations

import z3

from . import seqspec
from .engine import Obligation, Unsupported, mk_bytes
from .values import IntSeq, LObj, Ref, Sym

SeqSeq = z3.SeqSort(IntSeq)

# the name matches the `comp<digits>` pattern that solve.to_cvc5_text rewrites for cvc5
FLAT = z3.RecFunction('comp9007', SeqSeq, IntSeq)
_S = z3.Const('__fs', SeqSeq)
z3.RecAddDefinition(
    FLAT,
    [_S],
    z3.If(z3.Length(_S) == 0, z3.Empty(IntSeq), z3.Concat(_S[0], FLAT(z3.Extract(_S, 1, z3.Length(_S) - 1)))),
)


def flat(q):
    """concatenation of the byte strings of q, in order"""
    return b''.join(bytes(x) for x in q)


def _unfold(t):
    n = z3.Length(t)
    return FLAT(t) == z3.If(n == 0, z3.Empty(IntSeq), z3.Concat(t[0], FLAT(z3.Extract(t, 1, n - 1))))


def _lemmas():
    a = z3.Const('__fa', SeqSeq)
    b = z3.Const('__fb', SeqSeq)
    x = z3.Const('__fx', IntSeq)
    ta = z3.Extract(a, 1, z3.Length(a) - 1)
    ab = z3.Concat(a, b)
    ih = z3.Implies(z3.Length(a) > 0, FLAT(z3.Concat(ta, b)) == z3.Concat(FLAT(ta), FLAT(b)))
    hyps = [
        ih,
        _unfold(ab),
        _unfold(a),
        # the tail of a ++ b is tail(a) ++ b when a is not empty (sequence fact, stated as a hint and proved below)
    ]
    tail_fact = z3.Implies(z3.Length(a) > 0, z3.And(z3.Extract(ab, 1, z3.Length(ab) - 1) == z3.Concat(ta, b), ab[0] == a[0]))
    return [
        ('flat-tail-of-append', [], tail_fact),
        ('flat-append', hyps + [tail_fact], FLAT(ab) == z3.Concat(FLAT(a), FLAT(b))),
        ('flat-unit', [_unfold(z3.Unit(x)), _unfold(z3.Empty(SeqSeq))], FLAT(z3.Unit(x)) == x),
        ('flat-empty', [_unfold(z3.Empty(SeqSeq))], FLAT(z3.Empty(SeqSeq)) == z3.Empty(IntSeq)),
    ]


def _norm(ex, t):
    """FLAT(t) with flat-append / flat-unit / flat-empty applied along the syntactic structure of t"""
    t = z3.simplify(t)
    if z3.is_app(t):
        k = t.decl().kind()
        if k == z3.Z3_OP_SEQ_EMPTY:
            return z3.Empty(IntSeq)
        if k == z3.Z3_OP_SEQ_UNIT:
            return t.arg(0)
        if k == z3.Z3_OP_SEQ_CONCAT:
            return z3.Concat(*[_norm(ex, c) for c in t.children()])
    ex.add_def(_unfold(t))
    return FLAT(t)


def q_flat(ex, args, kwargs):
    (q,) = args
    if isinstance(q, Ref):
        ho = ex.obj(q)
        if isinstance(ho, LObj) and ho.items is not None:
            parts = [ex.as_bytes_value(ex.wrap(x, q)) for x in ho.items]
            out = b''
            import ast

            from . import models as M

            for p in parts:
                out = M.binop(ex, ast.Add(), out, p)
            return out
    seq = ex.as_symseq(q)
    if seq is None or seq.k != ('seq', 'bytes'):
        raise Unsupported('flat() of something that is not a sequence of byte strings')
    for nm, hyps, goal in _lemmas():
        name = ex.cfg.obl_name(ex, 'lemma', nm)
        key = ('lemma', name)
        if not any(o.key == key for o in ex.obligations):
            ex.obligations.append(Obligation(name, 'lemma', list(hyps), goal, ex.cur_loc, key, {'def_ids': set()}))
    return mk_bytes(z3.simplify(_norm(ex, seq.t)))


seqspec.SPEC_FORMS[flat] = q_flat
