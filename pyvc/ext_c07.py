"""Engine extension for C07: folds over a sequence of byte strings (a deque of write() buffers):
`flat(q)` = their concatenation, `all_nonempty(q)` = none of them is empty.

`all_nonempty` follows the same scheme as `flat` (described next) with (and, True) in place of
(++, empty):  NE(s) = |s| == 0 or (|s[0]| >= 1 and NE(s[1:])).


Natively `b''.join(q)`.  Symbolically a function over Seq(Seq(Int)) with the defining equation

    FLAT(s) = if |s| == 0 then empty else s[0] ++ FLAT(s[1:])

applied after a *structural normalisation* of the argument that uses the two facts

    FLAT(a ++ b) == FLAT(a) ++ FLAT(b)      (flat-append, proved by induction on a)
    FLAT(unit(x)) == x                      (flat-unit, by unfolding)

Both facts are generated as named obligations (once per entry) like the induction lemmas of
the symbolic comprehensions in seqspec.py; every remaining application FLAT(t) gets
its one-step unfolding as a hint (the defining equation instantiated at t: a valid fact).
Registers into seqspec.SPEC_FORMS (a dict registry); no core file is edited.
"""
from __future__ import annotations

import os
import sys

import z3

from . import seqspec
from .engine import Obligation, Unsupported, mk_bool, mk_bytes
from .values import IntSeq, LObj, Ref, Sym

SeqSeq = z3.SeqSort(IntSeq)

# FLAT / NE are *uninterpreted* for the solvers; their recursive definitions enter every proof only
# through instances of the defining equations (`_unfold(t)`, `_ne_unfold(t)`: valid facts for any t)
# and through the lemmas below, which are themselves proved from such instances by induction.
# (A z3 RecFunction was tried first: the Bool-valued one sends z3's rewriter into a loop that
# ignores the time limit.)  A counter-model may therefore interpret FLAT/NE freely on terms that
# were not unfolded; such a candidate is decided by the native replay, never reported as is.
FLAT = z3.Function('flat_bytes', SeqSeq, IntSeq)
_S = z3.Const('__fs', SeqSeq)


def flat(q):
    """concatenation of the byte strings of q, in order"""
    return b''.join(bytes(x) for x in q)


def _unfold(t):
    n = z3.Length(t)
    return FLAT(t) == z3.If(n == 0, z3.Empty(IntSeq), z3.Concat(t[0], FLAT(z3.Extract(t, 1, n - 1))))


def _lemmas():
    a = z3.Const('__fa', SeqSeq)
    b = z3.Const('__fb', SeqSeq)
    x = z3.Const('__fx', IntSeq)
    ta = z3.Extract(a, 1, z3.Length(a) - 1)
    ab = z3.Concat(a, b)
    ih = z3.Implies(z3.Length(a) > 0, FLAT(z3.Concat(ta, b)) == z3.Concat(FLAT(ta), FLAT(b)))
    hyps = [
        ih,
        _unfold(ab),
        _unfold(a),
        # the tail of a ++ b is tail(a) ++ b when a is not empty (sequence fact, stated as a hint and proved below)
    ]
    tail_fact = z3.Implies(z3.Length(a) > 0, z3.And(z3.Extract(ab, 1, z3.Length(ab) - 1) == z3.Concat(ta, b), ab[0] == a[0]))
    return [
        ('flat-tail-of-append', [], tail_fact),
        ('flat-append', hyps + [tail_fact], FLAT(ab) == z3.Concat(FLAT(a), FLAT(b))),
        ('flat-unit', [_unfold(z3.Unit(x)), _unfold(z3.Empty(SeqSeq))], FLAT(z3.Unit(x)) == x),
        ('flat-empty', [_unfold(z3.Empty(SeqSeq))], FLAT(z3.Empty(SeqSeq)) == z3.Empty(IntSeq)),
    ]



def _split_ite(t):
    """t simplified; if t is extract(ite(c, A, B), off, ln) return (c, tA, tB) with the extract pushed into
    both branches (ite(c, A, B) replaced by the branch inside off/ln as well): a valid rewriting"""
    if z3.is_app(t) and t.decl().kind() == z3.Z3_OP_SEQ_EXTRACT:
        x = t.arg(0)
        if z3.is_app(x) and x.decl().kind() == z3.Z3_OP_ITE:
            c, a, b = x.arg(0), x.arg(1), x.arg(2)
            ta = z3.Extract(a, z3.substitute(t.arg(1), (x, a)), z3.substitute(t.arg(2), (x, a)))
            tb = z3.Extract(b, z3.substitute(t.arg(1), (x, b)), z3.substitute(t.arg(2), (x, b)))
            return c, ta, tb
    return None


def _norm(ex, t):
    """FLAT(t) with flat-append / flat-unit / flat-empty applied along the syntactic structure of t"""
    t = z3.simplify(t)
    if z3.is_app(t):
        k = t.decl().kind()
        if k == z3.Z3_OP_SEQ_EMPTY:
            return z3.Empty(IntSeq)
        if k == z3.Z3_OP_SEQ_UNIT:
            return t.arg(0)
        if k == z3.Z3_OP_SEQ_CONCAT:
            return z3.Concat(*[_norm(ex, c) for c in t.children()])
        if k == z3.Z3_OP_ITE:
            return z3.If(t.arg(0), _norm(ex, t.arg(1)), _norm(ex, t.arg(2)))
        sp = _split_ite(t)
        if sp is not None:
            return z3.If(sp[0], _norm(ex, sp[1]), _norm(ex, sp[2]))
    if os.environ.get('PYVC_DEBUG_FLAT'):
        print('[flat] opaque', t.decl().name(), [c.decl().name() for c in t.children()], t.sexpr()[:6000] if t.num_args() else t, file=sys.stderr)
    ex.add_def(_unfold(t))
    return FLAT(t)



# --- all_nonempty -----------------------------------------------------------------------------------
NE = z3.Function('all_nonempty', SeqSeq, z3.BoolSort())


def all_nonempty(q):
    """no element of q is empty"""
    return all(len(x) >= 1 for x in q)


def _ne_unfold(t):
    n = z3.Length(t)
    return NE(t) == z3.Or(n == 0, z3.And(z3.Length(t[0]) >= 1, NE(z3.Extract(t, 1, n - 1))))


def _ne_lemmas():
    a = z3.Const('__fa', SeqSeq)
    b = z3.Const('__fb', SeqSeq)
    x = z3.Const('__fx', IntSeq)
    ta = z3.Extract(a, 1, z3.Length(a) - 1)
    ab = z3.Concat(a, b)
    ih = z3.Implies(z3.Length(a) > 0, NE(z3.Concat(ta, b)) == z3.And(NE(ta), NE(b)))
    tail_fact = z3.Implies(z3.Length(a) > 0, z3.And(z3.Extract(ab, 1, z3.Length(ab) - 1) == z3.Concat(ta, b), ab[0] == a[0]))
    return [
        ('nonempty-tail-of-append', [], tail_fact),
        ('nonempty-append', [ih, _ne_unfold(ab), _ne_unfold(a), tail_fact], NE(ab) == z3.And(NE(a), NE(b))),
        ('nonempty-unit', [_ne_unfold(z3.Unit(x)), _ne_unfold(z3.Empty(SeqSeq))], NE(z3.Unit(x)) == (z3.Length(x) >= 1)),
        ('nonempty-empty', [_ne_unfold(z3.Empty(SeqSeq))], NE(z3.Empty(SeqSeq))),
    ]


def _ne_norm(ex, t):
    t = z3.simplify(t)
    if z3.is_app(t):
        k = t.decl().kind()
        if k == z3.Z3_OP_SEQ_EMPTY:
            return z3.BoolVal(True)
        if k == z3.Z3_OP_SEQ_UNIT:
            return z3.Length(t.arg(0)) >= 1
        if k == z3.Z3_OP_SEQ_CONCAT:
            return z3.And(*[_ne_norm(ex, c) for c in t.children()])
        if k == z3.Z3_OP_ITE:
            return z3.If(t.arg(0), _ne_norm(ex, t.arg(1)), _ne_norm(ex, t.arg(2)))
        sp = _split_ite(t)
        if sp is not None:
            return z3.If(sp[0], _ne_norm(ex, sp[1]), _ne_norm(ex, sp[2]))
    ex.add_def(_ne_unfold(t))
    return NE(t)


# --- the two spec forms ---------------------------------------------------------------------------------
def _seq_arg(ex, q, what):
    """('conc', [byte strings]) for a list with a concrete spine, ('sym', term) for a symbolic one"""
    if isinstance(q, Ref):
        ho = ex.obj(q)
        if isinstance(ho, LObj) and ho.items is not None:
            return 'conc', [ex.as_bytes_value(ex.wrap(x, q)) for x in ho.items]
    seq = ex.as_symseq(q)
    if seq is None or seq.k != ('seq', 'bytes'):
        raise Unsupported(f'{what}() of something that is not a sequence of byte strings')
    return 'sym', seq.t


def _state(ex, lemmas):
    for nm, hyps, goal in lemmas:
        name = ex.cfg.obl_name(ex, 'lemma', nm)
        key = ('lemma', name)
        if not any(o.key == key for o in ex.obligations):
            ex.obligations.append(Obligation(name, 'lemma', list(hyps), goal, ex.cur_loc, key, {'def_ids': set()}))


def q_flat(ex, args, kwargs):
    import ast

    from . import models as M

    kind, v = _seq_arg(ex, args[0], 'flat')
    if kind == 'conc':
        out = b''
        for p in v:
            out = M.binop(ex, ast.Add(), out, p)
        return out
    _state(ex, _lemmas())
    return mk_bytes(z3.simplify(_norm(ex, v)))


def q_all_nonempty(ex, args, kwargs):
    import ast

    from . import models as M

    kind, v = _seq_arg(ex, args[0], 'all_nonempty')
    if kind == 'conc':
        return ex.bool_and([ex.truth(M.compare(ex, ast.GtE(), ex.length(p), 1)) for p in v])
    _state(ex, _ne_lemmas())
    return mk_bool(_ne_norm(ex, v))


seqspec.SPEC_FORMS[flat] = q_flat
seqspec.SPEC_FORMS[all_nonempty] = q_all_nonempty


# ---------------------------------------------------------------------------
# own_fresh(obj, 'name'): after a constructor, `obj.name` is an attribute of this very instance (assigned by the code
# under contract -- not a default it merely inherits from its class, which every instance would share) and the object
# it holds was created during the call.
#   symbolically: the field exists in the instance and refers to a heap object allocated after entry (exact);
#   natively (replay / cross-check): the name is in the instance dict and its value is neither a class-level attribute
#   nor a global of the class's module (weaker than "created during the call", enough to witness a shared default).
# ---------------------------------------------------------------------------
_MISSING = object()


def own_fresh(obj, name):
    d = getattr(obj, '__dict__', {})
    if name not in d:
        return False
    v = d[name]
    if any(v is k.__dict__.get(name, _MISSING) for k in type(obj).__mro__):
        return False
    mod = sys.modules.get(type(obj).__module__)
    return not any(v is g for g in vars(mod).values()) if mod is not None else True


def q_own_fresh(ex, args, kwargs):
    from .values import LazyVal, Obj

    obj, name = args
    if not isinstance(obj, Ref) or not isinstance(ex.obj(obj), Obj) or not isinstance(name, str):
        raise Unsupported('own_fresh(obj, name): obj must be an instance, name a literal')
    fields = ex.obj(obj).fields
    if name not in fields:
        return False  # not assigned: a read falls back to the class attribute, shared by all instances
    v = fields[name]
    if isinstance(v, LazyVal):
        v = ex.force(v)
    if isinstance(v, (Sym,)) or type(v).__name__ in ('Unknown', 'OpaqueStr', 'ElemRef'):
        raise Unsupported(f'own_fresh: {name} holds a symbolic scalar / uninterpreted value ({v!r})')
    if not isinstance(v, Ref):
        return False  # a reflected native object (module- or class-level state) or a constant: it existed before the call
    return v.oid not in ex.snapshots.get('old', {})


seqspec.SPEC_FORMS[own_fresh] = q_own_fresh
