"""Engine extension for C01 (HCI field codec): small library models registered into the model tables."""
from __future__ import annotations

import collections
import typing

from . import models as _M  # noqa: F401  (must be imported before models_calls: circular import)
from . import models_calls as MC

# collections.OrderedDict() / collections.OrderedDict[str, Any](): an insertion-ordered dict with a concrete spine
# (DObj keeps insertion order exactly like dict; move_to_end/popitem are not modelled -> Unsupported)
MC.CLASS_MODELS[collections.OrderedDict] = MC.m_dict
MC.NATIVE_MODELS[collections.OrderedDict[str, typing.Any]] = MC.m_dict

# typing.cast(T, v) is the identity at run time
MC.NATIVE_MODELS[typing.cast] = lambda ex, t, v: v


import dataclasses  # noqa: E402

from .values import Obj, Ref  # noqa: E402


def m_dataclass_fields(ex, obj):
    """dataclasses.fields(class_or_instance): reflection on the (concrete) class of the argument"""
    if isinstance(obj, Ref) and isinstance(ex.obj(obj), Obj) and ex.obj(obj).cls is not None:
        obj = ex.obj(obj).cls
    if not isinstance(obj, type):
        raise MC.Unsupported('dataclasses.fields of a non-class value')
    try:
        return dataclasses.fields(obj)
    except TypeError as e:
        raise MC.PyExc(e)


MC.NATIVE_MODELS[dataclasses.fields] = m_dataclass_fields
