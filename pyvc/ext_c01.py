"""Engine extension for C01 (HCI field codec): small library models registered into the model tables."""
from __future__ import annotations

import collections
import typing

from . import models as _M  # noqa: F401  (must be imported before models_calls: circular import)
from . import models_calls as MC

# collections.OrderedDict() / collections.OrderedDict[str, Any](): an insertion-ordered dict with a concrete spine
# (DObj keeps insertion order exactly like dict; move_to_end/popitem are not modelled -> Unsupported)
MC.CLASS_MODELS[collections.OrderedDict] = MC.m_dict
MC.NATIVE_MODELS[collections.OrderedDict[str, typing.Any]] = MC.m_dict

# typing.cast(T, v) is the identity at run time
MC.NATIVE_MODELS[typing.cast] = lambda ex, t, v: v


import dataclasses  # noqa: E402

from .values import Obj, Ref  # noqa: E402


def m_dataclass_fields(ex, obj):
    """dataclasses.fields(class_or_instance): reflection on the (concrete) class of the argument"""
    if isinstance(obj, Ref) and isinstance(ex.obj(obj), Obj) and ex.obj(obj).cls is not None:
        obj = ex.obj(obj).cls
    if not isinstance(obj, type):
        raise MC.Unsupported('dataclasses.fields of a non-class value')
    try:
        return dataclasses.fields(obj)
    except TypeError as e:
        raise MC.PyExc(e)


MC.NATIVE_MODELS[dataclasses.fields] = m_dataclass_fields


# bin(x).count('1') (population count idiom) for a symbolic non-negative x of known range
import z3  # noqa: E402

from .values import OpaqueStr, Sym  # noqa: E402


class BinStr(OpaqueStr):
    """the string bin(x) of a symbolic x >= 0: only .count('1') / .count('0b') style queries are answered"""

    def __init__(self, x, bits):
        self.x = x
        self.bits = bits


def m_bin(ex, x):
    x = _M.plain(x)
    if ex.is_conc(x):
        return bin(x)
    if not (isinstance(x, Sym) and x.k == 'int'):
        raise MC.Unsupported('bin() of a non-integer symbolic value')
    r = _M.term_range(ex, x.t, 0)
    if r is None or r[0] < 0 or r[1] >= (1 << 64):
        raise MC.Unsupported('bin() of a symbolic integer without a known non-negative range')
    return BinStr(x, max(r[1].bit_length(), 1))


def binstr_method(ex, recv, name, args, kwargs):
    if name == 'count' and len(args) == 1 and args[0] == '1' and not kwargs:
        # '0b' prefix holds no '1'; the digits are the bits of x
        t = recv.x.t
        tot = z3.IntVal(0)
        for i in range(recv.bits):
            tot = tot + (t / (1 << i)) % 2 if i else tot + t % 2
        return _M.name_int(ex, MC.mk_int(tot), 'popcount')
    raise MC.Unsupported(f'str.{name} on bin() of a symbolic integer')


MC.NATIVE_MODELS[bin] = m_bin
MC.RECV_MODELS[BinStr] = binstr_method
