"""Models of Python's built-in operations over the symbolic value domain
(assumption A4: hand-written, validated by the CPython cross-check)."""
from __future__ import annotations

import ast
import builtins as _builtins
import dataclasses
import enum
import struct as _struct
import types

import z3

from .engine import (
    ConcIter,
    EngineError,
    PyExc,
    SliceV,
    SuperProxy,
    SymRange,
    Unsupported,
    bytes_lit,
    conc_int,
    mk_bool,
    mk_bytes,
    mk_int,
    zbool,
    zbytes,
    zint,
    zmax,
    zmin,
)
from .values import (
    BAObj,
    Bound,
    Builtin,
    CallbackVal,
    DObj,
    ElemRef,
    ExtObj,
    Func,
    IntSeq,
    LObj,
    MObj,
    Obj,
    OpaqueStr,
    Ref,
    Sym,
    Unknown,
    sort_of,
    tuple_parts,
)

# ---------------------------------------------------------------------------
# helpers
# ---------------------------------------------------------------------------


def is_intlike(ex, v):
    return isinstance(v, int) or (isinstance(v, Sym) and v.k in ('int', 'bool'))


def is_byteslike(ex, v):
    if isinstance(v, (bytes, bytearray)):
        return True
    if isinstance(v, Sym) and v.k == 'bytes':
        return True
    if isinstance(v, Ref) and isinstance(ex.obj(v), BAObj):
        return True
    return False


def is_seq_sym(v):
    return isinstance(v, Sym) and isinstance(v.k, tuple) and v.k[0] == 'seq'


def plain(v):
    """int value of IntEnum/IntFlag members etc."""
    if isinstance(v, enum.Enum) and isinstance(v, int):
        return int(v)
    return v


def elem_to_value(ex, term, kind):
    """z3 term of element kind -> engine value"""
    if kind == 'int':
        return mk_int(term)
    if kind == 'bool':
        return mk_bool(term)
    if kind == 'bytes':
        return mk_bytes(term)
    if isinstance(kind, tuple) and kind[0] == 'tup':
        sort, mk, projs = tuple_parts(kind)
        return tuple(elem_to_value(ex, z3.simplify(p(term)), k) for p, k in zip(projs, kind[1]))
    from .values import ext_kind

    if ext_kind(kind) is not None:
        return ext_kind(kind).to_value(ex, term, kind)
    if isinstance(kind, tuple) and kind[0] == 'rec':
        return ElemRef(rec_heap(ex, kind[1]), mk_int(term))
    return Sym(z3.simplify(term), kind)


def rec_heap(ex, model_name):
    """the record heap of a class: the ghost field that holds the symbolic map of that model"""
    g = ex.obj(ex.ghost)
    for v in g.fields.values():
        if isinstance(v, Ref) and isinstance(ex.obj(v), MObj) and ex.obj(v).elem_model is not None and ex.obj(v).elem_model.name == model_name:
            return Ref(v.oid)
    raise Unsupported(f'no record heap (ghost MapOf) for {model_name}')


def value_to_elem(ex, v, kind):
    """engine value -> z3 term of element kind"""
    if kind == 'int':
        return zint(v)
    if kind == 'bool':
        return zbool(v)
    if kind == 'bytes':
        return zbytes(ex.as_bytes_value(v))
    if isinstance(kind, tuple) and kind[0] == 'tup':
        sort, mk, projs = tuple_parts(kind)
        if not isinstance(v, tuple) or len(v) != len(kind[1]):
            raise Unsupported(f'tuple of shape {kind} expected, got {v!r}')
        return mk(*[value_to_elem(ex, x, k) for x, k in zip(v, kind[1])])
    if isinstance(v, Sym) and v.k == kind:
        return v.t
    if isinstance(kind, tuple) and kind[0] == 'rec' and isinstance(v, ElemRef) and ex.obj(v.mref).elem_model.name == kind[1]:
        return zint(v.key)
    raise Unsupported(f'cannot store {v!r} as element of kind {kind}')


def guess_kind(ex, v):
    k = ex.kind_of(v)
    if k in ('int', 'bool', 'bytes'):
        return k
    if isinstance(v, Sym):
        return v.k
    if isinstance(v, tuple):
        return ('tup', tuple(guess_kind(ex, x) for x in v))
    if isinstance(v, ElemRef) and ex.obj(v.mref).elem_model is not None:
        return ('rec', ex.obj(v.mref).elem_model.name)
    raise Unsupported(f'no element kind for {v!r}')


def mark_byte(ex, t):
    """remember that the z3 term t is known to lie in 0..255 (a fact already in the path condition)"""
    ex.__dict__.setdefault('known_bytes', set()).add(t.get_id())
    ex.keep.append(t)


def is_known_byte(ex, v):
    if isinstance(v, bool):
        return False
    if isinstance(v, int):
        return 0 <= v <= 255
    if not (isinstance(v, Sym) and v.k == 'int'):
        return False
    if v.t.get_id() in ex.__dict__.get('known_bytes', ()):
        return True
    r = term_range(ex, v.t, 0)
    if r is not None and r[0] >= 0 and r[1] <= 255:
        mark_byte(ex, v.t)
        return True
    return False


def term_factor(t, depth):
    """a positive integer that provably divides the term (1 when nothing is known)"""
    import math

    if depth > 12:
        return 1
    if z3.is_int_value(t):
        return abs(t.as_long())  # 0 divides... gcd(0, c) == c: right for the use above
    if not z3.is_app(t):
        return 1
    k = t.decl().kind()
    ch = t.children()
    if k == z3.Z3_OP_MUL:
        f = 1
        for c in ch:
            f *= term_factor(c, depth + 1) if z3.is_int_value(c) or c.decl().kind() in (z3.Z3_OP_MUL, z3.Z3_OP_ADD) else 1
        return f
    if k == z3.Z3_OP_ADD:
        f = 0
        for c in ch:
            f = math.gcd(f, term_factor(c, depth + 1))
        return f if f > 0 else 1
    return 1


def mark_range(ex, t, lo, hi):
    """remember that lo <= t <= hi is a fact of the path condition (type invariant of an IntRange value)"""
    ex.__dict__.setdefault('known_ranges', {})[t.get_id()] = (lo, hi)
    ex.keep.append(t)


def in_known_range(ex, v, lo, hi):
    """cheap, sound: is the value syntactically known to lie within lo..hi"""
    if isinstance(v, bool):
        return lo <= int(v) <= hi
    if isinstance(v, int):
        return lo <= v <= hi
    if not (isinstance(v, Sym) and v.k == 'int') or ex.quant:
        return False
    r = term_range(ex, v.t, 0)
    return r is not None and lo <= r[0] and r[1] <= hi


def term_range(ex, t, depth):
    """cheap syntactic interval of an integer term built from known bytes and constants
    (sound: None when nothing is known)"""
    if depth > 12:
        return None
    if z3.is_int_value(t):
        c = t.as_long()
        return (c, c)
    if t.get_id() in ex.__dict__.get('known_bytes', ()):
        return (0, 255)
    kr = ex.__dict__.get('known_ranges')
    if kr:
        r = kr.get(t.get_id())
        if r is not None:
            return r
    if not z3.is_app(t):
        return None
    k = t.decl().kind()
    ch = t.children()
    if k == z3.Z3_OP_BV2INT or t.decl().name() in ('bv2int', 'ubv_to_int', 'bv2nat'):
        return (0, (1 << ch[0].size()) - 1)
    if k in (z3.Z3_OP_MOD, z3.Z3_OP_IDIV) and len(ch) == 2 and z3.is_int_value(ch[1]) and ch[1].as_long() > 0:
        c = ch[1].as_long()
        r = term_range(ex, ch[0], depth + 1)
        if k == z3.Z3_OP_MOD:
            if r is not None and r[0] >= 0 and r[1] < c:
                return r
            import math

            f = math.gcd(term_factor(ch[0], 0), c)  # x a multiple of f and f | c  =>  x mod c a multiple of f
            return (0, c - f)
        if r is None:
            return None
        return (r[0] // c, r[1] // c)
    if k == z3.Z3_OP_ADD:
        lo = hi = 0
        for c in ch:
            r = term_range(ex, c, depth + 1)
            if r is None:
                return None
            lo, hi = lo + r[0], hi + r[1]
        return (lo, hi)
    if k == z3.Z3_OP_SUB and len(ch) == 2:
        a, b = term_range(ex, ch[0], depth + 1), term_range(ex, ch[1], depth + 1)
        if a is None or b is None:
            return None
        return (a[0] - b[1], a[1] - b[0])
    if k == z3.Z3_OP_MUL and len(ch) == 2:
        a, b = term_range(ex, ch[0], depth + 1), term_range(ex, ch[1], depth + 1)
        if a is None or b is None:
            return None
        ps = [a[0] * b[0], a[0] * b[1], a[1] * b[0], a[1] * b[1]]
        return (min(ps), max(ps))
    if k == z3.Z3_OP_ITE:
        a, b = term_range(ex, ch[1], depth + 1), term_range(ex, ch[2], depth + 1)
        if a is None or b is None:
            return None
        return (min(a[0], b[0]), max(a[1], b[1]))
    return None


def read_byte(ex, seq_t, idx_t):
    """element of a byte string.  The read is *named*: a fresh constant b with
    b == nth(s, i) (definition) and 0 <= b <= 255 (Python's bytes invariant, a
    type invariant rather than a free assumption) so that later terms stay small."""
    from .engine import conc_bytes

    lit = conc_bytes(seq_t)
    ci = conc_int(idx_t)
    if lit is not None and ci is not None and 0 <= ci < len(lit):
        return lit[ci]
    if ex.quant:
        t = seq_t[idx_t]
        ex.add_def(z3.And(t >= 0, t <= 255))
        return Sym(t, 'int')
    key = (seq_t.get_id(), idx_t.get_id())
    cache = ex.byte_cache
    hit = cache.get(key)
    if hit is not None:
        return hit
    # a read at a position the simplifier can resolve (unit inside a concatenation) needs no name
    if ci is not None and z3.is_app(seq_t) and seq_t.decl().kind() in (z3.Z3_OP_SEQ_CONCAT, z3.Z3_OP_SEQ_UNIT):
        direct = _unit_at(seq_t, ci, ex)
        if direct is not None:
            r = mk_int(direct)
            if isinstance(r, Sym):
                if not is_known_byte(ex, r):
                    ex.add_def(z3.And(r.t >= 0, r.t <= 255))
                    mark_byte(ex, r.t)
            cache[key] = r
            ex.keep.append((seq_t, idx_t))
            return r
    b = z3.Int(ex.fresh_name('byte'))
    ex.add_def(b == seq_t[idx_t])
    ex.add_def(z3.And(b >= 0, b <= 255))
    mark_byte(ex, b)
    r = Sym(b, 'int')
    cache[key] = r
    ex.keep.append((seq_t, idx_t))
    return r


def _unit_at(t, i, ex=None):
    """element i of a concatenation whose first i+1 parts are unit sequences, else None"""
    cache = ex.__dict__.setdefault('flat_cache', {}) if ex is not None else None
    ent = cache.get(t.get_id()) if cache is not None else None
    if ent is None:
        # flattened leading run of unit parts (their element terms), computed once per sequence term
        elems = []
        stack = [t]
        while stack:
            x = stack.pop()
            if z3.is_app(x):
                k = x.decl().kind()
                if k == z3.Z3_OP_SEQ_CONCAT:
                    stack.extend(reversed(x.children()))
                    continue
                if k == z3.Z3_OP_SEQ_UNIT:
                    elems.append(x.arg(0))
                    continue
            break
        ent = elems
        if cache is not None:
            cache[t.get_id()] = ent
            ex.keep.append(t)
    if i >= len(ent):
        return None
    return ent[i]


def name_int(ex, v, hint='t'):
    """give a compound symbolic int its own name (keeps ite terms from being
    lifted through every later use)"""
    if not isinstance(v, Sym) or v.k != 'int' or ex.quant:
        return v
    if z3.is_const(v.t):
        return v
    c = z3.Int(ex.fresh_name(hint))
    ex.add_def(c == v.t)
    return Sym(c, 'int')


def norm_index(ex, i, n):
    """python index normalisation + bounds; returns z3 Int term or raises IndexError"""
    it = zint(i)
    nt = zint(n)
    ci = conc_int(it)
    if ci is not None:
        idx = it if ci >= 0 else nt + ci
        ok = (nt > ci) if ci >= 0 else (nt + ci >= 0)
    elif ex.quant or ex.proves(it >= 0):
        idx = it
        ok = z3.And(idx >= 0, idx < nt)
    else:
        idx = z3.If(it < 0, it + nt, it)
        ok = z3.And(idx >= 0, idx < nt)
    if not ex.spec_mode:
        if not ex.branch(mk_bool(ok)):
            ex.raise_(IndexError, 'index out of range')
    return z3.simplify(idx)


def slice_bounds(ex, sl, n):
    """(start, length) z3 terms with Python clamping; step must be None/1.
    Clamps that the path condition decides are resolved (keeps terms small)."""
    if sl.step not in (None, 1):
        raise Unsupported('slice step')
    nt = zint(n)

    def clamp(x, default):
        if x is None:
            return default
        x = plain(x)
        xt = zint(x)
        c = conc_int(xt)
        cn = conc_int(nt)
        if c is not None and cn is not None:
            v = c + cn if c < 0 else c
            return z3.IntVal(max(0, min(v, cn)))
        if not ex.quant:
            if c is None or c >= 0:
                if (c is not None or ex.proves(xt >= 0)) and ex.proves(xt <= nt):
                    return xt
                if c is None and ex.proves(xt >= nt):
                    return nt
            if c is not None and c < 0 and ex.proves(nt + c >= 0):
                return nt + c
        if c is not None and c >= 0:
            return zmin(xt, nt)
        if c is not None and c < 0:
            return zmax(nt + c, z3.IntVal(0))
        return z3.If(xt < 0, zmax(xt + nt, z3.IntVal(0)), zmin(xt, nt))

    lo = z3.simplify(clamp(sl.lo, z3.IntVal(0)))
    hi = z3.simplify(clamp(sl.hi, nt))
    d = z3.simplify(hi - lo)
    if conc_int(d) is not None:
        ln = z3.IntVal(max(conc_int(d), 0))
    elif not ex.quant and ex.proves(d >= 0):
        ln = d
    else:
        ln = z3.simplify(zmax(d, z3.IntVal(0)))
    return lo, ln


def slice_hints(ex, s, lo, ln):
    """valid facts of the theory of sequences (instances of the split lemma,
    proved generically by the `seq-split` lemma obligations) added as hints"""
    if ex.quant or conc_bytes_len(s) is not None:
        return
    if conc_int(lo) is not None and conc_int(ln) is not None:
        return
    n = z3.Length(s)
    guard = z3.And(lo >= 0, ln >= 0, lo + ln <= n)
    facts = []
    if conc_int(lo) != 0:
        facts.append(z3.Concat(z3.Extract(s, z3.IntVal(0), lo), z3.Extract(s, lo, ln)) == z3.Extract(s, z3.IntVal(0), z3.simplify(lo + ln)))
    rest = z3.simplify(n - lo - ln)
    if conc_int(rest) != 0:
        facts.append(z3.Concat(z3.Extract(s, lo, ln), z3.Extract(s, z3.simplify(lo + ln), rest)) == z3.Extract(s, lo, z3.simplify(n - lo)))
    for f in facts:
        ex.add_def(z3.Implies(guard, f))


def conc_bytes_len(s):
    from .engine import conc_bytes

    b = conc_bytes(s)
    return None if b is None else len(b)


# ---------------------------------------------------------------------------
# subscripts
# ---------------------------------------------------------------------------


def subscript(ex, o, i):
    o = plain(o) if not isinstance(o, (Sym, Ref)) else o
    if isinstance(o, Unknown) or isinstance(i, Unknown):
        return Unknown('subscript')
    if isinstance(o, Ref) and isinstance(ex.obj(o), ExtObj):
        return ex.obj(o).ext_subscript(ex, o, i)
    if isinstance(i, SliceV):
        return slice_of(ex, o, i)
    i = plain(i)
    if isinstance(o, Ref):
        ho = ex.obj(o)
        if isinstance(ho, BAObj):
            return subscript(ex, ho.val, i)
        if isinstance(ho, LObj):
            if ho.items is not None:
                if isinstance(i, int):
                    try:
                        return ex.wrap(ho.items[i], o)
                    except IndexError:
                        ex.raise_(IndexError, 'list index out of range')
                # symbolic index into a concrete spine: case split
                n = len(ho.items)
                idx = norm_index(ex, i, n)
                k = ex.decide([idx == j for j in range(n)], 'list index')
                return ex.wrap(ho.items[k], o)
            return ex.wrap(seq_get(ex, ho.sym, i), o)
        if isinstance(ho, DObj):
            return dict_getitem(ex, o, ho, i)
        if isinstance(ho, MObj):
            return map_getitem(ex, o, ho, i)
        if isinstance(ho, ExtObj):
            return ho.ext_subscript(ex, o, i)
        if isinstance(ho, Obj):
            return obj_special(ex, o, '__getitem__', [i])
    if isinstance(o, (bytes, bytearray)) and isinstance(i, int):
        try:
            return o[i]
        except IndexError:
            ex.raise_(IndexError, 'index out of range')
    if isinstance(o, (bytes, bytearray)):
        o = Sym(bytes_lit(bytes(o)), 'bytes')
    if isinstance(o, Sym) and o.k == 'bytes':
        idx = norm_index(ex, i, mk_int(z3.Length(o.t)))
        return read_byte(ex, o.t, idx)
    if is_seq_sym(o):
        return seq_get(ex, o, i)
    if isinstance(o, (tuple, list)) and len(o) > 8 and not isinstance(i, int) and all(isinstance(x, int) and not isinstance(x, bool) for x in o):
        return table_lookup(ex, o, i)
    if isinstance(o, (tuple, list, str, range)):
        if isinstance(i, int):
            try:
                return ex.import_native(o[i]) if not isinstance(o, tuple) else o[i]
            except IndexError:
                ex.raise_(IndexError, 'index out of range')
        n = len(o)
        idx = norm_index(ex, i, n)
        k = ex.decide([idx == j for j in range(n)], 'tuple index')
        return o[k]
    if isinstance(o, dict):
        return native_dict_get(ex, o, i, missing='raise')
    if ex.is_conc(o) and ex.is_conc(i):
        try:
            return ex.import_native(o[i])
        except Exception as e:
            raise PyExc(e)
    raise Unsupported(f'subscript {o!r}[{i!r}]')


_TABLES = {}


def table_lookup(ex, tbl, i):
    """constant table of ints indexed by a symbolic value: an uninterpreted function with one
    defining equation per entry (added once per path)"""
    key = id(tbl)
    ent = _TABLES.get(key)
    if ent is None:
        f = z3.Function(f'tbl{len(_TABLES)}', z3.IntSort(), z3.IntSort())
        ent = (f, tbl)
        _TABLES[key] = ent
    f, _ = ent
    idx = norm_index(ex, i, len(tbl))
    done = ex.__dict__.setdefault('tables_defined', set())
    if key not in done:
        done.add(key)
        ex.add_def(z3.And(*[f(z3.IntVal(j)) == int(v) for j, v in enumerate(tbl)]))
    return mk_int(f(idx))


def seq_get(ex, seq, i):
    n = mk_int(z3.Length(seq.t))
    idx = norm_index(ex, i, n)
    if seq.k == 'bytes':
        return read_byte(ex, seq.t, idx)
    t = seq.t
    if ex.quant and z3.is_app(t) and t.decl().kind() == z3.Z3_OP_SEQ_CONCAT and t.num_args() == 2:
        last = t.arg(1)
        if z3.is_app(last) and last.decl().kind() == z3.Z3_OP_SEQ_UNIT:
            # (init ++ [x])[i] inside a quantifier body (the shape list.append produces): written as the case
            # distinction i < len(init) ? init[i] : x, which the solvers instantiate directly (equal for every index
            # in range; the engine's reads are in range or guarded)
            it = idx if isinstance(idx, z3.ExprRef) else zint(idx)
            init = t.arg(0)
            return elem_to_value(ex, z3.If(it < z3.Length(init), init[it], last.arg(0)), seq.k[1])
    if isinstance(seq.k[1], tuple) and seq.k[1][0] == 'rec' and not ex.quant:
        # valid fact of the theory of sequences (hint for membership-quantified invariants, see forall_in)
        ex.add_def(z3.Implies(z3.And(idx >= 0, idx < z3.Length(seq.t)), z3.Contains(seq.t, z3.Unit(seq.t[idx]))))
    return elem_to_value(ex, nth_through(seq.t, idx), seq.k[1])


def nth_through(t, i, depth=0):
    """the element `t[i]` with the read pushed through the syntactic structure of t (concatenation, unit, extract):
    an equivalent term (valid in the theory of sequences; outside the bounds the original nth term is kept), in which
    quantified facts about the parts of t apply by plain instantiation -- the solvers do not derive
    nth(a ++ b, i) = ite(i < |a|, nth(a, i), nth(b, i - |a|)) under quantifiers by themselves"""
    if depth > 6 or not z3.is_app(t):
        return t[i]
    k = t.decl().kind()
    if k == z3.Z3_OP_SEQ_CONCAT:
        parts = t.children()
        out = t[i]
        # right to left: ite(i < |a1|, a1[i], ite(i < |a1|+|a2|, a2[i-|a1|], ...))
        offs = []
        acc = z3.IntVal(0)
        for c in parts:
            offs.append(acc)
            acc = z3.simplify(acc + z3.Length(c))
        res = out
        for c, off in reversed(list(zip(parts, offs))):
            j = z3.simplify(i - off)
            res = z3.If(z3.And(j >= 0, j < z3.Length(c)), nth_through(c, j, depth + 1), res)
        return res
    if k == z3.Z3_OP_SEQ_UNIT:
        return z3.If(i == 0, t.arg(0), t[i])
    if k == z3.Z3_OP_ITE:
        return z3.If(t.arg(0), nth_through(t.arg(1), i, depth + 1), nth_through(t.arg(2), i, depth + 1))
    if k == z3.Z3_OP_SEQ_EXTRACT:
        s, lo, ln = t.arg(0), t.arg(1), t.arg(2)
        j = z3.simplify(lo + i)
        return z3.If(z3.And(i >= 0, i < ln, lo >= 0, j < z3.Length(s)), nth_through(s, j, depth + 1), t[i])
    return t[i]


def reverse_bytes(ex, o):
    """o[::-1] for a byte string: element-wise for a concrete length, otherwise a fresh
    string defined by its length and its elements (definition, not an assumption)"""
    b = ex.as_bytes_value(o)
    if isinstance(b, bytes):
        return b[::-1]
    n = conc_int(z3.Length(b.t))
    if n is None and not ex.quant:
        for k in (2, 4, 16, 1, 6, 8):  # common fixed widths (UUIDs, addresses, integers) known from the path condition
            if ex.proves(z3.Length(b.t) == k):
                n = k
                break
    if n is not None and n <= 512:
        if n == 0:
            return b''
        units = [z3.Unit(zint(read_byte(ex, b.t, z3.IntVal(i)))) for i in reversed(range(n))]
        return mk_bytes(units[0] if n == 1 else z3.Concat(*units))
    r = ex.fresh_sym('bytes', 'rev')
    i = z3.Int(ex.fresh_name('ri'))
    ex.add_def(z3.Length(r.t) == z3.Length(b.t))
    ex.add_def(z3.ForAll([i], z3.Implies(z3.And(i >= 0, i < z3.Length(b.t)), r.t[i] == b.t[z3.Length(b.t) - 1 - i])))
    return r


def slice_of(ex, o, sl):
    if plain(sl.step) == -1 and sl.lo is None and sl.hi is None and is_byteslike(ex, o):
        r = reverse_bytes(ex, o)
        if isinstance(o, Ref):
            return ex.alloc(BAObj(r))
        return r
    if isinstance(o, Ref):
        ho = ex.obj(o)
        if isinstance(ho, BAObj):
            r = slice_of(ex, ho.val, sl)
            return ex.alloc(BAObj(r))
        if isinstance(ho, LObj):
            if ho.items is not None:
                lo, hi = plain(sl.lo), plain(sl.hi)
                if all(x is None or isinstance(x, int) for x in (lo, hi, sl.step)):
                    return ex.alloc(LObj([ex.wrap(x, o) for x in ho.items[lo:hi:sl.step]], flavor='list'))
                raise Unsupported('symbolic slice of concrete-spine list')
            lo, ln = slice_bounds(ex, sl, mk_int(z3.Length(ho.sym.t)))
            return ex.alloc(LObj(None, Sym(z3.simplify(z3.Extract(ho.sym.t, lo, ln)), ho.sym.k)))
    if isinstance(o, (bytes, bytearray, tuple, str)):
        lo, hi = plain(sl.lo), plain(sl.hi)
        if all(x is None or isinstance(x, int) for x in (lo, hi, sl.step)):
            return o[lo:hi:sl.step]
        if isinstance(o, (bytes, bytearray)):
            o = Sym(bytes_lit(bytes(o)), 'bytes')
        else:
            raise Unsupported('symbolic slice of tuple/str')
    if isinstance(o, Sym) and (o.k == 'bytes' or is_seq_sym(o)):
        lo, ln = slice_bounds(ex, sl, mk_int(z3.Length(o.t)))
        slice_hints(ex, o.t, lo, ln)
        t = z3.simplify(z3.Extract(o.t, lo, ln))
        return mk_bytes(t) if o.k == 'bytes' else Sym(t, o.k)
    raise Unsupported(f'slice of {o!r}')


def native_dict_get(ex, d, k, missing='raise', default=None):
    """lookup in a *constant* python dict (reflection) with possibly symbolic key"""
    k = plain(k)
    if ex.is_conc(k):
        try:
            if k in d:
                return ex.import_native(d[k])
        except TypeError:
            raise Unsupported('unhashable key')
        if missing == 'raise':
            ex.raise_(KeyError, k)
        return default
    if isinstance(k, Sym) and k.k == 'int':
        keys = [x for x in d.keys() if isinstance(x, int)]
        conds = [k.t == int(x) for x in keys] + [z3.And(*[k.t != int(x) for x in keys]) if keys else True]
        j = ex.decide(conds, 'dict key')
        if j < len(keys):
            return ex.import_native(d[keys[j]])
        if missing == 'raise':
            ex.raise_(KeyError, k)
        return default
    raise Unsupported(f'dict lookup with key {k!r}')


def dict_key_eq(ex, a, b):
    """python bool or z3 term: are two dict keys equal"""
    r = compare(ex, ast.Eq(), a, b)
    return r


def dict_find(ex, ho, k):
    """key of the concrete-spine dict equal to k (case split), or _MISSING"""
    k = plain(k)
    if ex.is_hashable_conc(k) and not isinstance(k, SymKey):
        # (a SymKey wraps a symbolic int: it is never decided by python hashing, except for the very same key)
        sym_keys = [x for x in ho.items if isinstance(x, SymKey) or not ex.is_hashable_conc(x)]
        if not sym_keys:
            return k if k in ho.items else _MISSING
    # symbolic key or symbolic keys present: case split over entries
    keys = list(ho.items.keys())
    conds = []
    for x in keys:
        c = dict_key_eq(ex, x, k)
        conds.append(zbool(c) if not isinstance(c, bool) else z3.BoolVal(c))
    none = z3.And(*[z3.Not(c) for c in conds]) if conds else z3.BoolVal(True)
    j = ex.decide(list(conds) + [none], "dict key")
    return keys[j] if j < len(keys) else _MISSING


class _Missing:
    def __repr__(self):
        return '<missing>'


_MISSING = _Missing()


class SymKey:
    """hashable wrapper so that a symbolic int can be a key of a DObj"""

    __slots__ = ('sym',)

    def __init__(self, sym):
        self.sym = sym

    def __hash__(self):
        return id(self.sym)

    def __eq__(self, other):
        return isinstance(other, SymKey) and other.sym is self.sym

    def __repr__(self):
        return f'SymKey({self.sym})'


def dict_getitem(ex, ref, ho, k):
    key = dict_find(ex, ho, wrap_key(k))
    if key is _MISSING:
        if ho.default_factory is not None:
            v = ex.call(ho.default_factory, [], {})
            ex.wobj(ref).items[wrap_key(k)] = v
            return v
        ex.raise_(KeyError, k)
    return ex.wrap(ho.items[key], ref)


def wrap_key(k):
    k = plain(k)
    if isinstance(k, Sym):
        return SymKey(k)
    return k


def unwrap_key(k):
    return k.sym if isinstance(k, SymKey) else k


def store_subscript(ex, o, i, v):
    if isinstance(o, Ref):
        ho = ex.wobj(o)
        if isinstance(ho, DObj):
            key = dict_find(ex, ho, wrap_key(i))
            ho.items[wrap_key(i) if key is _MISSING else key] = v
            return
        if isinstance(ho, MObj):
            return map_setitem(ex, o, ho, i, v)
        if isinstance(ho, LObj):
            i = plain(i)
            if ho.items is not None and isinstance(i, int):
                try:
                    ho.items[i] = v
                except IndexError:
                    ex.raise_(IndexError, 'list assignment index out of range')
                return
            if ho.sym is not None and not isinstance(i, SliceV):
                idx = norm_index(ex, i, mk_int(z3.Length(ho.sym.t)))
                s = ho.sym.t
                e = value_to_elem(ex, v, ho.sym.k[1] if ho.sym.k != 'bytes' else 'int')
                ho.sym = Sym(
                    z3.simplify(z3.Concat(z3.Extract(s, 0, idx), z3.Unit(e), z3.Extract(s, idx + 1, z3.Length(s) - idx - 1))),
                    ho.sym.k,
                )
                return
        if isinstance(ho, BAObj):
            cur = ho.val
            if isinstance(cur, bytes):
                cur = Sym(bytes_lit(cur), 'bytes')
            s = cur.t
            if isinstance(i, SliceV):
                lo, ln = slice_bounds(ex, i, mk_int(z3.Length(s)))
                nv = zbytes(ex.as_bytes_value(v))
                ho.val = mk_bytes(z3.Concat(z3.Extract(s, 0, lo), nv, z3.Extract(s, lo + ln, z3.Length(s) - lo - ln)))
                return
            idx = norm_index(ex, i, mk_int(z3.Length(s)))
            bv = plain(v)
            ok = compare(ex, ast.LtE(), 0, bv)
            ok2 = compare(ex, ast.LtE(), bv, 255)
            if not ex.branch(ex.bool_and([ok, ok2])):
                ex.raise_(ValueError, 'byte must be in range(0, 256)')
            ho.val = mk_bytes(z3.Concat(z3.Extract(s, 0, idx), z3.Unit(zint(bv)), z3.Extract(s, idx + 1, z3.Length(s) - idx - 1)))
            return
        if isinstance(ho, Obj):
            return obj_special(ex, o, '__setitem__', [i, v])
    raise Unsupported(f'store subscript on {o!r}')


def del_subscript(ex, o, i):
    if isinstance(o, Ref):
        ho = ex.wobj(o)
        if isinstance(ho, ExtObj):
            return ho.ext_delitem(ex, o, i)
        if isinstance(ho, DObj):
            key = dict_find(ex, ho, wrap_key(i))
            if key is _MISSING:
                ex.raise_(KeyError, i)
            del ho.items[key]
            return
        if isinstance(ho, MObj):
            return map_delitem(ex, o, ho, i)
        if isinstance(ho, BAObj) and isinstance(i, SliceV):
            cur = ho.val
            if isinstance(cur, bytes):
                cur = Sym(bytes_lit(cur), 'bytes')
            s = cur.t
            lo, ln = slice_bounds(ex, i, mk_int(z3.Length(s)))
            ho.val = mk_bytes(z3.Concat(z3.Extract(s, 0, lo), z3.Extract(s, lo + ln, z3.Length(s) - lo - ln)))
            return
        if isinstance(ho, LObj) and ho.items is not None and isinstance(plain(i), int):
            try:
                del ho.items[plain(i)]
            except IndexError:
                ex.raise_(IndexError, 'list index out of range')
            return
        if isinstance(ho, LObj) and ho.items is not None and isinstance(i, SliceV):
            lo, hi = plain(i.lo), plain(i.hi)
            if all(x is None or isinstance(x, int) for x in (lo, hi)):
                del ho.items[lo:hi]
                return
        if isinstance(ho, LObj) and ho.sym is not None and isinstance(i, SliceV) and i.step is None:
            # del lst[a:b] on a symbolic-length list (Python clamping of the bounds)
            s = ho.sym.t
            lo, ln = slice_bounds(ex, i, mk_int(z3.Length(s)))
            ho.sym = Sym(z3.simplify(z3.Concat(z3.Extract(s, 0, lo), z3.Extract(s, lo + ln, z3.Length(s) - lo - ln))), ho.sym.k)
            return
    raise Unsupported(f'del subscript on {o!r}')


# ---------------------------------------------------------------------------
# symbolic maps (struct of arrays)
# ---------------------------------------------------------------------------


def map_has(ex, ho, k):
    return mk_bool(z3.Select(ho.dom, zint(plain(k))))


def map_getitem(ex, ref, ho, k):
    k = plain(k)
    if not ex.spec_mode:
        if not ex.branch(map_has(ex, ho, k)):
            if ho.default_factory:
                map_insert_default(ex, ref, k)
            else:
                ex.raise_(KeyError, k)
    return ElemRef(ref, k if not isinstance(k, Sym) else k)


def map_insert_default(ex, ref, k):
    ho = ex.wobj(ref)
    kt = zint(k)
    ho.dom = z3.Store(ho.dom, kt, True)
    for name, (arr, kind, default) in list(ho.cols.items()):
        ho.cols[name] = (z3.Store(arr, kt, value_to_elem(ex, default, kind)), kind, default)


def map_setitem(ex, ref, ho, k, v):
    raise Unsupported('assignment of a whole record into a symbolic map')


def map_delitem(ex, ref, ho, k):
    if not ex.branch(map_has(ex, ho, k)):
        ex.raise_(KeyError, k)
    ho.dom = z3.Store(ho.dom, zint(plain(k)), False)


class EventView:
    """asyncio.Event stored in a record of a symbolic map: the flag lives in the map column"""

    def __init__(self, er, name):
        self.er = er
        self.name = name


def elem_get(ex, er, name, raw=False):
    ho = ex.obj(er.mref)
    if name not in ho.cols:
        raise Unsupported(f'record field {name} not modelled')
    arr, kind, default = ho.cols[name]
    if not raw and name in getattr(ho, 'event_cols', ()):
        return EventView(er, name)
    if not raw and (name + '?') in ho.cols:
        # optional field: the Bool column `name?` says that the field is None (a case split at the read)
        if ex.branch(mk_bool(z3.Select(ho.cols[name + '?'][0], zint(er.key)))):
            return None
    return elem_to_value(ex, z3.Select(arr, zint(er.key)), kind)


def elem_set(ex, er, name, v):
    ho = ex.wobj(er.mref)
    if name not in ho.cols:
        raise Unsupported(f'record field {name} not modelled')
    arr, kind, default = ho.cols[name]
    if (name + '?') in ho.cols:
        narr, nk, nd = ho.cols[name + '?']
        ho.cols[name + '?'] = (z3.Store(narr, zint(er.key), z3.BoolVal(v is None)), nk, nd)
        if v is None:
            return
    ho.cols[name] = (z3.Store(arr, zint(er.key), value_to_elem(ex, v, kind)), kind, default)


def elem_detach(ex, er):
    """copy of a record into a stand-alone Obj (after pop)"""
    ho = ex.obj(er.mref)
    fields = {name: elem_get(ex, er, name) for name in ho.cols}
    # an Event object is shared with whoever waits on it: it stays a view of the map column
    return ex.alloc(Obj(ho.elem_cls, fields, ho.elem_model))


# ---------------------------------------------------------------------------
# comparison
# ---------------------------------------------------------------------------


def compare(ex, op, a, b):
    a, b = plain(a), plain(b)
    for x in (a, b):
        if isinstance(x, Sym):
            from .values import ext_kind

            if ext_kind(x.k) is not None:
                return ext_kind(x.k).compare(ex, op, a, b)
    if isinstance(a, Unknown) or isinstance(b, Unknown):
        if isinstance(op, (ast.Is, ast.IsNot)) and (a is None or b is None):
            pass
        return Unknown('compare')
    if isinstance(op, ast.Is):
        return identical(ex, a, b)
    if isinstance(op, ast.IsNot):
        r = identical(ex, a, b)
        return (not r) if isinstance(r, bool) else mk_bool(z3.Not(zbool(r)))
    if isinstance(op, ast.In):
        return contains(ex, b, a)
    if isinstance(op, ast.NotIn):
        r = contains(ex, b, a)
        return (not r) if isinstance(r, bool) else mk_bool(z3.Not(zbool(r)))
    if isinstance(op, ast.Eq):
        return equal(ex, a, b)
    if isinstance(op, ast.NotEq):
        r = equal(ex, a, b)
        return (not r) if isinstance(r, bool) else mk_bool(z3.Not(zbool(r)))
    # ordering
    if is_intlike(ex, a) and is_intlike(ex, b):
        if ex.is_conc(a) and ex.is_conc(b):
            return {ast.Lt: a < b, ast.LtE: a <= b, ast.Gt: a > b, ast.GtE: a >= b}[type(op)]
        x, y = zint(a), zint(b)
        return mk_bool({ast.Lt: x < y, ast.LtE: x <= y, ast.Gt: x > y, ast.GtE: x >= y}[type(op)])
    if ex.is_conc(a) and ex.is_conc(b):
        try:
            return {ast.Lt: lambda: a < b, ast.LtE: lambda: a <= b, ast.Gt: lambda: a > b, ast.GtE: lambda: a >= b}[type(op)]()
        except TypeError as e:
            raise PyExc(e)
    raise Unsupported(f'ordering of {a!r} and {b!r}')


def identical(ex, a, b):
    if isinstance(a, Ref) and isinstance(b, Ref):
        return a.oid == b.oid
    if isinstance(a, Ref) or isinstance(b, Ref):
        return False
    if a is None or b is None:
        return a is b
    if isinstance(a, Sym) or isinstance(b, Sym):
        if isinstance(a, Sym) and isinstance(b, Sym) and a.k == b.k and isinstance(a.k, tuple) and a.k[0] == 'opq':
            return mk_bool(a.t == b.t)
        if isinstance(a, bool) or isinstance(b, bool):
            # `x is True`
            return equal(ex, a, b)
        raise Unsupported('identity of symbolic values')
    if isinstance(a, ElemRef) and isinstance(b, ElemRef):
        return equal(ex, a.key, b.key) if a.mref.oid == b.mref.oid else False  # (identity does not depend on the heap version viewed)
    return a is b


def equal(ex, a, b):
    a, b = plain(a), plain(b)
    if a is b and not isinstance(a, float):
        return True
    if isinstance(a, SymKey):
        a = a.sym
    if isinstance(b, SymKey):
        b = b.sym
    # a native python list (e.g. the value of `list[tuple[int, bytes]]()`): compared as a list with a concrete spine
    if type(a) is list:
        a = ex.alloc(LObj(list(a)))
    if type(b) is list:
        b = ex.alloc(LObj(list(b)))
    ka, kb = ex.kind_of(a), ex.kind_of(b)
    if ka in ('int', 'bool') and kb in ('int', 'bool'):
        if ex.is_conc(a) and ex.is_conc(b):
            return a == b
        if ka == 'bool' and kb == 'bool':
            return mk_bool(zbool(a) == zbool(b))
        return mk_bool(zint(a) == zint(b))
    if ka in ('bytes', 'bytearray') and kb in ('bytes', 'bytearray'):
        x, y = ex.as_bytes_value(a), ex.as_bytes_value(b)
        if isinstance(x, bytes) and isinstance(y, bytes):
            return x == y
        return mk_bool(zbytes(x) == zbytes(y))
    if ka == 'none' or kb == 'none':
        return ka == kb
    if ka == 'tuple' and kb == 'tuple':
        if len(a) != len(b):
            return False
        return ex.bool_and([equal(ex, x, y) for x, y in zip(a, b)])
    if isinstance(a, Sym) and isinstance(b, Sym) and a.k == b.k:
        return mk_bool(a.t == b.t)
    if ka == 'list' and kb == 'list':
        oa, ob = ex.obj(a), ex.obj(b)
        if oa.items is not None and ob.items is not None:
            if len(oa.items) != len(ob.items):
                return False
            return ex.bool_and([equal(ex, ex.wrap(x, a), ex.wrap(y, b)) for x, y in zip(oa.items, ob.items)])
        if oa.sym is not None and ob.sym is not None and oa.sym.k == ob.sym.k:
            return mk_bool(oa.sym.t == ob.sym.t)
        sa, sb = list_as_sym(ex, a), list_as_sym(ex, b)
        # an empty concrete list has no element kind of its own: it takes the kind of the other side
        if sa is None and sb is not None and not oa.items:
            sa = list_as_sym(ex, a, sb.k[1])
        if sb is None and sa is not None and not ob.items:
            sb = list_as_sym(ex, b, sa.k[1])
        if sa is not None and sb is not None and sa.k == sb.k:
            return mk_bool(sa.t == sb.t)
        raise Unsupported('list equality with mixed spines')
    if ka == 'list' and is_seq_sym(b) or kb == 'list' and is_seq_sym(a):
        if ka == 'list':
            a, b = b, a
        sb = list_as_sym(ex, b, a.k[1])
        return mk_bool(a.t == sb.t)
    if isinstance(a, Ref) and isinstance(ex.obj(a), ExtObj):
        return ex.obj(a).ext_equal(ex, a, b)
    if isinstance(b, Ref) and isinstance(ex.obj(b), ExtObj):
        return ex.obj(b).ext_equal(ex, b, a)
    if ka == 'obj' and kb == 'obj':
        if a.oid == b.oid and a.old == b.old:
            return True
        return obj_eq(ex, a, b)
    if ka == 'obj' or kb == 'obj':
        o = a if ka == 'obj' else b
        other = b if ka == 'obj' else a
        return obj_eq(ex, o, other)
    if isinstance(a, ElemRef) or isinstance(b, ElemRef):
        return elem_eq(ex, a, b)
    if isinstance(a, OpaqueStr) or isinstance(b, OpaqueStr):
        raise Unsupported('comparison of an opaque string')
    if ka != kb and {ka, kb} <= {'int', 'bool', 'bytes', 'bytearray', 'str', 'none', 'tuple', 'list', 'dict'}:
        return False
    if ex.is_conc(a) and ex.is_conc(b):
        try:
            return bool(a == b)
        except Exception as e:
            raise PyExc(e)
    if ex.is_conc(a) != ex.is_conc(b):
        # native object (class, enum member, str) vs symbolic scalar
        c, s = (a, b) if ex.is_conc(a) else (b, a)
        if isinstance(s, Sym) and s.k in ('int', 'bool', 'bytes') and not isinstance(c, (int, bytes)):
            return False
    raise Unsupported(f'equality of {a!r} and {b!r}')


def elem_eq(ex, a, b):
    """== where an operand is a record of a symbolic map: the class's __eq__ (inline) or identity"""
    if not isinstance(a, ElemRef):
        a, b = b, a
    cls = ex.obj(a.mref).elem_cls
    eqf = getattr(cls, '__eq__', None)
    if eqf is object.__eq__ or eqf is None:
        return identical(ex, a, b) if isinstance(b, ElemRef) else False
    if isinstance(eqf, types.FunctionType):
        r = ex.call(ex.func_of_native(eqf), [a, b], {})
        if r is NotImplemented:
            return False
        return ex.truth(r)
    raise Unsupported(f'__eq__ of {cls}')


def list_as_sym(ex, ref, kind=None):
    o = ex.obj(ref)
    if o.sym is not None:
        return o.sym
    if kind is None:
        if not o.items:
            return None
        kind = guess_kind(ex, o.items[0])
    sort = sort_of(kind)
    if not o.items:
        return Sym(z3.Empty(z3.SeqSort(sort)), ('seq', kind))
    units = [z3.Unit(value_to_elem(ex, ex.wrap(x, ref), kind)) for x in o.items]
    return Sym(units[0] if len(units) == 1 else z3.Concat(*units), ('seq', kind))


def obj_eq(ex, a, b):
    """== on instances: dataclass(eq=True) field-wise, user __eq__ inline, else identity"""
    oa = ex.obj(a) if isinstance(a, Ref) else None
    cls = oa.cls
    eqf = getattr(cls, '__eq__', None)
    if eqf is object.__eq__ or eqf is None:
        return isinstance(b, Ref) and a.oid == b.oid
    if dataclasses.is_dataclass(cls) and isinstance(eqf, types.FunctionType) and eqf.__code__.co_filename == '<string>':
        if not isinstance(b, Ref) or ex.obj(b).cls is not cls:
            return False
        ob = ex.obj(b)
        names = [f.name for f in dataclasses.fields(cls) if f.compare]
        return ex.bool_and([equal(ex, ex.wrap(oa.fields[n], a), ex.wrap(ob.fields[n], b)) for n in names])
    if isinstance(eqf, types.FunctionType):
        r = ex.call(ex.func_of_native(eqf), [a, b], {})
        if r is NotImplemented:
            return False
        return ex.truth(r)
    raise Unsupported(f'__eq__ of {cls}')


def contains(ex, container, x):
    x = plain(x)
    if isinstance(container, Ref):
        ho = ex.obj(container)
        if isinstance(ho, DObj):
            return dict_find(ex, ho, wrap_key(x)) is not _MISSING
        if isinstance(ho, MObj):
            return map_has(ex, ho, x)
        if isinstance(ho, LObj) and ho.items is not None:
            return ex.bool_or([equal(ex, ex.wrap(y, container), x) for y in ho.items])
        if isinstance(ho, LObj):
            return mk_bool(z3.Contains(ho.sym.t, z3.Unit(value_to_elem(ex, x, ho.sym.k[1]))))
        if isinstance(ho, BAObj):
            return contains(ex, ho.val, x)
        if isinstance(ho, Obj):
            return ex.truth(obj_special(ex, container, '__contains__', [x]))
    if isinstance(container, (tuple, list, frozenset, set)):
        if ex.is_conc(x) and all(ex.is_conc(y) for y in container):
            try:
                return x in container
            except TypeError:
                pass
        return ex.bool_or([equal(ex, plain(y), x) for y in container])
    if isinstance(container, range):
        if ex.is_conc(x):
            return x in container
        xt = zint(x)
        if container.step == 1:
            return mk_bool(z3.And(xt >= container.start, xt < container.stop))
        return ex.bool_or([equal(ex, y, x) for y in container])
    if isinstance(container, SymRange):
        if container.step == 1:
            return mk_bool(z3.And(zint(x) >= zint(container.start), zint(x) < zint(container.stop)))
    if isinstance(container, dict):
        if ex.is_conc(x):
            try:
                return x in container
            except TypeError:
                return False
        return ex.bool_or([equal(ex, plain(y), x) for y in container.keys() if isinstance(y, int)])
    if isinstance(container, (bytes, Sym)) and ex.kind_of(container) == 'bytes':
        if is_intlike(ex, x):
            if isinstance(container, bytes) and ex.is_conc(x):
                return x in container
            return mk_bool(z3.Contains(zbytes(container), z3.Unit(zint(x))))
        if is_byteslike(ex, x):
            return mk_bool(z3.Contains(zbytes(container), zbytes(ex.as_bytes_value(x))))
    if isinstance(container, (str,)) and isinstance(x, str):
        return x in container
    if isinstance(container, enum.EnumMeta) and ex.is_conc(x):
        try:
            return x in container
        except TypeError:
            return False
    if is_seq_sym(container):
        return mk_bool(z3.Contains(container.t, z3.Unit(value_to_elem(ex, x, container.k[1]))))
    raise Unsupported(f'{x!r} in {container!r}')


# ---------------------------------------------------------------------------
# arithmetic
# ---------------------------------------------------------------------------


def binop(ex, op, a, b):
    a, b = plain(a), plain(b)
    if isinstance(a, Unknown) or isinstance(b, Unknown):
        return Unknown('binop')
    if ex.is_conc(a) and ex.is_conc(b):
        try:
            return _conc_binop(op, a, b)
        except (ZeroDivisionError, TypeError, ValueError, OverflowError) as e:
            raise PyExc(e)
    if isinstance(a, (OpaqueStr, str)) and isinstance(b, (OpaqueStr, str)) or isinstance(a, OpaqueStr) or isinstance(b, OpaqueStr):
        return OpaqueStr()
    if is_intlike(ex, a) and is_intlike(ex, b):
        return int_binop(ex, op, a, b)
    if isinstance(a, Ref) and isinstance(ex.obj(a), ExtObj):
        return ex.obj(a).ext_binop(ex, a, op, b, False)
    if isinstance(b, Ref) and isinstance(ex.obj(b), ExtObj):
        return ex.obj(b).ext_binop(ex, b, op, a, True)
    if isinstance(op, ast.Add):
        if is_byteslike(ex, a) and is_byteslike(ex, b):
            x, y = ex.as_bytes_value(a), ex.as_bytes_value(b)
            r = mk_bytes(z3.Concat(zbytes(x), zbytes(y)))
            if isinstance(a, Ref):  # bytearray + x -> new bytearray
                return ex.alloc(BAObj(r))
            return r
        if isinstance(a, tuple) and isinstance(b, tuple):
            return a + b
        if ex.kind_of(a) == 'list' and ex.kind_of(b) == 'list':
            oa, ob = ex.obj(a), ex.obj(b)
            if oa.items is not None and ob.items is not None:
                return ex.alloc(LObj([ex.wrap(x, a) for x in oa.items] + [ex.wrap(x, b) for x in ob.items]))
            sa = list_as_sym(ex, a, ob.sym.k[1] if ob.sym is not None else None)
            sb = list_as_sym(ex, b, sa.k[1])
            return ex.alloc(LObj(None, Sym(z3.simplify(z3.Concat(sa.t, sb.t)), sa.k)))
        if is_seq_sym(a) and is_seq_sym(b) and a.k == b.k:
            return Sym(z3.simplify(z3.Concat(a.t, b.t)), a.k)
        if is_seq_sym(a) and ex.kind_of(b) == 'list':
            sb = list_as_sym(ex, b, a.k[1])
            return Sym(z3.simplify(z3.Concat(a.t, sb.t)), a.k)
        if is_seq_sym(b) and ex.kind_of(a) == 'list':
            sa = list_as_sym(ex, a, b.k[1])
            return Sym(z3.simplify(z3.Concat(sa.t, b.t)), b.k)
    if isinstance(op, ast.Mult):
        if is_byteslike(ex, a) and isinstance(b, int):
            x = ex.as_bytes_value(a)
            if b <= 0:
                return b''
            return mk_bytes(z3.Concat(*[zbytes(x)] * b)) if b > 1 else x
        if is_byteslike(ex, b) and isinstance(a, int):
            return binop(ex, op, b, a)
        if isinstance(a, bytes) and isinstance(b, Sym):
            return bytes_repeat(ex, a, b)
        if isinstance(b, bytes) and isinstance(a, Sym):
            return bytes_repeat(ex, b, a)
    if isinstance(op, ast.Mod) and isinstance(a, (str, OpaqueStr)):
        return OpaqueStr()
    if isinstance(a, Ref) and isinstance(ex.obj(a), Obj):
        name = _DUNDER.get(type(op))
        if name:
            return obj_special(ex, a, name, [b])
    raise Unsupported(f'binop {type(op).__name__} on {a!r}, {b!r}')


_REPEAT_FUNCS = {}


def bytes_repeat(ex, pat, n):
    """pat * n for symbolic n: a fresh string constrained by length and (for a
    single repeated byte) by content"""
    if len(pat) != 1:
        raise Unsupported('repeat of multi-byte pattern a symbolic number of times')
    # the string is a *function* of the count (so that equal counts give equal strings by congruence), defined by its
    # length and its elements: a conservative definition, instantiated for this count
    nt = z3.simplify(zint(n))
    f = _REPEAT_FUNCS.get(pat[0])
    if f is None:
        f = _REPEAT_FUNCS[pat[0]] = z3.Function(f'repeat_{pat[0]}', z3.IntSort(), IntSeq)
    r = Sym(f(nt), 'bytes')
    i = z3.Int(ex.fresh_name('ri'))
    ex.add_def(z3.Length(r.t) == zmax(nt, z3.IntVal(0)))
    ex.add_def(z3.ForAll([i], z3.Implies(z3.And(i >= 0, i < z3.Length(r.t)), r.t[i] == pat[0])))
    return r


_DUNDER = {ast.Add: '__add__', ast.Sub: '__sub__', ast.BitOr: '__or__', ast.BitAnd: '__and__', ast.Mult: '__mul__'}


def _conc_binop(op, a, b):
    t = type(op)
    if t is ast.Add:
        return a + b
    if t is ast.Sub:
        return a - b
    if t is ast.Mult:
        return a * b
    if t is ast.FloorDiv:
        return a // b
    if t is ast.Mod:
        return a % b
    if t is ast.Div:
        return a / b
    if t is ast.Pow:
        return a**b
    if t is ast.LShift:
        return a << b
    if t is ast.RShift:
        return a >> b
    if t is ast.BitAnd:
        return a & b
    if t is ast.BitOr:
        return a | b
    if t is ast.BitXor:
        return a ^ b
    raise Unsupported(f'operator {t.__name__}')


# ---------------------------------------------------------------------------
# bit-field view of integers assembled from bytes (exact; keeps big-integer packing code
# such as `(int.from_bytes(b, 'big') << 1 ^ c).to_bytes(17, 'big')` within linear arithmetic over
# single bytes): an int carries a list of disjoint fields (term, bit offset, width) with
# 0 <= term < 2**width and value == sum(term << offset); shifts, masks with constants and
# to_bytes act field-wise.  The ordinary arithmetic term of the value is always kept as well.
# ---------------------------------------------------------------------------


def bf_get(ex, v):
    if isinstance(v, Sym) and v.k == 'int':
        return ex.__dict__.get('bitfields', {}).get(v.t.get_id())
    return None


def bf_set(ex, v, fields):
    if isinstance(v, Sym) and v.k == 'int' and fields is not None and len(fields) <= 4096:
        ex.__dict__.setdefault('bitfields', {})[v.t.get_id()] = fields
        ex.keep.append(v.t)
    return v


def bf_shift(fields, k):
    """fields of value * 2**k (k >= 0) or value // 2**(-k) (k < 0)"""
    if k >= 0:
        return [(t, off + k, w) for (t, off, w) in fields]
    k = -k
    out = []
    for t, off, w in fields:
        if off + w <= k:
            continue
        if off >= k:
            out.append((t, off - k, w))
        else:
            out.append((z3.simplify(t / (1 << (k - off))), 0, off + w - k))
    return out


def bf_trunc(fields, n):
    """fields of value % 2**n"""
    out = []
    for t, off, w in fields:
        if off >= n:
            continue
        if off + w <= n:
            out.append((t, off, w))
        else:
            out.append((z3.simplify(t % (1 << (n - off))), off, n - off))
    return out


def bf_const_op(fields, op, c):
    """fields of value <op> c for a constant c >= 0 and op in & | ^"""
    top = max([off + w for (_, off, w) in fields] + [c.bit_length(), 1])
    full = []
    pos = 0
    for t, off, w in sorted(fields, key=lambda f: f[1]):
        if off > pos:
            full.append((z3.IntVal(0), pos, off - pos))
        full.append((t, off, w))
        pos = off + w
    if pos < top:
        full.append((z3.IntVal(0), pos, top - pos))
    out = []
    for t, off, w in full:
        cf = (c >> off) & ((1 << w) - 1)
        andt = mask_and(t, cf)
        if op is ast.BitAnd:
            nt = andt
        elif op is ast.BitOr:
            nt = t + cf - andt
        else:
            nt = t + cf - 2 * andt
        nt = z3.simplify(nt)
        if z3.is_int_value(nt) and nt.as_long() == 0:
            continue
        out.append((nt, off, w))
    return out


def bf_byte(fields, j):
    """z3 term of byte j (bits 8j..8j+7) of the value"""
    lo_b, hi_b = 8 * j, 8 * j + 8
    parts = []
    for t, off, w in fields:
        lo, hi = max(off, lo_b), min(off + w, hi_b)
        if lo >= hi:
            continue
        piece = t
        if lo > off:
            piece = piece / (1 << (lo - off))
        if hi < off + w:
            piece = piece % (1 << (hi - lo))
        if lo > lo_b:
            piece = piece * (1 << (lo - lo_b))
        parts.append(piece)
    if not parts:
        return z3.IntVal(0)
    return z3.simplify(parts[0] if len(parts) == 1 else z3.Sum(*parts))


def _pow2(c):
    return c is not None and c > 0 and (c & (c - 1)) == 0


def int_binop(ex, op, a, b):
    r = _int_binop(ex, op, a, b)
    if type(op) in (ast.BitAnd, ast.BitOr, ast.BitXor) and isinstance(r, Sym) and not ex.quant and is_known_byte(ex, a) and is_known_byte(ex, b):
        mark_byte(ex, r.t)  # bit operations of two bytes stay within a byte
    try:
        t = type(op)
        fa = bf_get(ex, a)
        cb = b if isinstance(b, int) and not isinstance(b, bool) else None
        if fa is None and t in (ast.Mult, ast.BitAnd, ast.BitOr, ast.BitXor) and bf_get(ex, b) is not None and isinstance(a, int) and not isinstance(a, bool):
            fa, cb = bf_get(ex, b), a
        if fa is not None and cb is not None and isinstance(r, Sym):
            nf = None
            if t is ast.LShift and cb >= 0:
                nf = bf_shift(fa, cb)
            elif t is ast.Mult and _pow2(cb):
                nf = bf_shift(fa, cb.bit_length() - 1)
            elif t is ast.RShift and cb >= 0:
                nf = bf_shift(fa, -cb)
            elif t is ast.FloorDiv and _pow2(cb):
                nf = bf_shift(fa, -(cb.bit_length() - 1))
            elif t is ast.Mod and _pow2(cb):
                nf = bf_trunc(fa, cb.bit_length() - 1)
            elif t in (ast.BitAnd, ast.BitOr, ast.BitXor) and cb >= 0:
                nf = bf_const_op(fa, t, cb)
            if nf is not None:
                bf_set(ex, r, nf)
    except Unsupported:
        pass
    return r


def _int_binop(ex, op, a, b):
    x, y = zint(a), zint(b)
    t = type(op)
    cb = b if isinstance(b, int) else None
    ca = a if isinstance(a, int) else None
    if t is ast.Add:
        return mk_int(x + y)
    if t is ast.Sub:
        return mk_int(x - y)
    if t is ast.Mult:
        return mk_int(x * y)
    if t in (ast.FloorDiv, ast.Mod):
        if cb is not None:
            if cb == 0:
                ex.raise_(ZeroDivisionError)
            if cb > 0:
                return mk_int(x / y) if t is ast.FloorDiv else mk_int(x % y)
            q = (-x) / (-y)
            return mk_int(q) if t is ast.FloorDiv else mk_int(x - y * q)
        if not ex.branch(mk_bool(y != 0)):
            ex.raise_(ZeroDivisionError)
        q = z3.If(y > 0, x / y, (-x) / (-y))
        return mk_int(q) if t is ast.FloorDiv else mk_int(x - y * q)
    if t is ast.LShift:
        if cb is None:
            raise Unsupported('shift by symbolic amount')
        if cb < 0:
            ex.raise_(ValueError, 'negative shift count')
        r = mk_int(x * (1 << cb))
        if isinstance(r, Sym):
            ex.__dict__.setdefault('shift_info', {})[r.t.get_id()] = cb
            ex.keep.append(r.t)
        return r
    if t is ast.RShift:
        if cb is None:
            # symbolic amount: exact for 0 <= amount < 64 (case distinction over divisions by constants)
            if not ex.branch(mk_bool(y >= 0)):
                ex.raise_(ValueError, 'negative shift count')
            if not ex.branch(mk_bool(y < 64)):
                raise Unsupported('right shift by a symbolic amount that may be >= 64')
            r = x / (1 << 63)
            for k in range(62, -1, -1):
                r = z3.If(y == k, x / (1 << k), r)
            return mk_int(r)
        if cb < 0:
            ex.raise_(ValueError, 'negative shift count')
        return mk_int(x / (1 << cb))
    if t is ast.BitAnd:
        if ca is not None and cb is None:
            x, y, ca, cb, a, b = y, x, cb, ca, b, a
        if cb is not None and cb >= 0:
            return mk_int(mask_and(x, cb))
        return bv_op(ex, t, a, b)
    if t in (ast.BitOr, ast.BitXor):
        # one constant operand c >= 0: x | c == x + c - (x & c),  x ^ c == x + c - 2*(x & c)
        # (identities of two's-complement integers; x & c is exact arithmetic, see mask_and)
        if ca is not None and cb is None:
            x, y, ca, cb = y, x, cb, ca
        if cb is not None and cb >= 0:
            andt = mask_and(x, cb)
            if t is ast.BitOr:
                return mk_int(x + cb - andt)
            return mk_int(x + cb - 2 * andt)
        return bv_op(ex, t, a, b)
    if t is ast.Pow:
        if ca == 2 and False:
            pass
        raise Unsupported('** with symbolic operand')
    if t is ast.Div:
        raise Unsupported('true division')
    raise Unsupported(f'operator {t.__name__}')


def mask_and(x, m):
    """x & m for a non-negative constant m, exact for every integer x:
    sum over maximal runs of one-bits [lo,hi) of ((x div 2^lo) mod 2^(hi-lo)) * 2^lo"""
    if m == 0:
        return z3.IntVal(0)
    terms = []
    bit = 0
    while (m >> bit) != 0:
        if (m >> bit) & 1:
            lo = bit
            while (m >> bit) & 1:
                bit += 1
            hi = bit
            part = x if lo == 0 else x / (1 << lo)
            part = part % (1 << (hi - lo))
            terms.append(part if lo == 0 else part * (1 << lo))
        else:
            bit += 1
    return terms[0] if len(terms) == 1 else z3.Sum(*terms)


def bv_op(ex, t, a, b):
    """| ^ & on two non-negative ints: find a width both operands provably fit
    (a `range` side obligation decided inline), then go through bit-vectors.
    Disjoint-bits special case of | is turned into +."""
    x, y = zint(a), zint(b)
    if not ex.quant and is_known_byte(ex, a) and is_known_byte(ex, b):
        # two bytes: 8-bit vectors, the result is again a byte and gets its own name
        bx, by = z3.Int2BV(x, 8), z3.Int2BV(y, 8)
        r = {ast.BitOr: bx | by, ast.BitXor: bx ^ by, ast.BitAnd: bx & by}[t]
        c = z3.Int(ex.fresh_name('bop'))
        ex.add_def(c == z3.BV2Int(r, False))
        ex.add_def(z3.And(c >= 0, c <= 255))
        mark_byte(ex, c)
        return Sym(c, 'int')
    # special case: (p * 2^k) | q  with 0 <= q < 2^k  ==  p*2^k + q.  Candidate k's come first
    # from the shifts that built the operands (tracked syntactically), then from a fixed list.
    if t is ast.BitOr:
        hints = ex.__dict__.setdefault('shift_info', {})
        for (u, v) in ((x, y), (y, x)):
            ks = []
            ku = hints.get(u.get_id())
            if ku is not None:
                ks.append(ku)
            cv = conc_int(v)
            if cv is not None and cv >= 0:
                kb = max(cv.bit_length(), 1)
                if kb not in ks:
                    ks.append(kb)
            # a power of two that syntactically divides u (e.g. 16384 + 4096*p): u's low bits are zero
            fu = term_factor(u, 0)
            if fu > 1:
                kf = (fu & -fu).bit_length() - 1
                if kf > 0 and kf not in ks:
                    ks.append(kf)
            for k in ks:
                if ex.proves(z3.And(u % (1 << k) == 0, v >= 0, v < (1 << k))):
                    r = mk_int(u + v)
                    if isinstance(r, Sym):
                        kv = hints.get(v.get_id())
                        low = min(k, kv) if kv is not None else (0 if cv is None or cv % 2 else (cv & -cv).bit_length() - 1)
                        if cv == 0:
                            low = k
                        hints[r.t.get_id()] = low
                        ex.keep.append(r.t)
                    return r
    # an operand with at most four possible values (a flag shifted into place) is case split,
    # which leaves a constant operand and exact integer arithmetic
    if not ex.quant:
        hints = ex.__dict__.setdefault('shift_info', {})
        for (u, v, ua, va) in ((x, y, a, b), (y, x, b, a)):
            k = hints.get(u.get_id(), 0)
            unit = 1 << k
            if ex.proves(z3.And(u >= 0, u <= 3 * unit, u % unit == 0)):
                j = ex.decide([u == m * unit for m in range(4)], 'small operand of bit operation')
                return int_binop(ex, t(), j * unit, va)
    for w in (8, 16, 32, 64):
        lim = 1 << w
        if ex.proves(z3.And(x >= 0, x < lim, y >= 0, y < lim)):
            bx, by = z3.Int2BV(x, w), z3.Int2BV(y, w)
            r = {ast.BitOr: bx | by, ast.BitXor: bx ^ by, ast.BitAnd: bx & by}[t]
            return mk_int(z3.BV2Int(r, False))
    raise Unsupported('bit operation on operands not provably within 64 bits / non-negative')


from .models_calls import *  # noqa: E402,F401,F403
