"""C08 — classic L2CAP channels (Basic / Enhanced Retransmission mode) deliver every SDU once, intact, in order.

Part 1: the mode processors (bumble.l2cap.Processor, EnhancedRetransmissionProcessor)."""
import asyncio

from bumble import l2cap
from pyvc.contracts import (Any, Bool, Bytes, Callback, Inst, Int, IntRange, ListOf, OneOf, Opt, contract, forall, iff,
                            implies, ite, lemma, model, at)
from pyvc.ext_c08 import RecListOf, col, split_fact, subseq
from spec.ertm import (CONT, END, RR, RNR, START, UNSEG, le16, f_final, f_poll, f_req_seq, f_sar, f_sfunc, f_tx_seq, iframe,
                       iframe_data, is_iframe, is_sframe, segmentation, sframe_ctrl)

ENVIRONMENT = [
    'the channel below a mode processor (ClassicChannel.send_pdu / on_sdu) is a recording stub in the processor '
    'contracts: send_pdu records the frame bytes and does not raise (the channel is OPEN), on_sdu records the SDU; the '
    'real ClassicChannel / ChannelManager / L2CAP_PDU path is covered by its own contracts in c08_channel.py',
    'the sink called from on_sdu does not re-enter the processor (A2); bumble applications that answer from inside the '
    'sink do re-enter send_sdu: that interleaving is not covered',
    'asyncio timers (loop.call_later / TimerHandle.cancel) are recording stubs: that a timer fires after its delay, once, '
    'unless cancelled, is environment; each timer callback (_monitor, _receiver_ready_poll) is verified as an entry point '
    'that may run in any state satisfying the representation invariant',
    'frames arrive in the order sent and unmodified (C05 proves this for the ACL link below; LocalLink/call_soon ordering is A1)',
    'loss recovery (REJ/SREJ, retransmission of I-frames) is not implemented in bumble ("TODO: Handle retransmission"); '
    'the property is stated for a lossless, order-preserving link',
]

SAR = l2cap.InformationEnhancedControlField.SegmentationAndReassembly

# ---------------------------------------------------------------------------
# models
# ---------------------------------------------------------------------------
PDU_M = 'bumble.l2cap:EnhancedRetransmissionProcessor._PendingPdu'
# IntRange fields of a record stored in a list are *checked* refinement types (pyvc/ext_c08.py): proved at every
# append / field write, known at every read
model(PDU_M, fields=dict(payload=Bytes, tx_seq=IntRange(0, 63), sar=IntRange(0, 3), sdu_length=IntRange(0, 0xFFFF), req_seq=Int))


def chan_send(ghost, pdu):
    """recording stub for ClassicChannel.send_pdu: the bytes of every frame handed to the channel, in order
    (ghost.sent); for I-frames additionally the fields the specification reads from the frame, one list per field
    (w_*), and: sequence numbers on the wire advance by one modulo 64 without gaps"""
    b = bytes(pdu)
    ghost.sent = ghost.sent + [b]
    if is_iframe(b):
        assert f_tx_seq(b) == ghost.iseq
        ghost.iseq = (ghost.iseq + 1) % 64
        ghost.w_tx = ghost.w_tx + [f_tx_seq(b)]
        ghost.w_req = ghost.w_req + [f_req_seq(b)]
        ghost.w_sar = ghost.w_sar + [f_sar(b)]
        ghost.w_fin = ghost.w_fin + [f_final(b)]
        ghost.w_len = ghost.w_len + [ite(f_sar(b) == START, le16(b, 2), 0)]
        ghost.w_pay = ghost.w_pay + [iframe_data(b)]


def chan_on_sdu(ghost, sdu):
    """recording stub for ClassicChannel.on_sdu: the SDUs delivered upwards, in order"""
    ghost.delivered = ghost.delivered + [sdu]


def timer_cancel(ghost):
    ghost.cancels = ghost.cancels + 1


model('ghost:Timer', fields={}, methods={'cancel': Callback('cancel', effect=timer_cancel)})
TIMER = Inst('ghost:Timer')


def loop_call_later(ghost, delay, callback):
    ghost.armed = ghost.armed + 1
    return ghost.timer


model('ghost:Loop', fields={}, methods={'call_later': Callback('call_later', effect=loop_call_later)})


def get_loop(ghost):
    return ghost.loop


STUBS = {asyncio.get_running_loop: Callback('get_running_loop', effect=get_loop)}

model('ghost:Spec', fields=dict(mps=Int, monitor_timeout=Any, retransmission_timeout=Any))
model(
    'ghost:Chan',
    fields=dict(spec=Inst('ghost:Spec')),
    methods={'send_pdu': Callback('send_pdu', effect=chan_send), 'on_sdu': Callback('on_sdu', effect=chan_on_sdu)},
)
CHAN = Inst('ghost:Chan')

ERTM_M = 'bumble.l2cap:EnhancedRetransmissionProcessor'
model(
    ERTM_M,
    fields=dict(
        channel=CHAN,
        mps=Int,
        peer_mps=Int,
        peer_tx_window_size=Int,
        peer_max_retransmission=Int,
        monitor_timeout=Any,
        retransmission_timeout=Any,
        _pending_pdus=RecListOf(PDU_M),
        _tx_window=RecListOf(PDU_M),
        _last_acked_tx_seq=Int,
        _last_acked_rx_seq=Int,
        _next_tx_seq=Int,
        _req_seq_num=Int,
        _remote_is_busy=Bool,
        _in_sdu=Bytes,
        _num_receiver_ready_polls_sent=Int,
        # (OneOf rather than Opt: the alternative is chosen when the field is first read, not when the state is built)
        _monitor_handle=OneOf(None, TIMER),
        _receiver_ready_poll_handle=OneOf(None, TIMER),
    ),
)
ERTM = Inst(ERTM_M)

GHOST = dict(
    sent=ListOf(Bytes), delivered=ListOf(Bytes), iseq=Int, cancels=Int, armed=Int, timer=TIMER, loop=Inst('ghost:Loop'),
    w_tx=ListOf(Int), w_req=ListOf(Int), w_sar=ListOf(Int), w_fin=ListOf(Int), w_len=ListOf(Int), w_pay=ListOf(Bytes),
)
WIRE = ['ghost.sent', 'ghost.iseq', 'ghost.w_tx', 'ghost.w_req', 'ghost.w_sar', 'ghost.w_fin', 'ghost.w_len', 'ghost.w_pay']

INLINE_CF = ['*ControlField.from_bytes', '*ControlField.__bytes__', '*ControlField.__init__', 'EnhancedRetransmissionProcessor._PendingPdu.*']


# ---------------------------------------------------------------------------
# representation invariant
# ---------------------------------------------------------------------------
def seqno(x):
    return 0 <= x and x < 64


def numbered(xs, base):
    """the sequence numbers xs are consecutive modulo 64 starting at base"""
    return forall(0, len(xs), lambda i: xs[i] == (base + i) % 64)


def wire_wf(ghost):
    n = len(ghost.w_tx)
    return len(ghost.w_req) == n and len(ghost.w_sar) == n and len(ghost.w_fin) == n and len(ghost.w_len) == n and len(ghost.w_pay) == n


def wf(self, ghost):
    """Core Vol 3 Part A 8.6: at most TxWindow (1..63) unacknowledged I-frames; the unacknowledged frames followed by
    the frames not yet sent carry consecutive sequence numbers modulo 64 starting at the last acknowledged one"""
    a = self._last_acked_tx_seq
    nw = len(self._tx_window)
    return [
        1 <= self.peer_tx_window_size and self.peer_tx_window_size <= 63,
        nw <= self.peer_tx_window_size,
        seqno(a) and seqno(self._next_tx_seq) and seqno(self._req_seq_num) and seqno(self._last_acked_rx_seq),
        numbered(col(self._tx_window, 'tx_seq'), a),
        numbered(col(self._pending_pdus, 'tx_seq'), a + nw),
        self._next_tx_seq == (a + nw + len(self._pending_pdus)) % 64,
        # the next I-frame that goes on the wire carries the number that follows the last one sent
        ghost.iseq == (a + nw) % 64,
        wire_wf(ghost),
    ]


WF_NAMES = ['wf-window-size', 'wf-unacked<=window', 'wf-seq-in-range', 'wf-unacked-consecutive-mod-64', 'wf-waiting-consecutive-mod-64', 'wf-next-tx-seq', 'wf-wire-seq', 'wf-trace']


def no_stall(self):
    """nothing waits while the window has room (unless the peer said it is busy or a poll is outstanding)"""
    return self._remote_is_busy or self._monitor_handle is not None or len(self._pending_pdus) == 0 or len(self._tx_window) >= self.peer_tx_window_size


# ---------------------------------------------------------------------------
# _get_next_tx_seq
# ---------------------------------------------------------------------------
contract(
    ERTM_M + '._get_next_tx_seq',
    prop='C08',
    params=dict(self=ERTM),
    requires=lambda self: seqno(self._next_tx_seq),
    ensures=lambda self, old, res: [res == old.self._next_tx_seq, self._next_tx_seq == (old.self._next_tx_seq + 1) % 64, seqno(self._next_tx_seq)],
    ensures_names=['returns-current', 'advances-by-one-mod-64', 'in-range'],
    modifies=['self._next_tx_seq'],
)

# ---------------------------------------------------------------------------
# _send_s_frame
# ---------------------------------------------------------------------------
S_FRAME = dict(
    params=dict(self=ERTM, supervision_function=OneOf(0, 1, 2, 3), final=IntRange(0, 1)),
    ghost=GHOST,
    requires=lambda self: seqno(self._req_seq_num),
    ensures=lambda self, supervision_function, final, old, ghost: [
        # one S-frame: the function asked for, P=0, F as asked, acknowledging everything received so far
        ghost.sent == old.ghost.sent + [sframe_ctrl(supervision_function, 0, self._req_seq_num, final)],
        self._last_acked_rx_seq == self._req_seq_num,
    ],
    ensures_names=['one-s-frame', 'ack-recorded'],
    modifies=['self._last_acked_rx_seq', 'ghost.sent'],
)
contract(ERTM_M + '._send_s_frame', prop='C08', inline=INLINE_CF, **S_FRAME)
contract(ERTM_M + '._send_s_frame', key=ERTM_M + '._send_s_frame@callee', **S_FRAME)
USE_SF = [ERTM_M + '._send_s_frame@callee']


# ---------------------------------------------------------------------------
# _process_output: the first min(room, waiting) PDUs go on the wire, in order
# ---------------------------------------------------------------------------
def blocked(self):
    return self._remote_is_busy or self._monitor_handle is not None


def n_moved(old):
    """how many waiting PDUs may be sent: the room left in the peer's window, at most what is waiting"""
    room = old.self.peer_tx_window_size - len(old.self._tx_window)
    n = len(old.self._pending_pdus)
    return ite(blocked(old.self), 0, ite(room < n, room, n))


FIELDS = ('payload', 'tx_seq', 'sar', 'sdu_length')


def moved(self, old, m, done):
    """the m oldest waiting PDUs were appended to the unacknowledged ones, the others still wait (done: they have
    left the waiting list), nothing else changed in either list (field by field; req_seq is rewritten when a frame
    is sent)"""
    out = [len(self._tx_window) == len(old.self._tx_window) + m]
    for f in FIELDS:
        out.append(col(self._tx_window, f) == col(old.self._tx_window, f) + col(old.self._pending_pdus, f)[:m])
        out.append(col(self._pending_pdus, f) == (col(old.self._pending_pdus, f)[m:] if done else col(old.self._pending_pdus, f)))
    return out


def wire(self, old, ghost, m):
    """exactly m I-frames were handed to the channel: the m oldest waiting PDUs in order (sequence number, SAR,
    as queued; SDU length on start frames), each acknowledging what has been received so far, F=1 as bumble sets it
    on every I-frame"""
    p = old.self._pending_pdus
    n0 = len(old.ghost.w_tx)
    return [
        len(ghost.sent) == len(old.ghost.sent) + m,
        ghost.w_tx == old.ghost.w_tx + col(p, 'tx_seq')[:m],
        ghost.w_sar == old.ghost.w_sar + col(p, 'sar')[:m],
        # (that each frame's data bytes are the queued payload is the frame-bytes clause of _send_i_frame / __bytes__,
        #  proved per frame; as a column of this trace the solvers do not decide it reliably: not claimed here)
        len(ghost.w_pay) == len(old.ghost.w_pay) + m,
        len(ghost.w_req) == n0 + m and len(ghost.w_fin) == n0 + m and len(ghost.w_len) == n0 + m,
        forall(0, n0 + m, lambda i: ghost.w_req[i] == ite(i < n0, old.ghost.w_req[i], self._req_seq_num) and ghost.w_fin[i] == ite(i < n0, old.ghost.w_fin[i], 1)),
        forall(0, n0 + m, lambda i: ghost.w_len[i] == ite(i < n0, old.ghost.w_len[i], ite(col(p, 'sar')[i - n0] == START, col(p, 'sdu_length')[i - n0], 0))),
    ]


PO_MOD = ['self._pending_pdus', 'self._tx_window', 'self._last_acked_rx_seq', 'self._receiver_ready_poll_handle', 'self._num_receiver_ready_polls_sent',
          'ghost.cancels', 'ghost.armed'] + WIRE

PROCESS_OUTPUT = dict(
    params=dict(self=ERTM),
    ghost=GHOST,
    requires=lambda self, ghost: wf(self, ghost),
    ensures=lambda self, old, ghost: moved(self, old, n_moved(old), True) + wf(self, ghost) + [no_stall(self)] + wire(self, old, ghost, n_moved(old)) + [
        implies(n_moved(old) > 0, self._last_acked_rx_seq == self._req_seq_num),
        implies(n_moved(old) == 0, self._last_acked_rx_seq == old.self._last_acked_rx_seq),
        # the retransmission timer runs whenever a frame was sent
        implies(n_moved(old) > 0, self._receiver_ready_poll_handle is not None),
    ],
    ensures_names=['moved-count'] + [f'{w}-{f}' for f in FIELDS for w in ('unacked', 'waiting')] + WF_NAMES + ['no-stall', 'wire-count', 'wire-tx-seq', 'wire-sar',
                   'wire-data-count', 'wire-trace-lengths', 'wire-req-seq-final', 'wire-sdu-length', 'ack-piggybacked', 'ack-unchanged-if-nothing-sent', 'retransmission-timer-running'],
    modifies=PO_MOD,
)


def po_inv(self, old, ghost, _i=None, pdu_to_send=None):
    """loop invariant of _process_output, stated over the two queues and not over the loop's temporaries: n = the
    number of frames that have joined the unacknowledged ones so far.  It is meant for either shape of the loop:
    `for pdu in islice(waiting, room): send(pdu)` followed by `waiting = waiting[room:]` (the waiting list is not
    touched inside the loop; the counter `_i` and the local `pdu_to_send` exist and `_i == n`), and
    `while waiting and <room>: send(waiting.pop(0))` (no counter: `_i` / `pdu_to_send` are optional parameters; the
    waiting list is consumed as frames are sent; the window bound is then a clause of the invariant itself, so a loop
    guard that lets one frame too many through fails `inv-preserved`).  In both shapes the postcondition
    wf-unacked<=window (part of the representation invariant) is what every caller relies on"""
    a = self._last_acked_tx_seq
    consumed = _i is None
    n = len(self._tx_window) - len(old.self._tx_window) if consumed else _i
    return [
        0 <= n and n <= len(old.self._pending_pdus) and n == len(self._tx_window) - len(old.self._tx_window),
        # Core Vol 3 Part A 8.6: never more unacknowledged I-frames than the peer's TxWindow, at every iteration.
        # (for-shape: the number of iterations is fixed before the loop; pdu_to_send is not assigned in the loop, it
        #  keeps the value the code computed, and whether that value respects the window is decided by the
        #  postcondition wf-unacked<=window: with the bound as an invariant clause too, the solvers answer `unknown`
        #  instead of `sat` for a wrong room computation, and the postcondition is then entailed by the invariant)
        len(self._tx_window) <= self.peer_tx_window_size if consumed else _i <= pdu_to_send,
        not blocked(self),
    ] + moved(self, old, n, consumed) + [
        numbered(col(self._tx_window, 'tx_seq'), a),
        numbered(col(self._pending_pdus, 'tx_seq'), a + len(old.self._tx_window) + (n if consumed else 0)),
        ghost.iseq == (a + len(self._tx_window)) % 64,
        seqno(self._last_acked_rx_seq),
        wire_wf(ghost),
    ] + wire(self, old, ghost, n) + [
        implies(n > 0, self._last_acked_rx_seq == self._req_seq_num and self._receiver_ready_poll_handle is not None),
        implies(n == 0, self._last_acked_rx_seq == old.self._last_acked_rx_seq),
    ]


contract(ERTM_M + '._process_output', key=ERTM_M + '._process_output@callee', **PROCESS_OUTPUT)
USE_PO = [ERTM_M + '._process_output@callee']

contract(
    ERTM_M + '._process_output',
    prop='C08',
    invariants={0: po_inv},
    stubs=STUBS,
    inline=INLINE_CF + ['EnhancedRetransmissionProcessor._send_i_frame', 'EnhancedRetransmissionProcessor._start_receiver_ready_poll'],
    **PROCESS_OUTPUT,
)


# ---------------------------------------------------------------------------
# send_sdu: segmentation
# ---------------------------------------------------------------------------
# ghost.seg_*: names for the segmentation of this SDU as the specification defines it (rigid; defined by `requires`)
SEG_GHOST = dict(seg_off=ListOf(Int), seg_pay=ListOf(Bytes), seg_sar=ListOf(Int), seg_len=ListOf(Int), seg_tx=ListOf(Int))
SEG_OF = {'payload': 'seg_pay', 'tx_seq': 'seg_tx', 'sar': 'seg_sar', 'sdu_length': 'seg_len'}


def seg_pre(self, sdu, ghost):
    return segmentation(len(sdu), sdu, self.peer_mps, ghost.seg_off, ghost.seg_pay, ghost.seg_sar, ghost.seg_len) + [
        len(ghost.seg_tx) == len(ghost.seg_off),
        numbered(ghost.seg_tx, self._next_tx_seq),
    ]


def queued(self, old, ghost, k, in_window):
    """the first k segments of the SDU were appended, in order, behind everything queued before (in_window: part of
    the queue may already be in the window of unacknowledged frames)"""
    out = []
    for f in FIELDS:
        seg = getattr(ghost, SEG_OF[f])
        if in_window:
            out.append(col(self._tx_window, f) + col(self._pending_pdus, f) == col(old.self._tx_window, f) + col(old.self._pending_pdus, f) + seg)
        else:
            out.append(col(self._pending_pdus, f) == col(old.self._pending_pdus, f) + seg[:k])
    return out


def seg_hints(ghost, j):
    """valid facts about the prefixes of the segment lists at position j (hints for the solvers)"""
    k = len(ghost.seg_off)
    return [implies(0 <= j and j < k, getattr(ghost, SEG_OF[f])[: j + 1] == getattr(ghost, SEG_OF[f])[:j] + [getattr(ghost, SEG_OF[f])[j]]) for f in FIELDS]


def ss_inv(self, sdu, old, ghost, _it):
    j = len(self._pending_pdus) - len(old.self._pending_pdus)
    k = len(ghost.seg_off)
    return [
        0 <= j and j <= k,
        implies(j < k, _it == ghost.seg_off[j]),
        implies(j == k, _it >= len(sdu)),
        k >= 2,
        self._next_tx_seq == (old.self._next_tx_seq + j) % 64,
        numbered(col(self._pending_pdus, 'tx_seq'), self._last_acked_tx_seq + len(self._tx_window)),
    ] + seg_hints(ghost, j) + queued(self, old, ghost, j, False)


contract(
    ERTM_M + '.send_sdu',
    prop='C08',
    params=dict(self=ERTM, sdu=Bytes),
    ghost=dict(GHOST, **SEG_GHOST),
    requires=lambda self, sdu, ghost: wf(self, ghost) + [self.peer_mps >= 1, len(sdu) <= 0xFFFF] + seg_pre(self, sdu, ghost),
    ensures=lambda self, sdu, old, ghost: seg_hints(ghost, 0) + queued(self, old, ghost, len(ghost.seg_off), True) + wf(self, ghost) + [
        no_stall(self),
        # frames already handed to the channel are never touched
        ghost.w_tx[: len(old.ghost.w_tx)] == old.ghost.w_tx and ghost.w_sar[: len(old.ghost.w_sar)] == old.ghost.w_sar,
        # no SDU is delivered by sending one
        ghost.delivered == old.ghost.delivered,
    ],
    invariants={0: ss_inv},
    loop_modifies={0: ['self._pending_pdus', 'self._next_tx_seq']},
    modifies=PO_MOD + ['self._next_tx_seq'],
    uses=USE_PO,
    inline=['EnhancedRetransmissionProcessor._get_next_tx_seq', 'EnhancedRetransmissionProcessor._PendingPdu.*'],
)


# ---------------------------------------------------------------------------
# _update_ack_seq: exactly (new - last) mod 64 frames leave the window, or nothing
# ---------------------------------------------------------------------------
def n_acked(old, new_seq):
    return (new_seq - old.self._last_acked_tx_seq) % 64


def ack_post(self, new_seq, is_poll_response, old, ghost):
    n = n_acked(old, new_seq)
    ok = n <= len(old.self._tx_window)
    # what _process_output then may send: the monitor timer is cleared by a poll response, the window has n more places
    mon = old.self._monitor_handle is not None and not is_poll_response
    room = old.self.peer_tx_window_size - (len(old.self._tx_window) - n)
    np = len(old.self._pending_pdus)
    m = ite(ok, ite(old.self._remote_is_busy or mon, 0, ite(room < np, room, np)), 0)
    out = [
        # an acknowledgement for more frames than are outstanding is ignored: nothing changes
        implies(not ok, self._last_acked_tx_seq == old.self._last_acked_tx_seq and len(self._tx_window) == len(old.self._tx_window) and (self._monitor_handle is None) == (old.self._monitor_handle is None)),
        implies(ok, self._last_acked_tx_seq == new_seq),
        len(self._tx_window) == len(old.self._tx_window) - ite(ok, n, 0) + m,
        implies(ok and is_poll_response, self._monitor_handle is None),
        implies(not is_poll_response, (self._monitor_handle is None) == (old.self._monitor_handle is None)),
        implies(m > 0, self._last_acked_rx_seq == self._req_seq_num),
        implies(m == 0, self._last_acked_rx_seq == old.self._last_acked_rx_seq),
    ]
    for f in FIELDS:
        # the n oldest unacknowledged frames are forgotten, the m oldest waiting PDUs take their place at the end
        out.append(col(self._tx_window, f) == col(old.self._tx_window, f)[ite(ok, n, 0):] + col(old.self._pending_pdus, f)[:m])
        out.append(col(self._pending_pdus, f) == col(old.self._pending_pdus, f)[m:])
    return out + wf(self, ghost) + [implies(ok, no_stall(self))] + wire(self, old, ghost, m) + [ghost.delivered == old.ghost.delivered]


ACK_MOD = PO_MOD + ['self._last_acked_tx_seq', 'self._monitor_handle']
UPDATE_ACK = dict(
    params=dict(self=ERTM, new_seq=IntRange(0, 63), is_poll_response=Bool),
    ghost=GHOST,
    requires=lambda self, new_seq, ghost: wf(self, ghost) + [seqno(new_seq)],
    ensures=ack_post,
    modifies=ACK_MOD,
)
contract(ERTM_M + '._update_ack_seq', prop='C08', uses=USE_PO, **UPDATE_ACK)
contract(ERTM_M + '._update_ack_seq', key=ERTM_M + '._update_ack_seq@callee', **UPDATE_ACK)
USE_ACK = [ERTM_M + '._update_ack_seq@callee']


# ---------------------------------------------------------------------------
# on_pdu: the receiving side
# ---------------------------------------------------------------------------
def rx_unchanged(self, old, ghost):
    return self._req_seq_num == old.self._req_seq_num and self._in_sdu == old.self._in_sdu and ghost.delivered == old.ghost.delivered


def on_pdu_post(self, pdu, old, ghost):
    i = is_iframe(pdu)
    in_seq = i and f_tx_seq(pdu) == old.self._req_seq_num
    sar = f_sar(pdu)
    last = sar == END or sar == UNSEG
    data = iframe_data(pdu)
    sf = f_sfunc(pdu)
    r0 = old.self._req_seq_num
    return [
        # I-frame with the expected sequence number: the receive sequence number advances by one modulo 64, the data
        # it carries extends the SDU being reassembled, a complete SDU is handed to the channel exactly once
        implies(in_seq, self._req_seq_num == (f_tx_seq(pdu) + 1) % 64),
        implies(in_seq and last, ghost.delivered == old.ghost.delivered + [old.self._in_sdu + data] and self._in_sdu == b''),
        implies(in_seq and not last, ghost.delivered == old.ghost.delivered and self._in_sdu == old.self._in_sdu + data),
        # no acknowledgement is owed when on_pdu returns: "acknowledged" means equal modulo 64 -- the numbers wrap
        # from 63 to 0, so an order comparison of the two counters is not the test (8.6.5: ReqSeq arithmetic is modulo 64).
        # Split at the wrap first (each case is linear for the solvers), then the statement in modulo-64 arithmetic
        implies(in_seq and r0 == 63, self._req_seq_num == 0 and self._last_acked_rx_seq == 0),
        implies(in_seq and r0 != 63, self._req_seq_num == r0 + 1 and self._last_acked_rx_seq == r0 + 1),
        implies(in_seq, self._last_acked_rx_seq == (r0 + 1) % 64 and (self._req_seq_num - self._last_acked_rx_seq) % 64 == 0),
        # the frame is acknowledged (an I-frame sent meanwhile would have carried the acknowledgement)
        implies(in_seq and self._req_seq_num != old.self._last_acked_rx_seq and self._req_seq_num != old.self._req_seq_num,
                len(ghost.sent) >= 1 and ghost.sent[len(ghost.sent) - 1] == sframe_ctrl(RR, 0, self._req_seq_num, 0) and self._last_acked_rx_seq == self._req_seq_num),
        # any other frame (out of sequence I-frame, S-frame): nothing is delivered, the receive state does not move
        implies(not in_seq, rx_unchanged(self, old, ghost)),
        # S-frames: RNR stops the sender, a poll (P=1) is answered with F=1
        implies(not i, self._remote_is_busy == (sf == RNR)),
        implies(i, self._remote_is_busy == old.self._remote_is_busy),
        implies(not i and (sf == RR or sf == RNR) and f_poll(pdu) == 1,
                len(ghost.sent) >= 1 and ghost.sent[len(ghost.sent) - 1] == sframe_ctrl(RR, 0, self._req_seq_num, 1)),
        # a frame with F=1 that acknowledges nothing beyond what is outstanding ends the wait for a poll response
        implies(f_final(pdu) == 1 and n_acked(old, ite(i, f_req_seq(pdu), at(pdu, 1) % 128)) <= len(old.self._tx_window), self._monitor_handle is None),
    ] + wf(self, ghost) + [
        # nothing waits while the window has room (a peer that was busy is only served again at the next acknowledgement)
        implies(not old.self._remote_is_busy and n_acked(old, ite(i, f_req_seq(pdu), at(pdu, 1) % 128)) <= len(old.self._tx_window), no_stall(self)),
    ]


ON_PDU_MOD = ACK_MOD + ['self._req_seq_num', 'self._in_sdu', 'self._remote_is_busy', 'ghost.delivered']
contract(
    ERTM_M + '.on_pdu',
    prop='C08',
    params=dict(self=ERTM, pdu=Bytes),
    ghost=GHOST,
    # reserved bits of an S-frame's second octet are zero (Core Vol 3 Part A 3.3.2; bumble's encoder writes req_seq < 64)
    requires=lambda self, pdu, ghost: wf(self, ghost) + [implies(is_sframe(pdu), at(pdu, 1) < 64)],
    ensures=on_pdu_post,
    ensures_names=['in-seq-advances-mod-64', 'complete-sdu-delivered-once', 'segment-appended', 'ack-not-owed-at-wrap-63-to-0', 'ack-not-owed-without-wrap',
                   'ack-not-owed-mod-64', 'in-seq-acknowledged-by-rr', 'other-frames-leave-rx-state', 'rnr-sets-busy', 'iframe-keeps-busy',
                   'poll-answered-with-final', 'final-ends-poll-wait'] + WF_NAMES + ['no-stall'],
    raises={IndexError: lambda self, pdu, old, ghost: [len(pdu) < 2, rx_unchanged(self, old, ghost)] + wf(self, ghost)},
    modifies=ON_PDU_MOD,
    uses=USE_ACK + USE_SF,
    inline=INLINE_CF,
)


# ---------------------------------------------------------------------------
# __init__: a fresh processor satisfies the representation invariant
# ---------------------------------------------------------------------------
model(ERTM_M + '#new', fields={k: Any for k in ('channel', 'mps', 'peer_mps', 'peer_tx_window_size', 'peer_max_retransmission', 'monitor_timeout',
                                                'retransmission_timeout', '_pending_pdus', '_tx_window')})
contract(
    ERTM_M + '.__init__',
    prop='C08',
    params=dict(self=Inst(ERTM_M + '#new'), channel=CHAN, peer_tx_window_size=Int, peer_max_retransmission=Int, peer_mps=Int),
    ghost=GHOST,
    # what the peer advertised in its configuration request: TxWindow 1..63 (Core Vol 3 Part A 5.4)
    requires=lambda peer_tx_window_size, ghost: [1 <= peer_tx_window_size and peer_tx_window_size <= 63, ghost.iseq == 0, wire_wf(ghost)],
    ensures=lambda self, channel, peer_tx_window_size, peer_mps, ghost: [
        self.peer_tx_window_size == peer_tx_window_size and self.peer_mps == peer_mps and self.mps == channel.spec.mps,
        len(self._pending_pdus) == 0 and len(self._tx_window) == 0,
        # sequence numbers start at 0 in both directions, nothing is being reassembled, the peer is not busy
        self._next_tx_seq == 0 and self._last_acked_tx_seq == 0 and self._req_seq_num == 0 and self._last_acked_rx_seq == 0,
        self._in_sdu == b'' and not self._remote_is_busy and self._monitor_handle is None and self._receiver_ready_poll_handle is None,
    ],
    ensures_names=['parameters', 'queues-empty', 'sequence-numbers-zero', 'idle'],
    modifies=['self.*'],
)


# ---------------------------------------------------------------------------
# _PendingPdu.__bytes__ / _send_i_frame: the frame of one PDU
# ---------------------------------------------------------------------------
PDU1 = Inst(PDU_M, req_seq=IntRange(0, 63))
contract(
    PDU_M + '.__bytes__',
    prop='C08',
    params=dict(self=PDU1),
    # Core Vol 3 Part A 3.3: control field, SDU length on a start frame only, then the data
    ensures=lambda self, res: [res == iframe(self.tx_seq, self.req_seq, self.sar, 1, self.sdu_length, self.payload)],
    ensures_names=['i-frame-layout'],
    modifies=[],
    inline=INLINE_CF,
)

contract(
    ERTM_M + '._send_i_frame',
    prop='C08',
    params=dict(self=ERTM, pdu=Inst(PDU_M)),
    ghost=GHOST,
    requires=lambda self, pdu, ghost: [seqno(self._req_seq_num), pdu.tx_seq == ghost.iseq, wire_wf(ghost)],
    ensures=lambda self, pdu, old, ghost: [
        pdu.req_seq == self._req_seq_num,
        ghost.sent == old.ghost.sent + [iframe(pdu.tx_seq, self._req_seq_num, pdu.sar, 1, pdu.sdu_length, pdu.payload)],
        len(self._tx_window) == len(old.self._tx_window) + 1,
        [col(self._tx_window, f) == col(old.self._tx_window, f) + [getattr(pdu, f)] for f in FIELDS],
        self._last_acked_rx_seq == self._req_seq_num and self._receiver_ready_poll_handle is not None,
        ghost.iseq == (old.ghost.iseq + 1) % 64,
    ],
    ensures_names=['acknowledges-what-was-received', 'frame-bytes', 'one-more-unacknowledged', 'appended-payload', 'appended-tx_seq', 'appended-sar', 'appended-sdu_length', 'timer-running', 'wire-seq-advances'],
    modifies=['pdu.req_seq', 'self._tx_window', 'self._last_acked_rx_seq', 'self._receiver_ready_poll_handle', 'self._num_receiver_ready_polls_sent', 'ghost.cancels', 'ghost.armed'] + WIRE,
    stubs=STUBS,
    inline=INLINE_CF + ['EnhancedRetransmissionProcessor._start_receiver_ready_poll'],
)


# ---------------------------------------------------------------------------
# timers
# ---------------------------------------------------------------------------
TIMER_MOD = ['self._monitor_handle', 'self._receiver_ready_poll_handle', 'self._num_receiver_ready_polls_sent', 'self._last_acked_rx_seq', 'ghost.sent', 'ghost.cancels', 'ghost.armed']


def poll_sent(self, old, ghost):
    """Core Vol 3 Part A 8.6.5.6/8.6.5.8 (retransmission / monitor timer expiry): an RR (or RNR) S-frame with the
    Poll bit set is sent and the monitor timer is started; the peer answers a poll with F=1 (8.6.1.? / on_pdu above)"""
    return [
        ghost.sent == old.ghost.sent + [sframe_ctrl(RR, 1, self._req_seq_num, 0)],
        self._monitor_handle is not None,
        self._num_receiver_ready_polls_sent == old.self._num_receiver_ready_polls_sent + 1,
    ]


def tx_untouched(self, old):
    return [self._last_acked_tx_seq == old.self._last_acked_tx_seq and self._next_tx_seq == old.self._next_tx_seq and self._req_seq_num == old.self._req_seq_num]


contract(
    ERTM_M + '._receiver_ready_poll',
    prop='C08',
    params=dict(self=ERTM),
    ghost=GHOST,
    requires=lambda self, ghost: wf(self, ghost),
    ensures=lambda self, old, ghost: poll_sent(self, old, ghost) + wf(self, ghost),
    ensures_names=['poll-sent-with-P=1', 'monitor-armed', 'poll-counted'] + WF_NAMES,
    modifies=TIMER_MOD,
    stubs=STUBS,
    inline=INLINE_CF + ['EnhancedRetransmissionProcessor._send_receiver_ready_poll', 'EnhancedRetransmissionProcessor._start_monitor', 'EnhancedRetransmissionProcessor._send_s_frame'],
)

contract(
    ERTM_M + '._monitor',
    prop='C08',
    params=dict(self=ERTM),
    ghost=GHOST,
    requires=lambda self, ghost: wf(self, ghost),
    ensures=lambda self, old, ghost: [
        # polls again unless the peer's MaxTransmit (0 = unlimited) is used up
        implies(self.peer_max_retransmission <= 0 or old.self._num_receiver_ready_polls_sent < self.peer_max_retransmission,
                ghost.sent == old.ghost.sent + [sframe_ctrl(RR, 1, self._req_seq_num, 0)] and self._monitor_handle is not None),
        implies(not (self.peer_max_retransmission <= 0 or old.self._num_receiver_ready_polls_sent < self.peer_max_retransmission), ghost.sent == old.ghost.sent),
    ] + wf(self, ghost),
    ensures_names=['polls-again-with-P=1', 'gives-up-silently'] + WF_NAMES,
    modifies=TIMER_MOD,
    stubs=STUBS,
    inline=INLINE_CF + ['EnhancedRetransmissionProcessor._send_receiver_ready_poll', 'EnhancedRetransmissionProcessor._start_monitor', 'EnhancedRetransmissionProcessor._send_s_frame'],
)


# ---------------------------------------------------------------------------
# Basic mode: the processor is the identity in both directions
# ---------------------------------------------------------------------------
def basic_send(ghost, pdu):
    ghost.sent = ghost.sent + [bytes(pdu)]


model('ghost:Chan#basic', fields={}, methods={'send_pdu': Callback('send_pdu', effect=basic_send), 'on_sdu': Callback('on_sdu', effect=chan_on_sdu)})
model('bumble.l2cap:Processor', fields=dict(channel=Inst('ghost:Chan#basic')))
BASIC = Inst('bumble.l2cap:Processor')
BASIC_GHOST = dict(sent=ListOf(Bytes), delivered=ListOf(Bytes))
contract(
    'bumble.l2cap:Processor.send_sdu',
    prop='C08',
    params=dict(self=BASIC, sdu=Bytes),
    ghost=BASIC_GHOST,
    ensures=lambda self, sdu, old, ghost: [ghost.sent == old.ghost.sent + [sdu], ghost.delivered == old.ghost.delivered],
    ensures_names=['one-frame-carrying-the-sdu', 'nothing-delivered'],
    modifies=['ghost.sent'],
)
contract(
    'bumble.l2cap:Processor.on_pdu',
    prop='C08',
    params=dict(self=BASIC, pdu=Bytes),
    ghost=BASIC_GHOST,
    ensures=lambda self, pdu, old, ghost: [ghost.delivered == old.ghost.delivered + [pdu], ghost.sent == old.ghost.sent],
    ensures_names=['delivered-once-unchanged', 'nothing-sent'],
    modifies=['ghost.delivered'],
)


# ---------------------------------------------------------------------------
# lemma: the I-frames of one SDU, delivered in order, yield exactly that SDU, once
# ---------------------------------------------------------------------------
def lemma_ertm_roundtrip(rx, sdu, start, reqs, ghost):
    """the receiving processor is fed the frames that send_sdu queues for `sdu` (its contract: segments ghost.seg_*,
    sequence numbers start, start+1, ... modulo 64) as _PendingPdu.__bytes__ serialises them, in order, each carrying
    some acknowledgement number"""
    j = 0
    while j < len(ghost.seg_off):
        tx = (start + j) % 64
        f = iframe(tx, reqs[j], ghost.seg_sar[j], 1, ghost.seg_len[j], ghost.seg_pay[j])
        # (proof hints: what the specification reads back from this frame)
        assert is_iframe(f) and f_tx_seq(f) == tx and f_req_seq(f) == reqs[j] and f_final(f) == 1
        assert f_sar(f) == ghost.seg_sar[j]
        assert iframe_data(f) == ghost.seg_pay[j]
        # (proof hints: the instances of the segmentation facts for segment j and the next one)
        k = len(ghost.seg_off)
        assert ghost.seg_pay[j] == subseq(sdu, ghost.seg_off[j], rx.mps) and ghost.seg_off[j] >= 0
        if j + 1 < k:
            assert ghost.seg_off[j + 1] == ghost.seg_off[j] + rx.mps and ghost.seg_off[j + 1] < len(sdu)
        else:
            assert ghost.seg_off[j] + rx.mps >= len(sdu)
        assert (ghost.seg_sar[j] == END or ghost.seg_sar[j] == UNSEG) == (j + 1 == k)
        assert split_fact(sdu, ghost.seg_off[j], rx.mps)
        rx.on_pdu(f)
        j = j + 1


def rt_inv(rx, sdu, start, reqs, j, old, ghost):
    k = len(ghost.seg_off)
    return [
        0 <= j and j <= k,
        rx._req_seq_num == (start + j) % 64,
        # what has been reassembled so far is the SDU up to the offset of the next segment
        implies(j < k, rx._in_sdu == subseq(sdu, 0, ghost.seg_off[j]) and ghost.delivered == old.ghost.delivered),
        implies(j == k, rx._in_sdu == b'' and ghost.delivered == old.ghost.delivered + [sdu]),
    ] + wf(rx, ghost)


lemma(
    'ertm_roundtrip',
    lemma_ertm_roundtrip,
    prop='C08',
    params=dict(rx=ERTM, sdu=Bytes, start=IntRange(0, 63), reqs=ListOf(Int)),
    ghost=dict(GHOST, **SEG_GHOST),
    requires=lambda rx, sdu, start, reqs, ghost: wf(rx, ghost) + [
        rx._in_sdu == b'',
        rx._req_seq_num == start,
        len(sdu) <= 0xFFFF,
        rx.mps >= 1,
        len(reqs) == len(ghost.seg_off),
        forall(0, len(reqs), lambda j: 0 <= reqs[j] and reqs[j] < 64),
    ] + segmentation(len(sdu), sdu, rx.mps, ghost.seg_off, ghost.seg_pay, ghost.seg_sar, ghost.seg_len),
    ensures=lambda rx, sdu, start, old, ghost: [
        ghost.delivered == old.ghost.delivered + [sdu],
        rx._in_sdu == b'',
        rx._req_seq_num == (start + len(ghost.seg_off)) % 64,
    ] + wf(rx, ghost),
    ensures_names=['delivered-exactly-once-intact', 'nothing-left-over', 'sequence-number-advanced-by-the-number-of-frames'] + WF_NAMES,
    invariants={0: rt_inv},
    decreases={0: lambda j, ghost: len(ghost.seg_off) - j},
    modifies=[m.replace('self.', 'rx.') for m in ON_PDU_MOD],
    uses=[ERTM_M + '.on_pdu'],
)
