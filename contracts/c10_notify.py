"""C10 part 3 -- what the server sends on its own: notifications and indications.

  Server._notify_single_subscriber     at most one PDU, never longer than the bearer's ATT_MTU
  Server._indicate_single_bearer       the same, and the per-bearer slot of the pending confirmation:
                                       the code's own `assert self.pending_confirmations[bearer] is None` is an
                                       obligation; the confirmation is awaited exactly once, after exactly one
                                       indication went out, on the future stored in the slot; the slot is empty again
                                       on EVERY exit (confirmed, timed out, value unreadable)

The models of the server, the two real bearer classes (device.Connection, l2cap.LeCreditBasedChannel), the CCCD table
and the asyncio stand-ins are those of contracts/c12_gatt.py (C12 proves *which* PDU goes to *whom*); the clauses here
are C10's own.  Value profile: the PDU is bytes(ATT_Handle_Value_Notification / _Indication) computed by the real
serialiser.
"""
from bumble import att
from contracts.c12_gatt import ASYNCIO_STUBS, PDU_INLINE, SINGLE_GHOST, SINGLE_PARAMS, _native_defaultdicts, cccd_set
from pyvc.contracts import contract, implies

ENVIRONMENT = [
    '"at most one indication per bearer awaits confirmation" is composed of: (proved here) between obtaining the '
    'per-bearer semaphore and leaving, _indicate_single_bearer sends exactly one indication, awaits its confirmation '
    'once and empties the slot on every exit; (environment) asyncio.Semaphore(1) admits one holder at a time, '
    'asyncio.wait_for either returns or raises TimeoutError, the only other writer of pending_confirmations is '
    'Server.on_disconnection (removes the entry)',
    'Attribute.read_value / encode_value return an arbitrary byte string (read_value may raise ATT_Error: C11)',
]


def sent_within_mtu(bearer, old, ghost):
    """at most one new PDU; what was sent before is untouched; the new PDU fits the ATT_MTU of the bearer it went to"""
    n0 = len(old.ghost.sent)
    return [
        len(ghost.sent) == n0 or len(ghost.sent) == n0 + 1,
        ghost.sent[:n0] == old.ghost.sent,
        implies(len(ghost.sent) == n0 + 1, len(ghost.sent[n0][1]) <= bearer.att_mtu),
    ]


SENT_NAMES = ['at-most-one-pdu', 'earlier-pdus-untouched', 'within-att-mtu']


def nothing_sent(old, ghost):
    return [ghost.sent == old.ghost.sent]


contract(
    'bumble.gatt_server:Server._notify_single_subscriber',
    key='bumble.gatt_server:Server._notify_single_subscriber@C10',
    prop='C10',
    params=SINGLE_PARAMS,
    ghost=SINGLE_GHOST,
    ensures=sent_within_mtu,
    ensures_names=SENT_NAMES,
    raises={att.ATT_Error: nothing_sent},
    modifies=['ghost.sent', 'ghost.reads', 'ghost.encoded'],
    inline=PDU_INLINE,
)


contract(
    'bumble.gatt_server:Server._indicate_single_bearer',
    key='bumble.gatt_server:Server._indicate_single_bearer@C10',
    prop='C10',
    params=SINGLE_PARAMS,
    ghost=SINGLE_GHOST,
    # ghost.n0: the PDUs sent before this call (the stand-in of asyncio.wait_for checks that exactly one more went out
    # when the confirmation is awaited, and that the awaited future is the one created for it)
    requires=lambda ghost: [ghost.n0 == len(ghost.sent)],
    ensures=lambda self, bearer, attribute, force, old, ghost: sent_within_mtu(bearer, old, ghost)
    + [
        self.pending_confirmations.get(bearer) is None,
        # a normal return after sending means the confirmation was awaited, once
        ghost.waits == old.ghost.waits + (1 if len(ghost.sent) == len(old.ghost.sent) + 1 else 0),
    ],
    ensures_names=SENT_NAMES + ['slot-empty-again', 'confirmation-awaited-once'],
    raises={
        att.ATT_Error: lambda self, bearer, old, ghost: nothing_sent(old, ghost) + [self.pending_confirmations.get(bearer) is None],
        # no confirmation in time: exactly one indication went out (within ATT_MTU), it was awaited, the slot is free again
        TimeoutError: lambda self, bearer, old, ghost: sent_within_mtu(bearer, old, ghost)
        + [len(ghost.sent) == len(old.ghost.sent) + 1, ghost.waits == old.ghost.waits + 1, self.pending_confirmations.get(bearer) is None],
    },
    modifies=['ghost.sent', 'ghost.reads', 'ghost.encoded', 'ghost.waits', 'self.indication_semaphores', 'self.pending_confirmations'],
    inline=PDU_INLINE,
    stubs=ASYNCIO_STUBS,
    with_enter=lambda path, cm: None,
    with_exit=lambda path, cm: None,
    native_setup=_native_defaultdicts,
    native_run_for=0.3,
)
