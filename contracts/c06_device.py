"""C06, host side: which connection event resolves a pending Device.connect_le / connect_classic.

The closures `on_connection` / `on_connection_failure` that connect_le and connect_classic register on the device's
'connection' / 'connection_failure' events are verified as functions of their own; the variables they capture
(`pending_connection`, the future the caller awaits, and `peer_address`, the address the connect was requested for) are
contract parameters.  From the statement: the caller is handed the connection made for ITS request and no other, i.e.
the future is resolved only by a connection of the requested transport, in the central role, to the requested peer.
"""
from bumble import core, hci
from pyvc import ext_c06  # noqa: F401
from pyvc.contracts import Bool, Callback, Const, Inst, Int, IntRange, OneOf, Opaque, Opt, contract, iff, implies, model, same

from contracts.c06_link import ADDR, BR_EDR, CENTRAL, LE, LOpt, nat_fix

ENVIRONMENT = [
    'C06 device side: pyee event dispatch (every registered listener is called with the emitted connection / error), the '
    'registration and removal of the listeners in connect_le / connect_classic, Device.on_le_connection / '
    'on_classic_connection (which build the device.Connection that is emitted) and the awaiting of the future are '
    'environment; verified is which emitted event resolves the pending future',
]


def fut_set_result(ghost, value):
    ghost.resolved = ghost.resolved + 1
    ghost.result = value


def fut_set_exception(ghost, error):
    ghost.failed = ghost.failed + 1


model('ghost:PendingConnection', fields={}, methods={'set_result': Callback('set_result', effect=fut_set_result), 'set_exception': Callback('set_exception', effect=fut_set_exception)})
DCONN = 'bumble.device:Connection#c06'
model(DCONN, fields=dict(transport=OneOf(LE, BR_EDR), role=IntRange(0, 1), peer_address=ADDR, peer_resolvable_address=LOpt(ADDR), handle=Int))
CERR = 'bumble.core:ConnectionError#c06'
model(CERR, fields=dict(transport=OneOf(LE, BR_EDR), peer_address=ADDR, error_code=Int))
FUT_GHOST = dict(resolved=Int, failed=Int, result=Opt(Inst(DCONN)))
FUT_MOD = ['ghost.resolved', 'ghost.failed', 'ghost.result']
PENDING = Inst('ghost:PendingConnection')


def to_requested_peer(connection, peer_address):
    """the connection's peer is the address the connect was requested for (as reported, or before resolution)"""
    return connection.peer_address == peer_address or (connection.peer_resolvable_address is not None and connection.peer_resolvable_address == peer_address)


# -- connect_le ---------------------------------------------------------------------------------------------------
contract(
    'bumble.device:Device.connect_le.<locals>.on_connection',
    prop='C06',
    params=dict(connection=Inst(DCONN), pending_connection=PENDING, peer_address=ADDR),
    ghost=FUT_GHOST,
    ensures=lambda connection, peer_address, ghost, old: [
        # only the LE connection this device made as central to the requested peer is handed to the caller
        implies(ghost.resolved > old.ghost.resolved, connection.transport == LE and connection.role == CENTRAL and to_requested_peer(connection, peer_address)),
        # and that one is (once)
        implies(connection.transport == LE and connection.role == CENTRAL and to_requested_peer(connection, peer_address), ghost.resolved == old.ghost.resolved + 1 and same(ghost.result, connection)),
        ghost.resolved <= old.ghost.resolved + 1 and ghost.failed == old.ghost.failed,
    ],
    ensures_names=['resolved-only-by-the-requested-le-central-connection', 'the-requested-connection-does-resolve-it', 'at-most-once-and-never-failed'],
    modifies=FUT_MOD,
    native_setup=nat_fix,
)
contract(
    'bumble.device:Device.connect_le.<locals>.on_connection_failure',
    prop='C06',
    params=dict(error=Inst(CERR), pending_connection=PENDING, peer_address=ADDR),
    ghost=FUT_GHOST,
    ensures=lambda error, ghost, old: [
        # a failure on the other transport (a BR/EDR page that fails while the LE connect is pending) is not this connect's failure
        implies(ghost.failed > old.ghost.failed, error.transport == LE),
        implies(error.transport == LE, ghost.failed == old.ghost.failed + 1),
        ghost.failed <= old.ghost.failed + 1 and ghost.resolved == old.ghost.resolved,
    ],
    ensures_names=['failed-only-by-an-le-failure', 'an-le-failure-does-fail-it', 'at-most-once-and-never-resolved'],
    modifies=FUT_MOD,
    native_setup=nat_fix,
)

# -- connect_classic ----------------------------------------------------------------------------------------------
contract(
    'bumble.device:Device.connect_classic.<locals>.on_connection',
    prop='C06',
    params=dict(connection=Inst(DCONN), pending_connection=PENDING, peer_address=ADDR),
    ghost=FUT_GHOST,
    ensures=lambda connection, peer_address, ghost, old: [
        implies(ghost.resolved > old.ghost.resolved, connection.transport == BR_EDR and connection.peer_address == peer_address),
        implies(connection.transport == BR_EDR and connection.peer_address == peer_address, ghost.resolved == old.ghost.resolved + 1 and same(ghost.result, connection)),
        ghost.resolved <= old.ghost.resolved + 1 and ghost.failed == old.ghost.failed,
    ],
    ensures_names=['resolved-only-by-a-br-edr-connection-to-the-requested-peer', 'the-requested-connection-does-resolve-it', 'at-most-once-and-never-failed'],
    modifies=FUT_MOD,
    native_setup=nat_fix,
)
contract(
    'bumble.device:Device.connect_classic.<locals>.on_connection_failure',
    prop='C06',
    params=dict(error=Inst(CERR), pending_connection=PENDING, peer_address=ADDR),
    ghost=FUT_GHOST,
    ensures=lambda error, peer_address, ghost, old: [
        implies(ghost.failed > old.ghost.failed, error.transport == BR_EDR and error.peer_address == peer_address),
        implies(error.transport == BR_EDR and error.peer_address == peer_address, ghost.failed == old.ghost.failed + 1),
        ghost.failed <= old.ghost.failed + 1 and ghost.resolved == old.ghost.resolved,
    ],
    ensures_names=['failed-only-by-a-br-edr-failure-for-the-requested-peer', 'that-failure-does-fail-it', 'at-most-once-and-never-resolved'],
    modifies=FUT_MOD,
    native_setup=nat_fix,
)
