"""C14 — both crypto back ends agree with each other and with the specification."""
import random

from bumble import core, crypto, hci, smp
from bumble.crypto import builtin as cb
from bumble.crypto import cryptography as cc
from pyvc import ext_c14  # noqa: F401  (engine extensions: XOR normal form, ...)
from pyvc.contracts import (NATIVE_UF, Any, Bool, Bytes, BytesN, Callback, Const, Inst, Int, IntRange, OneOf, Opt, contract, iff,
                            implies, lemma, model, at, ite, uf, ufb)
from spec.crypto import (AES, CMAC, P256_A, P256_B, P256_P, shift_spec, ah_be, bxor, c1_be, cbc_chain, cmac_rfc, cmac_rfc_any, dbl, e_be, f4_be, f5_be, f6_be, g2_be, h6_be,
                         h7_be, on_p256, rev, s1_be)

ENVIRONMENT = [
    'AES-128 (FIPS-197) and, for the library back end, AES-CMAC are uninterpreted functions: that the `cryptography` '
    'C library and the built-in table-driven _AES (key schedule, S-box rounds) compute FIPS-197 AES is NOT proved (external code / table '
    'arithmetic outside SMT reach); _AES.__init__/_AES.encrypt and the library e/aes_cmac enter as trusted contracts; a seeded native '
    'differential run of both back ends against each other and against the oracle is reported under `bounded`',
    'P-256 group arithmetic (_JacobianPoint double/add, the value of to_affine, ECDH symmetry, the value of the public key, agreement of the VALUES '
    'of the two EccKey classes) is not proved: 256-bit non-linear arithmetic; scalar multiplication and the affine conversion are uninterpreted '
    'functions of their operands (trusted contracts __mul__@group / to_affine@group).  Proved over them: the on-curve gate of the built-in EccKey.dh, '
    'the termination of _JacobianPoint.__mul__, that to_affine reduces its coordinates modulo p, and the byte ENCODINGS: ecdh_shared_secret / '
    'EccKey.dh return exactly the 32-byte big-endian x coordinate (InvalidPacketError exactly for the point at infinity), EccKey.x / .y the 32-byte '
    'big-endian coordinates of key * G, for keys from from_private_key_bytes (big-endian scalar) and generate(); the differential run covers the rest (bounded)',
    'pow(z, -1, p) in to_affine: modelled as "raises ValueError or returns some integer in 0..p-1"; that it never raises for the z that reach it '
    '(p prime, z reduced and non-zero) is number theory outside the solver: the contract on to_affine lists the ValueError, to_affine@group assumes it away',
    'secrets.randbelow(n) returns an arbitrary integer in 0..n-1 (model of the VC generator); a generated scalar 0 (probability 2**-256) gives the '
    'point at infinity, whose published coordinates are 32 zero bytes: the encoding clauses exclude that case explicitly',
    'that the library back end rejects an off-curve point is a property of the `cryptography` package (EllipticCurvePublicNumbers.public_key): '
    'observed in the differential run only',
    'built-in AES-CMAC == RFC 4493 is proved for every message length up to the 2**52 bytes _CMAC accepts and every content, for the one '
    'call pattern aes_cmac uses (_CMAC(key, msg).digest(): one update on a fresh object); incremental update()/digest() sequences '
    '(update after a partial block, update_after_digest) are not covered',
    'the solver sees the XOR of two symbolic bytes as a commutative uninterpreted function; associativity, cancellation and constants are '
    'normalised by the VC generator (pyvc/ext_c14.py) -- part of the trusted checker',
    'secrets.token_bytes returns arbitrary bytes of the requested length (model of the VC generator)',
    '"does not resolve under an unrelated key" is false as a universal statement (24-bit hash) and is not claimed',
]


# real primitives for native replay of the uninterpreted functions
def _aes_native(k, d):
    return cc.e(bytes(k)[::-1], bytes(d)[::-1])[::-1]


NATIVE_UF['aes128'] = _aes_native
NATIVE_UF['aes_cmac'] = lambda k, m: cc.aes_cmac(bytes(m), bytes(k))

# ---------------------------------------------------------------------------
# assumed contracts of the two primitives as the toolbox sees them (module globals e / aes_cmac of
# bumble.crypto, bound to whichever back end was imported): little-endian wrapper of AES, and CMAC
# ---------------------------------------------------------------------------
_E_TARGET = f'{crypto.e.__module__}:e'
_CMAC_TARGET = f'{crypto.aes_cmac.__module__}:aes_cmac'

contract(
    _E_TARGET,
    key=_E_TARGET + '@spec',
    params=dict(key=Bytes, data=Bytes),
    requires=lambda key, data: [len(key) == 16, len(data) == 16],
    result=lambda key, data: rev(e_be(rev(key), rev(data))),
    modifies=[],
    trusted=True,
    note='security function e of the active back end == byte-reversed AES-128 of the byte-reversed arguments (Core Vol 3 Part H 2.2.1); '
    'proved for the built-in back end below (builtin_e), assumed for the library back end',
)
contract(
    _CMAC_TARGET,
    key=_CMAC_TARGET + '@spec',
    params=dict(m=Bytes, k=Bytes),
    requires=lambda m, k: [len(k) == 16],
    result=lambda m, k: CMAC(k, m),
    modifies=[],
    trusted=True,
    note='aes_cmac of the active back end == AES-CMAC (RFC 4493), big-endian; for the built-in back end see builtin_cmac_len*',
)
TOOLBOX = dict(prop='C14', inline=['bumble.crypto:*'], uses=[_E_TARGET + '@spec', _CMAC_TARGET + '@spec'])


# ---------------------------------------------------------------------------
# toolbox functions == the specification's formulas (for every input of the specified lengths)
# ---------------------------------------------------------------------------
def lemma_ah(k, r):
    assert crypto.ah(k, r) == rev(ah_be(rev(k), rev(r)))


lemma('toolbox_ah', lemma_ah, params=dict(k=BytesN(16), r=BytesN(3)), **TOOLBOX)


def lemma_c1(k, r, preq, pres, iat, rat, ia, ra):
    assert crypto.c1(k, r, preq, pres, iat, rat, ia, ra) == rev(c1_be(rev(k), rev(r), rev(preq), rev(pres), iat, rat, rev(ia), rev(ra)))


lemma(
    'toolbox_c1',
    lemma_c1,
    params=dict(k=BytesN(16), r=BytesN(16), preq=BytesN(7), pres=BytesN(7), iat=IntRange(0, 1), rat=IntRange(0, 1), ia=BytesN(6), ra=BytesN(6)),
    **TOOLBOX,
)


def lemma_s1(k, r1, r2):
    assert crypto.s1(k, r1, r2) == rev(s1_be(rev(k), rev(r1), rev(r2)))


lemma('toolbox_s1', lemma_s1, params=dict(k=BytesN(16), r1=BytesN(16), r2=BytesN(16)), **TOOLBOX)


def lemma_f4(u, v, x, z):
    assert crypto.f4(u, v, x, z) == rev(f4_be(rev(u), rev(v), rev(x), z))


lemma('toolbox_f4', lemma_f4, params=dict(u=BytesN(32), v=BytesN(32), x=BytesN(16), z=BytesN(1)), **TOOLBOX)


def lemma_f5(w, n1, n2, a1, a2):
    mac_key, ltk = crypto.f5(w, n1, n2, a1, a2)
    want = f5_be(rev(w), rev(n1), rev(n2), rev(a1), rev(a2))
    assert mac_key == rev(want[0])
    assert ltk == rev(want[1])


lemma('toolbox_f5', lemma_f5, params=dict(w=BytesN(32), n1=BytesN(16), n2=BytesN(16), a1=BytesN(7), a2=BytesN(7)), **TOOLBOX)


def lemma_f6(w, n1, n2, r, io_cap, a1, a2):
    assert crypto.f6(w, n1, n2, r, io_cap, a1, a2) == rev(f6_be(rev(w), rev(n1), rev(n2), rev(r), rev(io_cap), rev(a1), rev(a2)))


lemma(
    'toolbox_f6',
    lemma_f6,
    params=dict(w=BytesN(16), n1=BytesN(16), n2=BytesN(16), r=BytesN(16), io_cap=BytesN(3), a1=BytesN(7), a2=BytesN(7)),
    **TOOLBOX,
)


def lemma_g2(u, v, x, y):
    assert crypto.g2(u, v, x, y) == g2_be(rev(u), rev(v), rev(x), rev(y))


lemma('toolbox_g2', lemma_g2, params=dict(u=BytesN(32), v=BytesN(32), x=BytesN(16), y=BytesN(16)), **TOOLBOX)


def lemma_h6(w, key_id):
    assert crypto.h6(w, key_id) == rev(h6_be(rev(w), key_id))


lemma('toolbox_h6', lemma_h6, params=dict(w=BytesN(16), key_id=BytesN(4)), **TOOLBOX)


def lemma_h7(salt, w):
    assert crypto.h7(salt, w) == rev(h7_be(salt, rev(w)))


lemma('toolbox_h7', lemma_h7, params=dict(salt=BytesN(16), w=BytesN(16)), **TOOLBOX)


def lemma_xor_reverse(x, y):
    z = crypto.xor(x, y)
    assert len(z) == 16
    assert z == bxor(x, y)
    assert crypto.reverse(crypto.reverse(x)) == x
    assert crypto.reverse(x)[0] == x[15] and crypto.reverse(x)[15] == x[0]


lemma('toolbox_xor_reverse', lemma_xor_reverse, params=dict(x=BytesN(16), y=BytesN(16)), **TOOLBOX)


def lemma_prand():
    # (repeated: the native replay of a counter-model draws real random bytes)
    for _ in range(16):
        p = crypto.generate_prand()
        assert len(p) == 3
        assert p[2] // 64 == 1  # two most significant bits 0b01: resolvable private address


lemma('toolbox_generate_prand', lemma_prand, params={}, **TOOLBOX)

# ---------------------------------------------------------------------------
# built-in back end: e and AES-CMAC over the (uninterpreted) block cipher _AES
# ---------------------------------------------------------------------------
model('bumble.crypto.builtin:_AES', fields=dict(k=Bytes))
contract(
    'bumble.crypto.builtin:_AES.__init__',
    key='bumble.crypto.builtin:_AES.__init__@spec',
    params=dict(self=Inst('bumble.crypto.builtin:_AES'), key=Bytes),
    requires=lambda key: len(key) == 16,
    assigns={'self.k': lambda key: key},
    modifies=['self.k'],
    trusted=True,
    note='_AES(key) is the FIPS-197 cipher under `key` (key schedule not re-derived)',
)
contract(
    'bumble.crypto.builtin:_AES.encrypt',
    key='bumble.crypto.builtin:_AES.encrypt@spec',
    params=dict(self=Inst('bumble.crypto.builtin:_AES'), plaintext=Bytes),
    requires=lambda plaintext: len(plaintext) == 16,
    result=lambda self, plaintext: AES(self.k, plaintext),
    modifies=[],
    trusted=True,
    note='_AES.encrypt(block) == AES-128(key, block) (table-driven rounds not re-derived; differential run under `bounded`)',
)
BUILTIN = dict(
    prop='C14',
    inline=['bumble.crypto.builtin:e', 'bumble.crypto.builtin:aes_cmac', '_ECB.*', '_CBC.*', '_CMAC.*', 'bumble.crypto.builtin:_xor', 'bumble.crypto.builtin:_shift_bytes'],
    uses=['bumble.crypto.builtin:_AES.__init__@spec', 'bumble.crypto.builtin:_AES.encrypt@spec'],
)


def lemma_builtin_e(key, data):
    assert cb.e(key, data) == rev(e_be(rev(key), rev(data)))


lemma('builtin_e', lemma_builtin_e, params=dict(key=BytesN(16), data=BytesN(16)), **BUILTIN)


def lemma_shift_bytes(b, c):
    # the 128-bit left shift of RFC 4493's sub-key derivation as the built-in CMAC performs it
    # (big integer arithmetic), byte by byte: out[j] = low 8 bits of 2*b[j], plus the top bit of b[j+1]
    out = cb._shift_bytes(b, c)
    assert len(out) == 16
    for j in range(15):
        assert out[j] == (2 * b[j]) % 256 + b[j + 1] // 128
    assert out[15] == ((2 * b[15]) % 256) ^ c
    assert out == shift_spec(b, c)


lemma('builtin_shift_bytes', lemma_shift_bytes, prop='C14', params=dict(b=BytesN(16), c=OneOf(0, 0x87)), inline=['bumble.crypto.builtin:_shift_bytes'])

# ... which is then used as the contract of _shift_bytes inside the CMAC lemmas
contract(
    'bumble.crypto.builtin:_shift_bytes',
    key='bumble.crypto.builtin:_shift_bytes@spec',
    params=dict(bs=Bytes, xor_lsb=Int),
    requires=lambda bs, xor_lsb: [len(bs) == 16, xor_lsb == 0 or xor_lsb == 0x87],
    result=lambda bs, xor_lsb: shift_spec(bs, xor_lsb),
    modifies=[],
    trusted=True,
    note='proved by the lemma builtin_shift_bytes (same statement: result == shift_spec(bs, xor_lsb) for both constants)',
)
BUILTIN['inline'] = [p for p in BUILTIN['inline'] if not p.endswith('_shift_bytes')]
BUILTIN['uses'] = BUILTIN['uses'] + ['bumble.crypto.builtin:_shift_bytes@spec']


# --- _CBC.encrypt: CBC chaining over a whole number of blocks (block loop: invariant over cbc_chain)
model('bumble.crypto.builtin:_CBC', fields=dict(_last_cipher_block=BytesN(16), _aes=Inst('bumble.crypto.builtin:_AES')))


def cbc_encrypt_post(self, plaintext, res, old):
    k, iv = self._aes.k, old.self._last_cipher_block
    out = [len(res) == len(plaintext), self._last_cipher_block == cbc_chain(k, iv, plaintext)]
    if len(plaintext) >= 16:
        # the last ciphertext block is the chaining value after all blocks ...
        out.append(res[len(res) - 16 :] == cbc_chain(k, iv, plaintext))
    if len(plaintext) >= 32:
        # ... and the one before it the chaining value after all blocks but the last
        out.append(res[len(res) - 32 : len(res) - 16] == cbc_chain(k, iv, plaintext[: len(plaintext) - 16]))
    return out


def cbc_encrypt_inv(self, plaintext, cipher_text, _it, old):
    k, iv = self._aes.k, old.self._last_cipher_block
    out = [
        0 <= _it,
        _it % 16 == 0,
        _it <= len(plaintext),
        len(cipher_text) == _it,
        self._last_cipher_block == cbc_chain(k, iv, plaintext[:_it]),
    ]
    if _it >= 16:
        out.append(cipher_text[len(cipher_text) - 16 :] == cbc_chain(k, iv, plaintext[:_it]))
    if _it >= 32:
        out.append(cipher_text[len(cipher_text) - 32 : len(cipher_text) - 16] == cbc_chain(k, iv, plaintext[: _it - 16]))
    return out


contract(
    'bumble.crypto.builtin:_CBC.encrypt',
    prop='C14',
    params=dict(self=Inst('bumble.crypto.builtin:_CBC'), plaintext=Bytes),
    requires=lambda self, plaintext: [len(self._aes.k) == 16, len(plaintext) % 16 == 0],
    returns=Bytes,
    ensures=cbc_encrypt_post,
    modifies=['self._last_cipher_block'],
    invariants={0: cbc_encrypt_inv},
    decreases={0: lambda plaintext, _it: len(plaintext) - _it},
    inline=['bumble.crypto.builtin:_xor'],
    uses=['bumble.crypto.builtin:_AES.encrypt@spec'],
    note='any number of blocks: after the loop the chaining value is cbc_chain(key, iv, plaintext) (RFC 4493 2.4 step 6)',
)

# --- _CMAC._update: one call of the CBC layer on block-aligned data; keeps the last ciphertext block and
#     the last plaintext block XOR the ciphertext block before it (what digest() needs for a complete last block)
model(
    'bumble.crypto.builtin:_CMAC',
    fields=dict(_block_size=Const(16), _cbc=Inst('bumble.crypto.builtin:_CBC'), _last_ct=BytesN(16), _last_pt=Any),
)


def update_last_ct(self, data_block, old):
    if len(data_block) == 0:
        return old.self._last_ct
    return cbc_chain(self._cbc._aes.k, old.self._last_ct, data_block)


def update_last_pt(self, data_block, old):
    if len(data_block) == 0:
        return old.self._last_pt
    return bxor(cbc_chain(self._cbc._aes.k, old.self._last_ct, data_block[: len(data_block) - 16]), data_block[len(data_block) - 16 :])


contract(
    'bumble.crypto.builtin:_CMAC._update',
    prop='C14',
    params=dict(self=Inst('bumble.crypto.builtin:_CMAC'), data_block=Bytes),
    # representation invariant of _CMAC: _last_ct is the chaining value of the CBC layer
    requires=lambda self, data_block: [len(self._cbc._aes.k) == 16, len(data_block) % 16 == 0, self._last_ct == self._cbc._last_cipher_block],
    assigns={'self._last_ct': update_last_ct, 'self._last_pt': update_last_pt},
    ensures=lambda self: [self._cbc._last_cipher_block == self._last_ct],
    modifies=['self._last_ct', 'self._last_pt', 'self._cbc._last_cipher_block'],
    uses=['bumble.crypto.builtin:_CBC.encrypt'],
    inline=['bumble.crypto.builtin:_xor'],
    note='block-aligned data of any length',
)

BUILTIN_ANY = dict(BUILTIN)
BUILTIN_ANY['inline'] = [p for p in BUILTIN['inline'] if p != '_CBC.*'] + ['_CBC.__init__']
BUILTIN_ANY['uses'] = BUILTIN['uses'] + ['bumble.crypto.builtin:_CMAC._update']


def lemma_builtin_cmac_any(head, tail, k):
    # every message is head || tail with head a whole number of blocks and 0 <= len(tail) <= 15
    m = head + tail
    assert cb.aes_cmac(m, k) == cmac_rfc_any(k, m)


lemma(
    'builtin_cmac_any_length',
    lemma_builtin_cmac_any,
    params=dict(head=Bytes, tail=OneOf(*[BytesN(r) for r in range(16)]), k=BytesN(16)),
    # _CMAC refuses more than 2**48 blocks (InvalidArgumentError in digest)
    requires=lambda head, tail: [len(head) % 16 == 0, len(head) + len(tail) <= 16 * 2**48],
    note='built-in AES-CMAC == RFC 4493 for every message length (case split on len mod 16; the block loop is '
    'covered by the loop invariant of _CBC.encrypt) and every content, AES-128 uninterpreted',
    **BUILTIN_ANY,
)


def lemma_cbc_chain_unfold(k, iv, a, b, c):
    # the recursive definition of cbc_chain, spelled out for 0, 1, 2 and 3 blocks (sanity of the definition)
    assert cbc_chain(k, iv, b'') == iv
    assert cbc_chain(k, iv, a) == AES(k, bxor(iv, a))
    assert cbc_chain(k, iv, a + b) == AES(k, bxor(AES(k, bxor(iv, a)), b))
    assert cbc_chain(k, iv, a + b + c) == AES(k, bxor(AES(k, bxor(AES(k, bxor(iv, a)), b)), c))


lemma('spec_cbc_chain_unfolds', lemma_cbc_chain_unfold, prop='C14', params=dict(k=BytesN(16), iv=BytesN(16), a=BytesN(16), b=BytesN(16), c=BytesN(16)))


def lemma_builtin_cmac(m, k):
    assert cb.aes_cmac(m, k) == cmac_rfc(k, m)
    # the two forms of the specification (loop of RFC 4493 unrolled / recursive cbc_chain) agree at this length
    assert cmac_rfc(k, m) == cmac_rfc_any(k, m)


# bounded cross-check of the general lemma against the *unrolled* RFC 4493 algorithm at the block
# boundaries (never counted as a proof for other lengths)
CMAC_LENGTHS = [0, 1, 15, 16, 17, 31, 32, 33]
for _n in CMAC_LENGTHS:
    lemma(
        f'builtin_cmac_len{_n:02d}',
        lemma_builtin_cmac,
        params=dict(m=BytesN(_n), k=BytesN(16)),
        note=f'BOUNDED stand-in (message length {_n} only, all contents and keys): built-in aes_cmac == the unrolled loop of RFC 4493 == the recursive form used by builtin_cmac_any_length',
        **BUILTIN,
    )


# ---------------------------------------------------------------------------
# ECDH: a peer public key that is not a point of P-256 yields no shared secret (built-in back end)
# ---------------------------------------------------------------------------
P256 = cb._EllipticCurve.SECP256R1()
assert (P256.p, P256.a, P256.b) == (P256_P, P256_A, P256_B)  # the curve constants of the code are those of FIPS 186-4 D.1.2.3
model('bumble.crypto.builtin:_JacobianPoint#G', fields=dict(curve=Any, x=Const(P256.g_x), y=Const(P256.g_y), z=Const(1)))
model(
    'bumble.crypto.builtin:_EllipticCurve',
    fields=dict(
        p=Const(P256_P), a=Const(P256_A), b=Const(P256_B), n=Const(P256.n), g_x=Const(P256.g_x), g_y=Const(P256.g_y),
        _generator_jacobian=Inst('bumble.crypto.builtin:_JacobianPoint#G'),
    ),
)
model('bumble.crypto.builtin:_EllipticCurve.PrivateKey', fields=dict(key=Int, curve=Inst('bumble.crypto.builtin:_EllipticCurve')))
model('bumble.crypto.builtin:EccKey', fields=dict(private_key=Inst('bumble.crypto.builtin:_EllipticCurve.PrivateKey')))
# --- the group arithmetic stays uninterpreted: scalar multiplication and the conversion to affine coordinates are
#     pure functions of the coordinates (real code behind them natively), so that the *encoding* of what they
#     return can be specified exactly
def _mul_native(i):
    def f(x, y, z, k):
        r = cb._JacobianPoint(P256, x, y, z) * k
        return (r.x, r.y, r.z)[i]

    return f


def _affine_native(i):
    def f(x, y, z):
        r = cb._JacobianPoint(P256, x, y, z).to_affine()
        return (r.x, r.y)[i]

    return f


NATIVE_UF['p256_mul_x'], NATIVE_UF['p256_mul_y'], NATIVE_UF['p256_mul_z'] = _mul_native(0), _mul_native(1), _mul_native(2)
NATIVE_UF['p256_affine_x'], NATIVE_UF['p256_affine_y'] = _affine_native(0), _affine_native(1)
model('bumble.crypto.builtin:_JacobianPoint', fields=dict(curve=Inst('bumble.crypto.builtin:_EllipticCurve'), x=Int, y=Int, z=Int))
model('bumble.crypto.builtin:_Point', fields=dict(curve=Inst('bumble.crypto.builtin:_EllipticCurve'), x=Int, y=Int, infinite=Bool))
contract(
    'bumble.crypto.builtin:_JacobianPoint.__mul__',
    key='bumble.crypto.builtin:_JacobianPoint.__mul__@group',
    params=dict(self=Inst('bumble.crypto.builtin:_JacobianPoint'), k=Int),
    returns=Inst('bumble.crypto.builtin:_JacobianPoint'),
    ensures=lambda self, k, res: [
        res.x == uf('p256_mul_x', self.x, self.y, self.z, k),
        res.y == uf('p256_mul_y', self.x, self.y, self.z, k),
        res.z == uf('p256_mul_z', self.x, self.y, self.z, k),
    ],
    modifies=[],
    trusted=True,
    note='scalar multiplication: SOME point that is a function of the operand coordinates and the scalar (uninterpreted; the group '
    'law is not proved: 256-bit non-linear arithmetic; termination is proved by the contract on __mul__ below)',
)


def affine_of(x, y, z):
    """(x, y) of the affine point a Jacobian point (x, y, z), z != 0, converts to"""
    return (uf('p256_affine_x', x, y, z), uf('p256_affine_y', x, y, z))


contract(
    'bumble.crypto.builtin:_JacobianPoint.to_affine',
    key='bumble.crypto.builtin:_JacobianPoint.to_affine@group',
    params=dict(self=Inst('bumble.crypto.builtin:_JacobianPoint')),
    requires=lambda self: [self.curve.p == P256_P],
    returns=Inst('bumble.crypto.builtin:_Point'),
    ensures=lambda self, res: [
        res.infinite == (self.z == 0),
        implies(self.z != 0, res.x == affine_of(self.x, self.y, self.z)[0] and res.y == affine_of(self.x, self.y, self.z)[1]),
        implies(self.z == 0, res.x == 0 and res.y == 0),
        0 <= res.x and res.x < P256_P and 0 <= res.y and res.y < P256_P,
    ],
    modifies=[],
    trusted=True,
    note='names the affine coordinates as (uninterpreted) functions of the Jacobian ones; the other clauses (infinite iff z == 0, '
    'coordinates reduced modulo p, (0, 0) for the point at infinity) are the statement PROVED by the contract on to_affine below; '
    'assumes pow(z, -1, p) does not raise for the z that reach it (p prime, z reduced and non-zero: number theory not proved)',
)
contract(
    'bumble.crypto.builtin:_JacobianPoint.to_affine',
    prop='C14',
    params=dict(self=Inst('bumble.crypto.builtin:_JacobianPoint')),
    ensures=lambda self, res: [
        res.infinite == (self.z == 0),
        implies(self.z == 0, res.x == 0 and res.y == 0),
        0 <= res.x and res.x < P256_P and 0 <= res.y and res.y < P256_P,
    ],
    ensures_names=['infinite-iff-z-is-zero', 'infinity-has-zero-coordinates', 'coordinates-reduced-mod-p'],
    # pow(z, -1, p) raises ValueError for a z without inverse: impossible for the prime p and a reduced z != 0,
    # which is number theory outside the reach of the solver -- listed, not excluded
    raises={ValueError: lambda self: [self.z != 0]},
    modifies=[],
    inline=['_Point.__init__'],
    note='whatever the modular inverse is, the affine coordinates handed to the byte encoders are in 0..p-1 (so 32 bytes always suffice)',
)


def ecdh_x(private_key, px, py):
    """x coordinate of private_key * (px, py) as the built-in back end computes it (uninterpreted group arithmetic)"""
    mx, my, mz = (uf('p256_mul_x', px, py, 1, private_key), uf('p256_mul_y', px, py, 1, private_key), uf('p256_mul_z', px, py, 1, private_key))
    return affine_of(mx, my, mz)[0]


def ecdh_is_infinity(private_key, px, py):
    return uf('p256_mul_z', px, py, 1, private_key) == 0


def is_be32(b, v):
    """b is THE 32-byte big-endian encoding of the integer v (what the `cryptography` back end returns for a
    coordinate / shared secret: int.to_bytes(32, 'big'), leading zero bytes included)"""
    return len(b) == 32 and int.from_bytes(b, 'big') == v


contract(
    'bumble.crypto.builtin:_EllipticCurve.ecdh_shared_secret',
    prop='C14',
    params=dict(self=Inst('bumble.crypto.builtin:_EllipticCurve'), private_key=Int, other_public_key=Inst('bumble.crypto.builtin:_Point')),
    requires=lambda other_public_key: [not other_public_key.infinite, other_public_key.curve.p == P256_P],
    returns=BytesN(32),  # (call sites: a fresh 32-byte string constrained by `ensures`; the length is the proved clause secret-is-32-bytes)
    ensures=lambda self, private_key, other_public_key, res: [
        len(res) == 32,
        is_be32(res, ecdh_x(private_key, other_public_key.x, other_public_key.y)),
        not ecdh_is_infinity(private_key, other_public_key.x, other_public_key.y),
    ],
    ensures_names=['secret-is-32-bytes', 'secret-is-big-endian-x-coordinate', 'not-the-point-at-infinity'],
    raises={core.InvalidPacketError: lambda private_key, other_public_key: [ecdh_is_infinity(private_key, other_public_key.x, other_public_key.y)]},
    modifies=[],
    uses=['bumble.crypto.builtin:_JacobianPoint.__mul__@group', 'bumble.crypto.builtin:_JacobianPoint.to_affine@group'],
    inline=['_JacobianPoint.from_affine', '_JacobianPoint.__init__', '_JacobianPoint.point_at_infinity'],
    note='byte encoding of the ECDH result, for ANY integer the (uninterpreted) point multiplication / affine conversion return in 0..p-1: '
    'exactly its 32-byte big-endian encoding, as the `cryptography` back end returns it; InvalidPacketError exactly for the point at infinity',
)
contract(
    'bumble.crypto.builtin:_EllipticCurve.generate_public_key',
    prop='C14',
    params=dict(self=Inst('bumble.crypto.builtin:_EllipticCurve'), private_key=Int),
    requires=lambda self: [self.p == P256_P, self._generator_jacobian.x == P256.g_x, self._generator_jacobian.y == P256.g_y, self._generator_jacobian.z == 1],
    returns=Inst('bumble.crypto.builtin:_Point'),
    ensures=lambda self, private_key, res: [
        res.infinite == public_is_infinity(private_key),
        implies(not res.infinite, res.x == public_xy(private_key)[0] and res.y == public_xy(private_key)[1]),
        implies(res.infinite, res.x == 0 and res.y == 0),
        0 <= res.x and res.x < P256_P and 0 <= res.y and res.y < P256_P,
    ],
    ensures_names=['infinite-iff-multiple-is', 'is-the-named-multiple-of-G', 'infinity-has-zero-coordinates', 'coordinates-reduced-mod-p'],
    modifies=[],
    uses=['bumble.crypto.builtin:_JacobianPoint.__mul__@group', 'bumble.crypto.builtin:_JacobianPoint.to_affine@group'],
    note='public point = to_affine(private_key * G) with G the generator of FIPS 186-4 D.1.2.3 (group arithmetic uninterpreted)',
)


def public_xy(private_key):
    """affine coordinates of private_key * G as the built-in back end computes them (uninterpreted group arithmetic)"""
    g = (P256.g_x, P256.g_y, 1)
    return affine_of(uf('p256_mul_x', g[0], g[1], g[2], private_key), uf('p256_mul_y', g[0], g[1], g[2], private_key), uf('p256_mul_z', g[0], g[1], g[2], private_key))


def public_is_infinity(private_key):
    return uf('p256_mul_z', P256.g_x, P256.g_y, 1, private_key) == 0


def peer_point_on_curve(public_key_x, public_key_y):
    return on_p256(int.from_bytes(public_key_x, 'big'), int.from_bytes(public_key_y, 'big'))


def dh_x(self, public_key_x, public_key_y):
    return ecdh_x(self.private_key.key, int.from_bytes(public_key_x, 'big'), int.from_bytes(public_key_y, 'big'))


contract(
    'bumble.crypto.builtin:EccKey.dh',
    prop='C14',
    params=dict(self=Inst('bumble.crypto.builtin:EccKey'), public_key_x=BytesN(32), public_key_y=BytesN(32)),
    returns=BytesN(32),
    # from the statement: a shared secret is produced only for a point of the curve; it has the form the library
    # back end gives it: the 32-byte big-endian x coordinate of the shared point ...
    ensures=lambda self, public_key_x, public_key_y, res: [
        peer_point_on_curve(public_key_x, public_key_y),
        len(res) == 32,
        is_be32(res, dh_x(self, public_key_x, public_key_y)),
    ],
    ensures_names=['secret-only-for-on-curve-point', 'secret-is-32-bytes', 'secret-is-big-endian-x-coordinate'],
    # ... and a point that is not on the curve is rejected the way the library back end rejects it
    # (InvalidPacketError is a subclass of ValueError: listed first so that it is matched first)
    raises={
        core.InvalidPacketError: None,  # point at infinity: also a rejection, whatever the point was
        ValueError: lambda public_key_x, public_key_y: [not peer_point_on_curve(public_key_x, public_key_y)],
    },
    modifies=[],
    uses=['bumble.crypto.builtin:_EllipticCurve.ecdh_shared_secret'],
    inline=['_Point.__init__', '_EllipticCurve.is_on_curve'],
    note='the key is on SECP256R1, the only curve EccKey.generate / from_private_key_bytes construct (class model: constants of '
    '_EllipticCurve.SECP256R1()); ValueError is what the library back end raises for an invalid point '
    '(EllipticCurvePublicNumbers.public_key)',
)

# --- the public key as the two back ends publish it: EccKey.x / EccKey.y are 32 bytes, big-endian
for _c in ('x', 'y'):
    contract(
        f'bumble.crypto.builtin:EccKey.{_c}',
        prop='C14',
        params=dict(self=Inst('bumble.crypto.builtin:EccKey')),
        returns=BytesN(32),
        ensures=(lambda i: lambda self, res: [
            len(res) == 32,
            implies(not public_is_infinity(self.private_key.key), is_be32(res, public_xy(self.private_key.key)[i])),
        ])(('x', 'y').index(_c)),
        ensures_names=['coordinate-is-32-bytes', 'coordinate-is-big-endian'],
        modifies=[],
        uses=['bumble.crypto.builtin:_EllipticCurve.generate_public_key'],
        note=f'EccKey.{_c} (functools.cached_property: the function behind it) == 32-byte big-endian encoding of the {_c} coordinate of key * G',
    )


ECC_LEMMA = dict(
    prop='C14',
    uses=['bumble.crypto.builtin:EccKey.x', 'bumble.crypto.builtin:EccKey.y', 'bumble.crypto.builtin:EccKey.dh'],
    inline=['EccKey.from_private_key_bytes', 'EccKey.generate', 'EccKey.__init__', '_EllipticCurve.SECP256R1', '_EllipticCurve.generate_private_key', '_EllipticCurve.__post_init__', '_EllipticCurve.__init__', '_EllipticCurve.PrivateKey.__init__', '_JacobianPoint.__init__'],
)


def public_key_is_encoded(key):
    d = key.private_key.key
    kx, ky = key.x, key.y
    assert len(kx) == 32 and len(ky) == 32, 'public-key-is-two-32-byte-strings'
    assert implies(not public_is_infinity(d), int.from_bytes(kx, 'big') == public_xy(d)[0]), 'x-is-big-endian'
    assert implies(not public_is_infinity(d), int.from_bytes(ky, 'big') == public_xy(d)[1]), 'y-is-big-endian'


def lemma_ecc_key_from_bytes(d_bytes):
    key = cb.EccKey.from_private_key_bytes(d_bytes)
    assert key.private_key.key == int.from_bytes(d_bytes, 'big'), 'scalar-is-big-endian'
    public_key_is_encoded(key)


def lemma_ecc_key_generated():
    key = cb.EccKey.generate()
    assert 0 <= key.private_key.key and key.private_key.key < P256_N, 'scalar-below-group-order'
    public_key_is_encoded(key)


lemma('ecc_key_from_bytes_public_encoding', lemma_ecc_key_from_bytes, params=dict(d_bytes=BytesN(32)), note='EccKey.from_private_key_bytes(d): big-endian scalar; x and y are the 32-byte big-endian encodings of the (uninterpreted) coordinates of d * G', **ECC_LEMMA)
lemma('ecc_key_generated_public_encoding', lemma_ecc_key_generated, params={}, note='EccKey.generate(): scalar in 0..n-1 (secrets.randbelow), x and y 32 bytes big-endian', **ECC_LEMMA)


# --- scalar multiplication: termination of the double-and-add loop only (no arithmetic claim)
for _m in ('__add__', 'double'):
    contract(
        f'bumble.crypto.builtin:_JacobianPoint.{_m}',
        key=f'bumble.crypto.builtin:_JacobianPoint.{_m}@opaque',
        params=dict(self=Inst('bumble.crypto.builtin:_JacobianPoint'), other=Inst('bumble.crypto.builtin:_JacobianPoint')) if _m == '__add__' else dict(self=Inst('bumble.crypto.builtin:_JacobianPoint')),
        returns=Inst('bumble.crypto.builtin:_JacobianPoint'),
        modifies=[],
        trusted=True,
        note='group law: opaque (returns some point, total, no side effect); not proved -- 256-bit non-linear arithmetic',
    )
contract(
    'bumble.crypto.builtin:_JacobianPoint.__mul__',
    prop='C14',
    params=dict(self=Inst('bumble.crypto.builtin:_JacobianPoint'), k=Int),
    invariants={0: lambda k: True},
    decreases={0: lambda k: k},
    modifies=[],
    uses=['bumble.crypto.builtin:_JacobianPoint.__add__@opaque', 'bumble.crypto.builtin:_JacobianPoint.double@opaque'],
    inline=['_JacobianPoint.point_at_infinity', '_JacobianPoint.__init__'],
    note='termination of double-and-add for every scalar (variant k); the value computed is NOT specified',
)


# ---------------------------------------------------------------------------
# resolvable private addresses: generated under an IRK => resolvable, and resolves under that IRK
# ---------------------------------------------------------------------------
IDENTITY = hci.Address('C4:F2:17:1A:1D:BB', hci.Address.PUBLIC_DEVICE_ADDRESS)
IDENTITY_RANDOM = hci.Address('F4:F2:17:1A:1D:BB', hci.Address.RANDOM_DEVICE_ADDRESS)


def lemma_rpa(irk, other_irk):
    a = hci.Address.generate_private_address(irk)
    assert a.address_type == hci.Address.RANDOM_DEVICE_ADDRESS
    assert a.is_resolvable
    assert len(bytes(a)) == 6
    # the hash part is ah(irk, prand) of the prand part
    assert bytes(a)[0:3] == rev(ah_be(rev(irk), rev(bytes(a)[3:6])))
    r = smp.AddressResolver([(irk, IDENTITY)]).resolve(a)
    assert r is not None
    assert r.address_bytes == IDENTITY.address_bytes and r.is_public
    # also when other keys are tried first or last, and for a random identity address
    r2 = smp.AddressResolver([(other_irk, IDENTITY), (irk, IDENTITY_RANDOM)]).resolve(a)
    assert r2 is not None
    assert implies(ah_be(rev(other_irk), rev(bytes(a)[3:6])) != ah_be(rev(irk), rev(bytes(a)[3:6])), r2.address_bytes == IDENTITY_RANDOM.address_bytes and not r2.is_public)


lemma(
    'rpa_generated_address_resolves',
    lemma_rpa,
    prop='C14',
    params=dict(irk=BytesN(16), other_irk=BytesN(16)),
    inline=['bumble.crypto:*', 'Address.*', 'AddressResolver.*'],
    uses=[_E_TARGET + '@spec'],
)


def lemma_nrpa():
    a = hci.Address.generate_private_address(b'')
    assert not a.is_resolvable and not a.is_static
    assert bytes(a)[5] // 64 == 0  # two most significant bits 0b00: non-resolvable private address
    s = hci.Address.generate_static_address()
    assert s.is_static and bytes(s)[5] // 64 == 3


lemma('private_address_kinds', lemma_nrpa, prop='C14', params={}, inline=['bumble.crypto:*', 'Address.*'])


# ---------------------------------------------------------------------------
# BOUNDED stand-in (never counted as proved): seeded native run of the two back ends against each other and
# against the oracle of spec/crypto.py (with the real AES behind the uninterpreted functions).  This is the
# only check in which the `cryptography` library, the table-driven _AES and the P-256 group arithmetic take
# part: they are outside the reach of the contracts (external C code / S-box tables / 256-bit non-linear
# arithmetic).  quick tier: a smoke run; thorough tier: the run of DESIGN.md (N = 2000).
# ---------------------------------------------------------------------------
RFC4493_KEY = bytes.fromhex('2b7e151628aed2a6abf7158809cf4f3c')
RFC4493_MSG = bytes.fromhex('6bc1bee22e409f96e93d7e117393172aae2d8a571e03ac9c9eb76fac45af8e5130c81c46a35ce411e5fbc1191a0a52eff69f2445df4f9b17ad2b417be66c3710')
RFC4493_MACS = {0: 'bb1d6929e95937287fa37d129b756746', 16: '070a16b46b4d4144f79bdd9dd04a287c', 40: 'dfa66747de9ae63030ca32611497c827', 64: '51f0bebf7e3b9d92fc49741779363cfe'}
P256_N = P256.n


def differential(top, out, tier, seed):
    from unittest import mock

    n = 40 if tier == 'quick' else 2000
    rnd = random.Random(1000 + seed)
    bad = []

    def rb(k):
        return bytes(rnd.randrange(256) for _ in range(k))

    # RFC 4493 test vectors: both back ends and both forms of the oracle
    for ln, mac in RFC4493_MACS.items():
        m = RFC4493_MSG[:ln]
        got = {'builtin': cb.aes_cmac(m, RFC4493_KEY), 'cryptography': cc.aes_cmac(m, RFC4493_KEY), 'cmac_rfc': cmac_rfc(RFC4493_KEY, m), 'cmac_rfc_any': cmac_rfc_any(RFC4493_KEY, m)}
        for who, v in got.items():
            if v.hex() != mac:
                bad.append(('rfc4493 vector', who, ln))
    lengths = list(range(0, 81)) + [95, 96, 97, 127, 128, 129, 255, 256, 257]
    for i in range(n):
        k, d = rb(16), rb(16)
        if not (cb.e(k, d) == cc.e(k, d) == rev(e_be(rev(k), rev(d)))):
            bad.append(('e', k.hex(), d.hex()))
        m = rb(lengths[i % len(lengths)])
        if not (cb.aes_cmac(m, k) == cc.aes_cmac(m, k) == cmac_rfc_any(k, m)):
            bad.append(('aes_cmac', k.hex(), m.hex()))
    # every Security Manager function under either back end (module globals patched as tests/smp_test.py does)
    n_sm = 4 if tier == 'quick' else 200
    for i in range(n_sm):
        a = dict(k=rb(16), r=rb(16), preq=rb(7), pres=rb(7), iat=rnd.randrange(2), rat=rnd.randrange(2), ia=rb(6), ra=rb(6), u=rb(32), v=rb(32), x=rb(16), z=rb(1), w=rb(32), n1=rb(16), n2=rb(16), a1=rb(7), a2=rb(7), io=rb(3), kid=rb(4), r3=rb(3))
        res = []
        for backend in (cb, cc):
            with mock.patch.object(crypto, 'e', backend.e), mock.patch.object(crypto, 'aes_cmac', backend.aes_cmac):
                res.append((
                    crypto.ah(a['k'], a['r3']), crypto.c1(a['k'], a['r'], a['preq'], a['pres'], a['iat'], a['rat'], a['ia'], a['ra']), crypto.s1(a['k'], a['r'], a['x']),
                    crypto.f4(a['u'], a['v'], a['x'], a['z']), crypto.f5(a['w'], a['n1'], a['n2'], a['a1'], a['a2']), crypto.f6(a['k'], a['n1'], a['n2'], a['r'], a['io'], a['a1'], a['a2']),
                    crypto.g2(a['u'], a['v'], a['x'], a['r']), crypto.h6(a['k'], a['kid']), crypto.h7(a['r'], a['k']),
                ))
        if res[0] != res[1]:
            bad.append(('security manager function', {k_: (v_.hex() if isinstance(v_, bytes) else v_) for k_, v_ in a.items()}))
    # ECC: public key derivation, ECDH symmetry, boundary scalars, invalid points
    n_ecc = 4 if tier == 'quick' else 60
    scalars = [(1).to_bytes(32, 'big'), (2).to_bytes(32, 'big'), (P256_N - 1).to_bytes(32, 'big'), (P256_N - 2).to_bytes(32, 'big')]
    pairs = [(scalars[0], scalars[2]), (scalars[1], scalars[3])] + [(rb(32), rb(32)) for _ in range(n_ecc)]
    for d1, d2 in pairs:
        if not (0 < int.from_bytes(d1, 'big') < P256_N and 0 < int.from_bytes(d2, 'big') < P256_N):
            continue
        a1, a2 = cb.EccKey.from_private_key_bytes(d1), cc.EccKey.from_private_key_bytes(d1)
        b1, b2 = cb.EccKey.from_private_key_bytes(d2), cc.EccKey.from_private_key_bytes(d2)
        if (a1.x, a1.y) != (a2.x, a2.y) or (b1.x, b1.y) != (b2.x, b2.y):
            bad.append(('public key', d1.hex(), d2.hex()))
        if not on_p256(int.from_bytes(a1.x, 'big'), int.from_bytes(a1.y, 'big')):
            bad.append(('public key not on the curve', d1.hex()))
        sec = []
        for key, peer in ((a1, b1), (a2, b2), (b1, a1), (b2, a2)):
            try:
                sec.append(key.dh(peer.x, peer.y))
            except ValueError as e:  # the point at infinity (d1 * d2 = 0 mod n): both must refuse
                sec.append(type(e).__name__ if not isinstance(e, core.InvalidPacketError) else 'ValueError')
        if len(set(sec)) != 1:
            bad.append(('ecdh', d1.hex(), d2.hex(), [s_ if isinstance(s_, str) else s_.hex() for s_ in sec]))
    n_bad_pts = 6 if tier == 'quick' else 200
    for i in range(n_bad_pts):
        d1 = (rnd.randrange(1, P256_N)).to_bytes(32, 'big')
        px, py = ((0, 0), (5, 7), (P256.g_x, P256.g_y ^ 1))[i] if i < 3 else (rnd.randrange(1 << 256), rnd.randrange(1 << 256))
        outcome = []
        for backend in (cb, cc):
            try:
                outcome.append(backend.EccKey.from_private_key_bytes(d1).dh(px.to_bytes(32, 'big'), py.to_bytes(32, 'big')).hex())
            except ValueError:
                outcome.append('ValueError')
        if outcome[0] != outcome[1] or (not on_p256(px, py) and outcome[0] != 'ValueError'):
            bad.append(('invalid public key', hex(px), hex(py), outcome))
    out['kind'] = 'bounded'
    out['paths'] = 0
    out['sha'] = ''
    out['bounded'] = [
        {
            'what': 'native differential run, built-in vs cryptography back end vs the oracle of spec/crypto.py: e, aes_cmac (RFC 4493 vectors, message '
            'lengths 0..80 and around 96/128/256), ah/c1/s1/f4/f5/f6/g2/h6/h7 under either back end, public key derivation, ECDH symmetry '
            '(incl. scalars 1, 2, n-1, n-2), rejection of off-curve points by both back ends',
            'bound': f'{n} seeded random inputs for e/aes_cmac, {n_sm} for the Security Manager functions, {len(pairs)} key pairs, {n_bad_pts} invalid points (seed {1000 + seed})',
            'disagreements': [repr(b)[:300] for b in bad[:5]],
        }
    ]
    # reported as one obligation that is *not* a proof: it only fails when a disagreement was observed
    out['names']['C14/differential/bounded-agreement'] = {
        'kind': 'bounded', 'n': 1, 'proved': 0 if bad else 1, 'refuted': 1 if bad else 0, 'unknown': 0, 'vacuous': 0, 'disagree': 0,
        'time': 0.0, 'max_time': 0.0, 'backends': {'native-differential': 1}, 'abstracted': False, 'expect_sat': False, 'loc': 'differential',
        'details': [], 'witnesses': [{'loc': 'differential', 'decisions': [], 'info': {}, 'solver': 'native', 'detail': repr(bad[:3])[:600], 'replay': {'outcome': 'violated', 'confirms': True, 'failed': [repr(bad[:3])[:600]]}}] if bad else [],
    }
    return out


lemma('backend_differential', lambda: None, prop='C14', params={}, custom=differential, note='BOUNDED stand-in: seeded native differential run (see `bounded` in the evidence); never counted as proved')
